#!/usr/bin/env python3
"""Run the pinned baseline suite with the verification guard OFF and compare with BASELINE.json stable_pass.
usage: tools/baseline.py [repo_dir]   (default /repo).  Exit 0 iff every stable-pass test still passes."""
import json, os, subprocess, sys, tempfile, xml.etree.ElementTree as ET
repo = sys.argv[1] if len(sys.argv) > 1 else "/repo"
b = json.load(open("/root/.vp/BASELINE.json"))
out = tempfile.mktemp(suffix=".xml", dir="/var/tmp")
env = {k: v for k, v in os.environ.items() if k not in ("PYXFORM_VERIF", "PYTHONPATH")}
env["PYTHONPATH"] = repo
subprocess.run(["/venv/bin/python", "-m", "pytest", "-q", "-p", "no:cacheprovider", "--timeout=900", "--continue-on-collection-errors",
                "-n", os.environ.get("BASELINE_JOBS", "6"), f"--junitxml={out}"], cwd=repo, env=env, capture_output=True)
passed = set()
for tc in ET.parse(out).getroot().iter("testcase"):
    if not any(c.tag in ("failure", "error", "skipped") for c in tc):
        passed.add(f"{tc.get('classname')}::{tc.get('name')}")
os.unlink(out)
missing = [t for t in b["stable_pass"] if t not in passed]
print(f"stable_pass={len(b['stable_pass'])} passed_now={len(passed)} missing={len(missing)}")
for t in missing[:20]:
    print("  NOT PASSING:", t)
sys.exit(1 if missing else 0)
