#!/usr/bin/env python3
"""Regenerate the table in seeded/README.md from seeded/*/meta.json (the prose above the table is kept)."""
import json, os, re

ROOT = os.path.join(os.path.dirname(os.path.abspath(__file__)), "..", "seeded")


def title(meta):
    first = next((l for l in meta.get("needs_to_manifest", "").splitlines() if l.strip()), "")
    t = first.lstrip("# ").strip()
    t = re.sub(r"^C\d\d\s*/\s*", "", t)
    t = re.sub(r"^(mutant\s*)?m\d\w?\s*[-:–—]+\s*", "", t, flags=re.I)
    return t.replace("|", "/")[:160]


def clauses(sigs, pid):
    out = []
    for s in sigs:
        m = re.match(r"sig=(\S+)", s)
        if m:
            c = m.group(1)
            c = c[len(pid) + 1:] if c.startswith(pid + ":") else c
            if c not in out:
                out.append(c)
    return out


def main():
    path = os.path.join(ROOT, "README.md")
    head = open(path).read().split("| change |")[0]
    rows = []
    for d in sorted(os.listdir(ROOT)):
        mp = os.path.join(ROOT, d, "meta.json")
        if not os.path.exists(mp):
            continue
        meta = json.load(open(mp))
        det = []
        for pid, r in sorted(meta.get("detected_by", {}).items()):
            if r.get("exit") == 1:
                det.append(f"{pid}: " + ", ".join(f"`{c}`" for c in clauses(r.get("sigs", []), pid)[:3]))
        rows.append(f"| {d} | {title(meta)} | {'; '.join(det) or 'NOT DETECTED'} |")
    with open(path, "w") as f:
        f.write(head + "| change | what it does | caught by (check: violated clause) |\n|---|---|---|\n" + "\n".join(rows) + "\n")
    print(len(rows), "rows;", sum("NOT DETECTED" in r for r in rows), "undetected")


main()
