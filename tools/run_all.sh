#!/bin/bash
# usage: tools/run_all.sh [quick|thorough]  -- runs every registered check in /verif against /repo and rewrites evidence/
tier=${1:-quick}
cd /verif
for c in $(python3 -c "import json; print(' '.join(x['property_id'] for x in json.load(open('MANIFEST.json'))['checks']))"); do
  s=$(date +%s); ./check $c --tier $tier > out/runall_$c.log 2>&1; rc=$?
  echo "$c rc=$rc wall=$(( $(date +%s)-s ))s $(tail -1 out/runall_$c.log | cut -c1-160)"
done
