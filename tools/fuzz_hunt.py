#!/usr/bin/env python3
"""Hunt for crashes with the vocabulary fuzz over many seeds (development aid; not a registered check).
usage: PYTHONPATH=/repo:/verif PYXFORM_VERIF=1 /venv/bin/python tools/fuzz_hunt.py SEED_FROM SEED_TO N"""
import collections, json, os, sys
sys.path.insert(0, os.path.join(os.path.dirname(__file__), ".."))
from harness import conv
from harness.props import c17, c01


def main():
    a, b, n = (int(x) for x in sys.argv[1:4])
    sigs = collections.OrderedDict()
    for seed in range(a, b):
        jobs = [{"seed": seed, "idx": i, "fmt": "dict" if i % 5 else ("md" if i % 10 else "xlsx"), "kwargs": {"pretty_print": bool(i % 3 == 0)} if i % 4 == 0 else None} for i in range(n)]
        outs = conv.map_cases(c17._run_fuzz, jobs, chunksize=32)
        for o in outs:
            if "res" not in o:
                print("HARNESS", str(o)[:300]); continue
            res = o["res"]
            if res["status"] in ("ok", "pyxform_error"):
                continue
            sig = f"{res['status']}:{res.get('errclass')}@{res.get('frame')}"
            if sig not in sigs:
                sigs[sig] = (seed, o["idx"], o["fmt"], str(res.get("message"))[:200])
                print("NEW", sig, sigs[sig], flush=True)
        print("seed", seed, "done", flush=True)
    conv.close_pool()
    json.dump(sigs, open("/tmp/fuzz_hunt.json", "w"), indent=1)


main()
