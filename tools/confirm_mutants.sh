#!/bin/bash
# Confirm sub-agent mutants in a scratch worktree (never in /repo) and keep confirmed ones under /verif/seeded/<PID>-m<k>/
# usage: tools/confirm_mutants.sh [-s SUFFIX] C11 C12 ...   (reads /tmp/wt/<PID>/MUTANT/m1, m2; SUFFIX e.g. "b" for a second batch -> <PID>-m1b)
SUF=""
if [ "$1" = "-s" ]; then SUF="$2"; shift 2; fi
WT=/tmp/confirm_wt
BASE=/tmp/wt/baseline_failures.txt
git -C /repo worktree remove --force $WT 2>/dev/null
git -C /repo worktree add -q --detach $WT HEAD || exit 2
for pid in "$@"; do
 for k in 1 2; do
  src=/tmp/wt/$pid/MUTANT/m$k
  [ -f $src/patch.diff ] || { echo "$pid m$k: missing"; continue; }
  dst=/verif/seeded/$pid-m$k$SUF
  git -C $WT checkout -q -- . ; git -C $WT clean -fdq
  (cd $WT && env -u PYXFORM_VERIF PYTHONPATH=$WT /venv/bin/python $src/demo.py >/dev/null 2>&1); clean_rc=$?
  git -C $WT apply $src/patch.diff || { echo "$pid m$k: patch does not apply"; continue; }
  (cd $WT && env -u PYXFORM_VERIF PYTHONPATH=$WT /venv/bin/python -m pytest -q -p no:cacheprovider --timeout=900 -n 8 2>&1 | grep -E '^(FAILED|ERROR)' | grep -v test_validator_update | sort > /tmp/confirm_fail.txt)
  if diff <(grep -v test_validator_update $BASE) /tmp/confirm_fail.txt >/dev/null; then tests=same; else tests=DIFF; fi
  (cd $WT && env -u PYXFORM_VERIF PYTHONPATH=$WT /venv/bin/python $src/demo.py >/tmp/confirm_demo.txt 2>&1); mut_rc=$?
  git -C $WT checkout -q -- .
  echo "$pid m$k: tests=$tests demo_clean_rc=$clean_rc demo_mutant_rc=$mut_rc"
  if [ "$tests" = same ] && [ $clean_rc -eq 0 ] && [ $mut_rc -ne 0 ]; then
    mkdir -p $dst && cp $src/patch.diff $src/demo.py $dst/ && cp $src/notes.md $dst/notes.md
    python3 - "$pid" "$k$SUF" "$dst" <<'PY'
import json,sys,subprocess
pid,k,dst=sys.argv[1:4]
notes=open(dst+"/notes.md").read()
head=subprocess.run(["git","-C","/repo","log","--format=%h","-1"],capture_output=True,text=True).stdout.strip()
json.dump({"property":pid,"id":f"{pid}-m{k}","source":"independent sub-agent given only the property text and a scratch worktree",
 "needs_to_manifest":notes[:1500],
 "confirmed":{"applies_to":f"/repo HEAD {head}","existing_tests":"FAILED/ERROR set identical to baseline (ignoring tests/test_validator_update.py, which flakes on a fixed TCP port)","demo_on_clean_tree":"exit 0","demo_with_patch":"exit non-zero"},
 "ran":["git apply patch.diff in scratch worktree /tmp/confirm_wt","pytest -q -n 8 (compare FAILED/ERROR set with baseline)","python demo.py with and without the patch"],
 "detected_by":None}, open(dst+"/meta.json","w"), indent=1)
PY
  fi
 done
done
git -C /repo worktree remove --force $WT
