#!/usr/bin/env python3
"""Hunt for malformed / off-skeleton outputs with the vocabulary fuzz over many seeds (development aid for C01).
usage: PYTHONPATH=/repo:/verif PYXFORM_VERIF=1 /venv/bin/python tools/fuzz_hunt_c01.py SEED_FROM SEED_TO N"""
import os, sys
sys.path.insert(0, os.path.join(os.path.dirname(__file__), ".."))
from harness import conv
from harness.props import c01


def skeleton_ok(f):
    return (f["parse_ok"] and f["n_roots"] == 1 and f["n_decl"] == 1 and not f["unbound"] and f["root"] == "h:html" and f["n_title"] == 1 and f["n_model"] == 1
            and f["n_body"] == 1 and not f["first_instance_attrs"] and f["first_instance_nchild"] == 1 and f["primary_root_has_id"] and f["primary_is_first_instance"])


def main():
    a, b, n = (int(x) for x in sys.argv[1:4])
    seen = set()
    for seed in range(a, b):
        outs = conv.map_cases(c01._fuzz_doc, [{"seed": seed, "idx": i} for i in range(n)], chunksize=32)
        st = {}
        for o in outs:
            st[o["status"]] = st.get(o["status"], 0) + 1
            if o["status"] != "ok":
                if "crash" in str(o["status"]) or o["status"] == "malformed_output":
                    key = (o["status"], str(o.get("res", {}).get("c", {}).get("frame")))
                    if key not in seen:
                        seen.add(key)
                        print("NEW-STATUS", seed, o["job"], key, str(o.get("res", {}).get("c", {}).get("message"))[:200], flush=True)
                continue
            ev = o["trace"][0]
            for m in ("c", "p"):
                f = ev["c01"][m]
                if not skeleton_ok(f):
                    key = (m, f["error"][:60], f["parse_ok"], f["primary_root_has_id"])
                    if key not in seen:
                        seen.add(key)
                        print("NEW-SKELETON", seed, o["job"].get("tag"), key, flush=True)
        print("seed", seed, st, flush=True)
    conv.close_pool()


main()
