#!/usr/bin/env python3
"""Freeze the documented header vocabulary (column names and aliases per sheet) into spec/HeaderTable.tla.
Run once at the pinned commit; the frozen table is the specification's own copy (like TypeTable.tla).
usage: PYTHONPATH=/repo /venv/bin/python tools/gen_headertable.py"""
import os
from pyxform import aliases, constants
from pyxform.question import MultipleChoiceQuestion
from pyxform.survey import Survey
from pyxform.question import Option
option_fields = set(Option.get_slot_names())


def q(s):
    return '"' + s.replace("\\", "\\\\").replace('"', '\\"') + '"'


def seq(v):
    v = (v,) if isinstance(v, str) else tuple(v)
    return "<<" + ", ".join(q(x) for x in v) + ">>"


def setof(xs):
    return "{" + ", ".join(q(x) for x in sorted(xs)) + "}"


def fn(d):
    if not d:
        return "<<>>"
    return " @@\n    ".join(f"({q(k)} :> {seq(v)})" for k, v in sorted(d.items()))


sheets = {
    "survey": (set(MultipleChoiceQuestion.get_slot_names()), aliases.survey_header),
    "choices": (set(option_fields), aliases.list_header),
    "settings": (set(Survey.get_slot_names()), aliases.settings_header),
}
for name, (cols, al) in sheets.items():
    assert not any(":" in c for c in cols), name
out = ["---------------------------- MODULE HeaderTable ----------------------------",
       "(* The documented column names and column aliases of the survey, choices and settings sheets, transcribed by   *)",
       "(* tools/gen_headertable.py from the pinned commit (slot names of the element classes; aliases.*_header) and    *)",
       "(* FROZEN here: the specification's own copy.  An alias maps a first header token to one or two tokens.         *)",
       "EXTENDS TLC"]
for name, (cols, al) in sheets.items():
    out.append(f"Cols_{name} == {setof(cols)}")
    out.append(f"Alias_{name} ==\n    {fn(al)}")
# spelled variants of the generator's first words (TLA+ has no case conversion): [core, snake]
WORDS = ["label", "hint", "guidance_hint", "constraint_message", "required_message", "relevant", "relevance", "read_only", "readonly", "calculation",
         "calculate", "caption", "image", "audio", "media", "bind", "body", "control", "instance", "appearance", "repeat_count", "choice_filter",
         "mycol", "type", "name", "list_name", "value", "form_title", "title", "form_id", "id_string", "set_form_id", "prefix", "attribute",
         "namespaces", "count", "jr", "default", "required", "constraint", "version", "trigger", "parameters"]


def spellings(w):
    v = [w, w.capitalize(), w.upper()]
    if "_" in w:
        v += [w.replace("_", " "), w.replace("_", "  ").title()]
    seen, out = set(), []
    for x in v:
        if x not in seen:
            seen.add(x)
            out.append(x)
    return out


def snake(x):
    return "_".join(x.split()).lower()


rows = []
for w in WORDS:
    rows.append(f"({q(w)} :> {{" + ", ".join(f"[core |-> {q(x)}, snake |-> {q(snake(x))}]" for x in spellings(w)) + "})")
out.append("Spell ==\n    " + " @@\n    ".join(rows))
out.append('Cols(s) == CASE s = "survey" -> Cols_survey [] s = "choices" -> Cols_choices [] s = "settings" -> Cols_settings')
out.append('Alias(s) == CASE s = "survey" -> Alias_survey [] s = "choices" -> Alias_choices [] s = "settings" -> Alias_settings')
out.append("=" * 77)
p = os.path.join(os.path.dirname(__file__), "..", "spec", "HeaderTable.tla")
open(p, "w").write("\n".join(out) + "\n")
print("wrote", p)
