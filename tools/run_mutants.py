#!/usr/bin/env python3
"""Run registered checks against seeded mutants, each in its own scratch worktree (never in /repo).

usage: tools/run_mutants.py [--tier quick] [--checks C04,C02] <mutant-id>...   (default: every seeded/<id>)
For each mutant: git worktree of /repo HEAD under /tmp, apply patch.diff, run ./check <PID> with VERIF_REPO
pointing at the worktree and VERIF_NOEVIDENCE=1, record rc / first sig lines in seeded/<id>/meta.json
("detected_by"), remove the worktree."""
import json, os, subprocess, sys, argparse, shutil
V = "/verif"
ap = argparse.ArgumentParser()
ap.add_argument("ids", nargs="*")
ap.add_argument("--tier", default="quick")
ap.add_argument("--checks", default="")
ap.add_argument("--no-record", action="store_true")
a = ap.parse_args()
ids = a.ids or sorted(os.listdir(f"{V}/seeded"))
claimed = {c["property_id"] for c in json.load(open(f"{V}/MANIFEST.json"))["checks"]}
for mid in ids:
    d = f"{V}/seeded/{mid}"
    meta = json.load(open(f"{d}/meta.json"))
    pid = meta["property"]
    checks = a.checks.split(",") if a.checks else [pid]
    wt = f"/tmp/mutwt-{mid}-{os.getpid()}"
    subprocess.run(["git", "-C", "/repo", "worktree", "add", "-q", "--detach", wt, "HEAD"], check=True)
    try:
        p = subprocess.run(["git", "-C", wt, "apply", f"{d}/patch.diff"], capture_output=True, text=True)
        if p.returncode != 0:
            print(f"{mid}: patch does not apply: {p.stderr[:200]}")
            continue
        res = {}
        for c in checks:
            if c not in claimed and not a.checks:
                print(f"{mid}: check {c} not claimed yet")
                continue
            env = dict(os.environ, VERIF_REPO=wt, VERIF_NOEVIDENCE="1")
            q = subprocess.run([f"{V}/check", c, "--tier", a.tier], capture_output=True, text=True, env=env)
            sigs = sorted({l.strip()[:200] for l in q.stdout.splitlines() if l.strip().startswith("sig=")})[:4]
            res[c] = {"rc": q.returncode, "violations": q.stdout.count("VIOLATION property="), "sigs": sigs}
            print(f"{mid}: {c} rc={q.returncode} violations={res[c]['violations']} {sigs[:1]}", flush=True)
            if q.returncode == 2:
                print((q.stderr or q.stdout)[-800:])
        if res and not a.no_record:
            det = meta.get("detected_by") or {}
            if not isinstance(det, dict):
                det = {}
            for c, r in res.items():
                det[c] = {"tier": a.tier, "exit": r["rc"], "violations": r["violations"], "sigs": r["sigs"]}
            meta["detected_by"] = det
            json.dump(meta, open(f"{d}/meta.json", "w"), indent=1)
    finally:
        subprocess.run(["git", "-C", "/repo", "worktree", "remove", "--force", wt])
        shutil.rmtree(wt, ignore_errors=True)
