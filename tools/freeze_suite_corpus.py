#!/usr/bin/env python3
"""Freeze the workbooks the repository's own test-suite converts into /verif/corpus/suite_forms.json.gz (inputs only).
Run once at the pinned commit: PYTHONPATH=/repo:/verif /venv/bin/python tools/freeze_suite_corpus.py"""
import gzip, hashlib, json, os, sys
sys.path.insert(0, os.path.join(os.path.dirname(__file__), ".."))
from harness import suitetraces

recs = suitetraces.record("/repo")
seen, out = set(), []
for r in recs:
    if "wb" not in r:
        continue
    wb = suitetraces.wb_of(r)
    if not wb["sheets"]:
        continue
    item = {"wb": wb, "form_name": r.get("form_name"), "status_at_freeze": r["status"], "test": r.get("test")}
    k = hashlib.sha1(json.dumps([wb, item["form_name"]], sort_keys=True).encode()).hexdigest()
    if k in seen:
        continue
    seen.add(k)
    out.append(item)
d = os.path.join(os.path.dirname(__file__), "..", "corpus")
os.makedirs(d, exist_ok=True)
with gzip.open(os.path.join(d, "suite_forms.json.gz"), "wt", encoding="utf-8") as f:
    json.dump(out, f, ensure_ascii=False)
print(len(recs), "conversions ->", len(out), "distinct workbooks;", sum(1 for x in out if x["status_at_freeze"] == "ok"), "accepted")
