#!/usr/bin/env python3
"""Regenerate MANIFEST.json from tools/manifest_src.json (claimed checks) + properties.jsonl."""
import json, subprocess
props = [json.loads(l) for l in open("/verif/properties.jsonl")]
src = json.load(open("/verif/tools/manifest_src.json"))
hooks = subprocess.run(["git", "-C", "/repo", "log", "--format=%h %s"], capture_output=True, text=True).stdout.splitlines()
hook_commits = [l.split()[0] for l in hooks if "verif hooks" in l or l.split(" ", 1)[1].startswith("hooks:")]
checks = []
for pid, c in src["checks"].items():
    checks.append({
        "property_id": pid,
        "quick_cmd": f"./check {pid} --tier quick",
        "thorough_cmd": f"./check {pid} --tier thorough",
        "evidence_file": f"/verif/evidence/{pid}.json",
        "replay_cmd_template": f"./check {pid} --replay {{path}}",
        "engine": "tlc",
        "level_claimed": {"category": "model_checking", "text": c["text"], "design_ref": c.get("design_ref", "DESIGN.md section 4 / " + pid)},
        "level_note": c["note"],
        "technique": c["technique"],
    })
na = [{"property_id": p["id"], "reason": src["not_applicable"].get(p["id"], "check not built yet in this session (work in progress; plan in DESIGN.md section 4)")}
      for p in props if p["id"] not in src["checks"]]
m = {
    "version": 1,
    "setup_cmd": "./check --setup",
    "hooks": {
        "guard": "PYXFORM_VERIF",
        "enable": "checks run /venv/bin/python with PYTHONPATH=/repo PYXFORM_VERIF=1 on /repo's working tree (pyxform/_verif.py event sink + 2 guarded call sites in xls2json.py)",
        "baseline_off_cmd": "cd /repo && env -u PYXFORM_VERIF /venv/bin/python -m pytest -ra -q -p no:cacheprovider --timeout=900 --continue-on-collection-errors",
        "source_commits": hook_commits,
        "add_only": True,
    },
    "engines": [{"name": "tlc", "path": "/verif/spec", "serves_properties": sorted(src["checks"]), "kind_free_text": "explicit TLA+ specification (RowParser, ...) model-checked with TLC; TLC-generated behaviours replayed into pyxform; recorded executions validated as traces by TLC"}],
    "checks": checks,
    "not_applicable": na,
    "notes": "All checks: ./check <ID> [--tier quick|thorough]; exit 0 held, 1 VIOLATION, 2 machinery failure. known findings: /verif/known_findings.json",
}
json.dump(m, open("/verif/MANIFEST.json", "w"), indent=1)
print("checks:", sorted(src["checks"]), "n/a:", len(na))
