#!/usr/bin/env python3
"""Print one line per seeded mutant: which registered checks detected it."""
import json, glob, os
for d in sorted(glob.glob(os.path.join(os.path.dirname(__file__), "..", "seeded", "*", "meta.json"))):
    m = json.load(open(d)); n = os.path.basename(os.path.dirname(d))
    db = m.get("detected_by") or {}
    cells = []
    for c, r in sorted(db.items()):
        cl = sorted({s.split("::")[0].replace("sig=", "").strip() for s in r.get("sigs", [])})
        cells.append(f"{c}:{'DETECTED' if r.get('exit') == 1 else 'missed'}({r.get('violations')}) {cl[:2]}")
    print(n, "|", "; ".join(cells) or "NOT RUN")
