#!/bin/sh
# usage: tools/try_mutant.sh <patch.diff> <check id>...   -- apply to /repo, run checks (quick), revert.
patch="$1"; shift
cd /repo || exit 2
git diff --quiet || { echo "repo dirty"; exit 2; }
git apply "$patch" || { echo "patch does not apply"; exit 2; }
cd /verif
for id in "$@"; do
  VERIF_NOEVIDENCE=1 ./check "$id" > "/tmp/mut_$id.log" 2>&1; rc=$?
  echo "$id rc=$rc $(grep -c '^VIOLATION' /tmp/mut_$id.log) violations; $(grep -m1 'sig=' /tmp/mut_$id.log | cut -c1-160)"
done
git -C /repo checkout -- . 
