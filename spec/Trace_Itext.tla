---------------------------- MODULE Trace_Itext ----------------------------
(* One trace = one conversion: <<[ev "itext", src, obs]>>.  PROP selects C07 (closure) or C08 (content). *)
EXTENDS Itext, Json, IOUtils
VARIABLES tid, l
Traces == JsonDeserialize(IOEnv.TRACE_FILE)
Prop == IOEnv.PROP
T == Traces[tid]
Ev == T[l]
Check(name, cond) == IF cond THEN TRUE ELSE (PrintT(<<"AT", tid, l, name>>) /\ FALSE)
Obs == Ev.obs
Src == Ev.src
IdsOf(L) == LET S == {i \in 1..Len(Obs.ids) : Obs.ids[i][1] = L} IN IF S = {} THEN {} ELSE SeqToSet(Obs.ids[CHOOSE i \in S : TRUE][2])

\* the closure clauses that need no knowledge of the source (also evaluated on forms of other generators and of the
\* repository's test-suite: PROP = "C07free")
C07Free ==
  /\ Check("itext_block_present_when_referenced", Len(Obs.refs) > 0 => Obs.present)
  /\ Check("every_reference_resolves_in_every_language",
           \A i \in 1..Len(Obs.refs) : \A j \in 1..Len(Obs.langs) : Obs.refs[i] \in IdsOf(Obs.langs[j]))
  /\ Check("same_ids_in_all_translations", \A i, j \in 1..Len(Obs.langs) : IdsOf(Obs.langs[i]) = IdsOf(Obs.langs[j]))
  /\ Check("no_language_twice", NoDupSeq(Obs.langs))
  /\ Check("no_id_twice", Len(Obs.dup_ids) = 0)
  /\ Check("default_marked_once", Len(Obs.defaults) <= 1)
C07Env ==
  /\ C07Free
  /\ Check("only_default_language_marked", SeqToSet(Obs.defaults) \subseteq {DefLang(Src)})
  /\ Check("default_language_marked_when_present", DefLang(Src) \in SeqToSet(Obs.langs) => SeqToSet(Obs.defaults) = {DefLang(Src)})
  /\ Check("default_marked_once", Len(Obs.defaults) <= 1)

C08Env ==
  /\ Check("every_source_pair_projected",
           \A i \in 1..Len(Src.cells) : \E j \in 1..Len(Obs.eff) : Obs.eff[j].e = Src.cells[i][1] /\ Obs.eff[j].k = Src.cells[i][2])
  /\ Check("shown_text_is_the_cell_for_that_language", \A j \in 1..Len(Obs.eff) : EffOK(Src, Obs.eff[j]))
  /\ Check("languages_exactly_those_mentioned", SeqToSet(Obs.langs) = LangsExpected(Src, Obs.eff))
  /\ Check("itext_values_cover_every_language",
           \A j \in 1..Len(Obs.eff) : Obs.eff[j].mode = "itext" =>
              {Obs.eff[j].vals[k][1] : k \in 1..Len(Obs.eff[j].vals)} = SeqToSet(Obs.langs))

TInit == tid \in 1..Len(Traces) /\ l = 1 /\ pat = <<>> /\ dl = "" /\ refs = FALSE /\ nchg = 0 /\ last = 0
TItext == /\ l <= Len(T) /\ Ev.ev = "itext"
          /\ Check("converted", Ev.status = "ok")
          /\ (Prop = "C07" => C07Env)
          /\ (Prop = "C07free" => C07Free)
          /\ (Prop = "C08" => C08Env)
          /\ l' = l + 1 /\ UNCHANGED <<tid, ivars>>
TSpec == TInit /\ [][TItext]_<<ivars, tid, l>>
Accepted == (l = Len(T) + 1) => PrintT(<<"ACCEPT", tid>>)
=============================================================================
