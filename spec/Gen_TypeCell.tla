---------------------------- MODULE Gen_TypeCell ---------------------------
EXTENDS TypeCell, Json
Emit == (phase = "done") =>
  LET ws == Words(c) p == Parse(ws) IN
  PrintT(ToJson([c |-> c, pad |-> pad, words |-> ws, parse |-> p, indomain |-> InDomain(c),
                 canon |-> (IF InDomain(c) THEN CanonWords(Meaning(c)) ELSE <<>>),
                 ctype |-> (IF c.k \in {"begin", "end"} THEN ControlAliases[c.ai].t ELSE p.t),
                 order_dependent |-> OrderDependent(ws)]))
=============================================================================
