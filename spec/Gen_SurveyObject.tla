-------------------------- MODULE Gen_SurveyObject --------------------------
EXTENDS SurveyObject, Json
Emit == (Len(hist) > 0 /\ hist[Len(hist)][1] = "render") => PrintT(ToJson([hist |-> hist, inspect |-> inspect]))
=============================================================================
