----------------------------- MODULE Gen_JsonIR -----------------------------
EXTENDS JsonIR, Json
RECURSIVE SetToSeq(_)
SetToSeq(S) == IF S = {} THEN <<>> ELSE LET x == CHOOSE y \in S : TRUE IN <<x>> \o SetToSeq(S \ {x})
Emit == (phase = "done") => PrintT(ToJson([feats |-> SetToSeq(feats), predicted_lost |-> SetToSeq(PredictedLost(feats))]))
=============================================================================
