---------------------------- MODULE Trace_JsonIR ----------------------------
EXTENDS JsonIR, Json, IOUtils
VARIABLES tid, l
Traces == JsonDeserialize(IOEnv.TRACE_FILE)
T == Traces[tid]
Ev == T[l]
Check(name, cond) == IF cond THEN TRUE ELSE (PrintT(<<"AT", tid, l, name>>) /\ FALSE)
C16Env ==
  /\ Check("converted", Ev.status = "ok")
  /\ Check("pathA_json_text_roundtrip_is_identity", Ev.a_dict_equal)
  /\ Check("pathA_xform_identical_to_direct_conversion", Ev.a_xform_equal)
  /\ Check("pathB_dump_stable_under_dump_load_dump", Ev.b_dump_stable)
  /\ Check("pathB_reloaded_survey_same_xform", Ev.b_xform_equal)
TInit == tid \in 1..Len(Traces) /\ l = 1 /\ feats = {} /\ phase = "trace"
TStep == /\ l <= Len(T) /\ Ev.ev = "json" /\ C16Env /\ l' = l + 1 /\ UNCHANGED <<tid, jvars>>
TSpec == TInit /\ [][TStep]_<<jvars, tid, l>>
Accepted == (l = Len(T) + 1) => PrintT(<<"ACCEPT", tid>>)
=============================================================================
