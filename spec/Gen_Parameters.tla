--------------------------- MODULE Gen_Parameters ---------------------------
EXTENDS Parameters, Json
Emit == done => PrintT(ToJson([cell |-> cell, text |-> CellText(cell), dom |-> InDomain(cell)]))
=============================================================================
