---------------------------- MODULE Gen_Warnings ---------------------------
EXTENDS Warnings, Json
RECURSIVE SetToSeq(_)
SetToSeq(S) == IF S = {} THEN <<>> ELSE LET x == CHOOSE y \in S : TRUE IN <<x>> \o SetToSeq(S \ {x})
Emit == done => PrintT(ToJson([sh |-> SetToSeq(sh), ch |-> SetToSeq(ch), other |-> other, trig |-> SetToSeq(trig), blanks |-> blanks]))
=============================================================================
