--------------------------- MODULE Trace_Validate ---------------------------
(* One trace = one real execution: <<[ev "config", ...], [ev "observed", ...]>>.  The machine of Validate.tla is   *)
(* started in the configuration of the first event and run to termination (its own steps are silent here); the    *)
(* second event is what was observed from outside the process and must equal the machine's terminal state.       *)
EXTENDS Validate, Json, IOUtils
VARIABLES tid, l
Traces == JsonDeserialize(IOEnv.TRACE_FILE)
T == Traces[tid]
Ev == T[l]
Check(name, cond) == IF cond THEN TRUE ELSE (PrintT(<<"AT", tid, l, name>>) /\ FALSE)
Cfg == T[1]
TInit == /\ tid \in 1..Len(Traces) /\ l = 2
         /\ Init
         /\ entry = Traces[tid][1].entry /\ form = Traces[tid][1].form /\ vout = Traces[tid][1].vout
         /\ pre = Traces[tid][1].pre /\ ext = Traces[tid][1].ext
Run == pc # "Done" /\ Next /\ UNCHANGED <<tid, l>>
\* "validator killed": the property demands only that nothing is left behind (DESIGN 5a)
\* the same reading for a validator that hangs and is ended by the watchdog's signal; what the code does then (accept with a
\* "took to long" warning) is the transcription - a difference is reported by the harness as drift, not as a violation
OnlyResidue == vout \in (Killed \cup Hung) /\ Validates(entry) /\ form = "valid"
Observed ==
  /\ pc = "Done" /\ l <= Len(T) /\ Ev.ev = "observed"
  /\ Check("no_temp_residue", Ev.tmp = 0 /\ tmpfiles = {})
  /\ (~OnlyResidue =>
       /\ Check("outcome_class", Ev.exc = exc)
       /\ Check("output_path_state", Ev.out = out)
       /\ Check("itemsets_beside_output", Ev.itemsets = itemsets)
       /\ Check("json_code", IsJson(entry) => Ev.code = code)
       /\ Check("validator_stderr_surfaced", ("stderr" \in warn) => Ev.warn_stderr)
       /\ Check("no_warning_invented", (exc = "none" /\ warn = {}) => ~Ev.warn_stderr)
       /\ Check("validator_called_iff_validating", Ev.called = called)
       /\ Check("validator_saw_the_xform_file", called => Ev.sawfile)
       /\ Check("written_file_equals_library_result", out = "new" => Ev.out_equals_lib)
       /\ Check("diagnostics_cleaned", (exc = "ODKValidateError" /\ vout \in {"reject", "reject_rc2"}) => Ev.msg_clean)
       /\ Check("diagnostics_carried", (exc = "ODKValidateError" /\ vout \in {"reject", "reject_rc2", "reject_arbitrary", "reject_bytes", "corrupt_jar", "corrupt_jar_after_notice"}) => Ev.msg_carries))
  /\ l' = l + 1 /\ UNCHANGED <<tid, vars>>
TNext == Run \/ Observed
TSpec == TInit /\ [][TNext]_<<vars, tid, l>>
TAccepted == (l = Len(T) + 1) => PrintT(<<"ACCEPT", tid>>)
=============================================================================
