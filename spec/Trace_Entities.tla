--------------------------- MODULE Trace_Entities --------------------------
EXTENDS Entities, Json, IOUtils
VARIABLES tid, l
Traces == JsonDeserialize(IOEnv.TRACE_FILE)
T == Traces[tid]
Ev == T[l]
Check(name, cond) == IF cond THEN TRUE ELSE (PrintT(<<"AT", tid, l, name>>) /\ FALSE)
O == Ev.obs
X == [id |-> Ev.case.id, cr |-> Ev.case.cr, up |-> Ev.case.up, lab |-> Ev.case.lab, refs |-> Ev.case.refs, dataset |-> Ev.case.dataset,
      nrows |-> Ev.case.nrows, extracol |-> Ev.case.extracol, sheet |-> Ev.case.sheet, nsset |-> Ev.case.nsset,
      saveto |-> {<<Ev.case.saveto[i][1], Ev.case.saveto[i][2]>> : i \in 1..Len(Ev.case.saveto)}]
BindCalc(sfx) == LET S == {i \in 1..Len(O.binds) : O.binds[i][1] = sfx} IN IF S = {} THEN "?" ELSE O.binds[CHOOSE i \in S : TRUE][2]
C19Env ==
  /\ Check("invalid_combination_rejected", Rejected(X) <=> Ev.status = "pyxform_error")
  /\ Check("no_crash", Ev.status \in {"ok", "pyxform_error"})
  /\ (Ev.status = "ok" =>
       /\ Check("output_wellformed_and_namespace_valid", O.parse_ok)
       /\ Check("custom_namespaces_still_declared", X.nsset => O.custom_ns_declared)
       /\ Check("entity_declared_iff_sheet", O.present = Declares(X))
       /\ Check("namespace_and_version_iff_declared", (O.ns_declared = Declares(X)) /\ ((O.version # "") = Declares(X)))
       /\ (Declares(X) =>
            /\ Check("entity_attributes_exactly", {O.attrs[i][1] : i \in 1..Len(O.attrs)} = ExpAttrs(X))
            /\ Check("create_update_flags", \A i \in 1..Len(O.attrs) : O.attrs[i][1] \in {"create", "update"} => O.attrs[i][2] = "1")
            /\ Check("dataset_attribute", \E i \in 1..Len(O.attrs) : O.attrs[i] = <<"dataset", Ev.src.dataset>>)
            /\ Check("label_child_iff_label", O.has_label = X.lab)
            /\ Check("binds_exactly", {O.binds[i][1] : i \in 1..Len(O.binds)} = ExpBindSuffixes(X) /\ Len(O.binds) = Cardinality(ExpBindSuffixes(X)))
            /\ Check("id_generated_on_first_load_when_creating",
                     IF Creates(X) THEN O.setvalue = <<<<"odk-instance-first-load", "uuid()">>>> ELSE O.setvalue = <<>>)
            /\ Check("id_calculated_from_entity_id_when_updating", BindCalc("/@id") = (IF Updates(X) THEN Ev.src.id ELSE ""))
            /\ Check("create_condition_bound", X.cr => BindCalc("/@create") = Ev.src.cr)
            /\ Check("update_condition_bound", X.up => BindCalc("/@update") = Ev.src.up)
            /\ Check("label_bound", X.lab => BindCalc("/label") = Ev.src.lab)
            /\ Check("version_binds_read_the_entity_list", Updates(X) =>
                     (BindCalc("/@baseVersion") = Ev.src.ver[1] /\ BindCalc("/@trunkVersion") = Ev.src.ver[2] /\ BindCalc("/@branchId") = Ev.src.ver[3]))
            /\ Check("entity_binds_string_readonly", \A i \in 1..Len(O.binds) : O.binds[i][3] = "string" /\ O.binds[i][4] = "true()"))
       /\ Check("saveto_on_own_bind_only", SeqToSet(O.saveto) = SeqToSet(Ev.src.saveto)))
TInit == tid \in 1..Len(Traces) /\ l = 1 /\ c = Base /\ phase = "trace"
TStep == /\ l <= Len(T) /\ Ev.ev = "entity" /\ C19Env /\ l' = l + 1 /\ UNCHANGED <<tid, evars>>
TSpec == TInit /\ [][TStep]_<<evars, tid, l>>
Accepted == (l = Len(T) + 1) => PrintT(<<"ACCEPT", tid>>)
=============================================================================
