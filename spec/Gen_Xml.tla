------------------------------- MODULE Gen_Xml ------------------------------
(* Generators for the XML trio: (1) every model DOM of XmlWriter (replayed into the real writer);            *)
(* (2) every hostile class string up to MaxLen over the adversarial alphabet (concretised by the harness).    *)
EXTENDS XmlWriter, Json
CONSTANTS MaxLen, Mode
Hostile == {"p", "lt", "gt", "amp", "quot", "apos", "sp", "cdend", "entity", "comment", "lbrace", "rbrace", "dollar", "astral", "rtl", "numref", "tag", "pi",
            "zwnj", "rlm", "zwsp", "pct"}      \* zero-width non-joiner (Persian spelling), right-to-left mark, zero-width space: data, not blanks; pct: a percent sign (format directive of the loop rows)
\* text that LOOKS like a function call the converter acts on elsewhere (in expression cells): in a text place it is text.
\* Each is a whole string of its own; a hostile class may follow it.
FunctionLike == {"fn_pulldata", "fn_search", "fn_itext", "fn_now"}
VARIABLE hs
GInit == IF Mode = "dom" THEN dom \in Doms /\ hs = <<>> ELSE dom = [k |-> "none"] /\ hs \in ({<<>>} \cup {<<f>> : f \in FunctionLike})
GNext == Mode = "str" /\ Len(hs) < MaxLen /\ \E c \in Hostile : hs' = Append(hs, c) /\ UNCHANGED dom
GSpec == GInit /\ [][GNext]_<<dom, hs>>
Emit == PrintT(ToJson(IF Mode = "dom" THEN [dom |-> dom] ELSE [classes |-> hs]))
=============================================================================
