--------------------------- MODULE MC_RowParser ---------------------------
(* Bounded-exhaustive exploration of RowParser over a row alphabet with a small, collision-prone  *)
(* name pool (case variants and generated-name look-alikes) -- the "GenClash" space of DESIGN 2.5. *)
EXTENDS RowParser
CONSTANTS MaxRows

Names == {"a", "A", "b", "a_count", "a_other", "meta"}
Low(n) == IF n = "A" THEN "a" ELSE n
Base == [k |-> "q", ct |-> "", name |-> "", lname |-> "", hasname |-> TRUE, nameok |-> TRUE,
         type |-> "text", count |-> "none", tl |-> FALSE, lh |-> TRUE, media |-> FALSE, list |-> "",
         listkind |-> "", other |-> FALSE, filt |-> FALSE, hascalc |-> FALSE, dyn |-> "none",
         trig |-> FALSE, refs |-> <<>>, cattrs |-> <<>>, tlapp |-> "field-list", warns |-> <<>>]
With(f) == f @@ Base

Named(n) == {
   With([name |-> n, lname |-> Low(n)]),
   With([name |-> n, lname |-> Low(n), type |-> "calculate", hascalc |-> TRUE, lh |-> FALSE]),
   With([k |-> "select", name |-> n, lname |-> Low(n), type |-> "select one", list |-> "L", listkind |-> "plain"]),
   With([k |-> "select", name |-> n, lname |-> Low(n), type |-> "select one", list |-> "L", listkind |-> "plain", other |-> TRUE]),
   With([k |-> "select", name |-> n, lname |-> Low(n), type |-> "select one", list |-> "M", listkind |-> "plain"]),
   With([k |-> "begin", ct |-> "group", name |-> n, lname |-> Low(n), type |-> "group"]),
   With([k |-> "begin", ct |-> "group", name |-> n, lname |-> Low(n), type |-> "group", tl |-> TRUE]),
   With([k |-> "begin", ct |-> "repeat", name |-> n, lname |-> Low(n), type |-> "repeat"]),
   With([k |-> "begin", ct |-> "repeat", name |-> n, lname |-> Low(n), type |-> "repeat", count |-> "expr"]) }

Unnamed == {
   With([k |-> "end", ct |-> "group", hasname |-> FALSE]),
   With([k |-> "end", ct |-> "repeat", hasname |-> FALSE]),
   With([k |-> "skip", hasname |-> FALSE, warns |-> <<"comment">>]),
   With([k |-> "audit", hasname |-> FALSE, type |-> "audit"]),
   With([type |-> "note", hasname |-> FALSE]),
   With([type |-> "calculate", name |-> "c", lname |-> "c", lh |-> FALSE]),
   With([k |-> "notype", hasname |-> FALSE]) }

Alphabet == UNION {Named(n) : n \in Names} \cup Unnamed

Cfgs == { [lists |-> {"L"}, formname |-> "data", omitid |-> FALSE, iname |-> FALSE, entity |-> FALSE, entlabel |-> FALSE],
          [lists |-> {"L", "M"}, formname |-> "a", omitid |-> TRUE, iname |-> FALSE, entity |-> FALSE, entlabel |-> FALSE] }

MCInit == \E c \in Cfgs : RPInit(c)
More == rowno - 2 < MaxRows
ASkip     == More /\ \E r \in Alphabet : RowSkip(r)
ANoType   == More /\ \E r \in Alphabet : RowNoType(r)
AAudit    == More /\ \E r \in Alphabet : RowAudit(r)
AEnd      == More /\ \E r \in Alphabet : RowEnd(r)
ABegin    == More /\ \E r \in Alphabet : RowBegin(r)
ASelect   == More /\ \E r \in Alphabet : RowSelect(r)
AQuestion == More /\ \E r \in Alphabet : RowQuestion(r)
MCNext == ASkip \/ ANoType \/ AAudit \/ AEnd \/ ABegin \/ ASelect \/ AQuestion \/ Finish
MCSpec == MCInit /\ [][MCNext]_rpvars
=============================================================================
