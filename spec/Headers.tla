------------------------------ MODULE Headers ------------------------------
(***************************************************************************)
(* Column headers (C13; underlies C05 and C08).                            *)
(*                                                                         *)
(* A header cell is, abstractly, a sequence of colon-free words separated  *)
(* by "::" or ":" (with optional blanks).  This module holds               *)
(*   - Meaning(sheet, h): the ENVELOPE - what a header written in a        *)
(*     documented spelling means (a token path), independent of case,      *)
(*     blanks, alias and delimiter style;                                  *)
(*   - ProcessHeader(sheet, h, udc): a TRANSCRIPTION of                    *)
(*     pyxform.parsing.sheet_headers.process_header for any header;        *)
(*   - GroupLeaves: the envelope for grouping one row's cells under the    *)
(*     header paths (process_row / merge_dicts), independent of column     *)
(*     order;                                                              *)
(*   - a generator of headers and of small sheets.                         *)
(* TLC checks that the transcription meets the envelope on its domain and  *)
(* where (and only where) the two delimiter styles are not interchangeable.*)
(***************************************************************************)
EXTENDS Naturals, Sequences, FiniteSets, TLC, HeaderTable

Dbl == {"::", " :: "}
Sgl == {":", " : "}
Prefixes == {"", "jr", "odk"}
DefaultKey == "default"

(* A segment: [pre, core, snake, lp, rp]                                              *)
(*   core  the word without surrounding blanks;  snake = to_snake_case(core)          *)
(*   lp/rp one blank before/after the word;  pre: namespace prefix written pre:core   *)
Seg(pre, core, snake, lp, rp) == [pre |-> pre, core |-> core, snake |-> snake, lp |-> lp, rp |-> rp]
SegText(g, dropL, dropR) ==
  (IF g.pre = "" THEN "" ELSE g.pre \o ":") \o (IF g.lp /\ ~dropL THEN " " ELSE "") \o g.core \o (IF g.rp /\ ~dropR THEN " " ELSE "")
SegSnake(g) == (IF g.pre = "" THEN "" ELSE g.pre \o ":") \o g.snake

\* header: [segs, seps] with Len(seps) = Len(segs) - 1
RECURSIVE RunText(_, _, _, _)
RunText(h, i, j, first) ==
  IF i = j THEN SegText(h.segs[i], first, TRUE)
  ELSE SegText(h.segs[i], first, FALSE) \o h.seps[i] \o RunText(h, i + 1, j, FALSE)
RawHeader(h) ==   \* the cell text exactly as written
  LET RECURSIVE R(_)
      R(i) == IF i = Len(h.segs) THEN SegText(h.segs[i], FALSE, FALSE) ELSE SegText(h.segs[i], FALSE, FALSE) \o h.seps[i] \o R(i + 1)
  IN R(1)
RECURSIVE RunSnake(_, _, _)
RunSnake(h, i, j) ==   \* to_snake_case of the run's text: blanks become "_" (none at the ends)
  IF i = j THEN SegSnake(h.segs[i])
  ELSE LET lb == h.segs[i].rp \/ h.seps[i] = " : "
           rb == h.seps[i] = " : " \/ h.segs[i + 1].lp
       IN SegSnake(h.segs[i]) \o (IF lb THEN "_" ELSE "") \o ":" \o (IF rb THEN "_" ELSE "") \o RunSnake(h, i + 1, j)

HasDbl(h) == \E i \in 1..Len(h.seps) : h.seps[i] \in Dbl
AllDbl(h) == \A i \in 1..Len(h.seps) : h.seps[i] \in Dbl
AllSgl(h) == \A i \in 1..Len(h.seps) : h.seps[i] \in Sgl

(* ------------------------------------------------------------------ transcription of process_header *)
\* tokens are [t: text, s: snake]
DblTokens(h) ==   \* split on "::" only; ":" stays inside a token; each token stripped
  LET cuts == {0} \cup {i \in 1..Len(h.seps) : h.seps[i] \in Dbl} \cup {Len(h.segs)}
      starts == {c + 1 : c \in cuts \ {Len(h.segs)}}
      EndOf(s) == CHOOSE e \in cuts : e >= s /\ \A e2 \in cuts : e2 >= s => e <= e2
      RECURSIVE Build(_)
      Build(s) == IF s > Len(h.segs) THEN <<>>
                  ELSE <<[t |-> RunText(h, s, EndOf(s), TRUE), s |-> RunSnake(h, s, EndOf(s))]>> \o Build(EndOf(s) + 1)
  IN Build(1)
SglTokens(h) ==   \* split on every ":", each token stripped
  LET RECURSIVE B(_)
      B(i) == IF i > Len(h.segs) THEN <<>>
              ELSE LET g == h.segs[i] IN
                   (IF g.pre = "" THEN <<[t |-> g.core, s |-> g.snake]>> ELSE <<[t |-> g.pre, s |-> g.pre], [t |-> g.core, s |-> g.snake]>>) \o B(i + 1)
  IN B(1)
JrJoin(t) ==      \* "jr" followed by a token is re-joined as jr:token (first occurrence only)
  LET J == {i \in 1..(Len(t) - 1) : t[i].t = "jr"} IN
  IF J = {} THEN t
  ELSE LET i == CHOOSE k \in J : \A k2 \in J : k <= k2
       IN SubSeq(t, 1, i - 1) \o <<[t |-> "jr:" \o t[i + 1].t, s |-> "jr:" \o t[i + 1].s]>> \o SubSeq(t, i + 2, Len(t))
Texts(t) == [i \in 1..Len(t) |-> t[i].t]

ProcessHeader(sheet, h, udc) ==
  LET raw == RawHeader(h)
      A == Alias(sheet)
      C == Cols(sheet)
      single == Len(h.segs) = 1 /\ h.segs[1].pre = ""
  IN IF single /\ raw \in C /\ raw \notin DOMAIN A THEN [newh |-> <<raw>>, tokens |-> <<raw>>]
     ELSE IF single /\ h.segs[1].snake \in C /\ h.segs[1].snake \notin DOMAIN A THEN [newh |-> <<h.segs[1].snake>>, tokens |-> <<h.segs[1].snake>>]
     ELSE LET toks == IF udc \/ HasDbl(h) THEN DblTokens(h) ELSE JrJoin(SglTokens(h))
              new == toks[1].s
              rest == Texts(SubSeq(toks, 2, Len(toks)))
          IN IF new \in DOMAIN A THEN [newh |-> A[new], tokens |-> A[new] \o rest]
             ELSE IF new \in C THEN [newh |-> <<new>>, tokens |-> <<new>> \o rest]
             ELSE [newh |-> <<raw>>, tokens |-> Texts(toks)]     \* unknown columns are left as written

(* ------------------------------------------------------------------ envelope *)
Known(sheet, w) == w \in Cols(sheet) \/ w \in DOMAIN Alias(sheet)
Canon(sheet, w) == IF w \in DOMAIN Alias(sheet) THEN Alias(sheet)[w] ELSE <<w>>
\* the documented spellings: a known first word in any case / blank / alias spelling, then language or attribute words; one
\* delimiter style throughout the sheet; with ':' only the jr: prefix can be written inside a word
InDomain(sheet, h, udc) ==
  /\ Known(sheet, SegSnake(h.segs[1]))
  /\ \A i \in 1..Len(h.segs) : h.segs[i].core # "jr" /\ (h.segs[i].pre # "" => ~h.segs[i].lp /\ ~h.segs[i].rp)
  /\ \/ (udc /\ AllDbl(h))
     \/ (~udc /\ AllSgl(h) /\ (\A i \in 1..Len(h.segs) : h.segs[i].pre \in {"", "jr"})
               /\ Cardinality({i \in 1..Len(h.segs) : h.segs[i].pre = "jr"}) <= 1)       \* (only the first jr: is re-joined)
Meaning(sheet, h) ==
  Canon(sheet, SegSnake(h.segs[1])) \o [i \in 1..(Len(h.segs) - 1) |-> SegText(h.segs[i + 1], TRUE, TRUE)]

\* grouping a row: cells are (path, value); a plain cell whose path is a proper prefix of another cell's path belongs to the
\* default language; an explicit default-language cell wins over it
IsPrefix(p, q) == Len(p) < Len(q) /\ SubSeq(q, 1, Len(p)) = p
GroupLeaves(cells) ==     \* cells: set of [p, v] with distinct p
  LET moved == {[p |-> (IF \E d \in cells : IsPrefix(c.p, d.p) THEN c.p \o <<DefaultKey>> ELSE c.p), v |-> c.v, was |-> c.p] : c \in cells}
  IN {[p |-> m.p, v |-> m.v] : m \in {x \in moved : ~(x.p # x.was /\ \E y \in moved : y.p = x.p /\ y.was = y.p)}}

=============================================================================
