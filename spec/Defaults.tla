------------------------------ MODULE Defaults ------------------------------
(***************************************************************************)
(* C10: which default texts are literals and which are expressions.        *)
(*                                                                         *)
(* A default cell is, abstractly, a sequence of lexical pieces.  Class     *)
(* is the ENVELOPE's three-way reading of the XLSForm rule ("a dynamic     *)
(* default is an expression: it contains a reference, a function call or   *)
(* an arithmetic operator; for date / geo types a hyphen is part of the    *)
(* value"):                                                                *)
(*   "dynamic" - the text can only be meant as an expression,              *)
(*   "static"  - the text can only be meant as a literal value,            *)
(*   "either"  - lexically ambiguous (a-1, 5-3, (x), x[1], a|b, operators  *)
(*               inside a quoted literal ...): the converter may go either *)
(*               way, but must do exactly one of the two.                  *)
(* The harness concretises every generated piece sequence, asks the real   *)
(* default_is_dynamic(), and TLC judges the answer (Trace_Defaults).       *)
(***************************************************************************)
EXTENDS Naturals, Sequences, FiniteSets, TLC

\* lexical pieces (the harness writes each as the text on the right)
Pieces == {
  "num",       \* 7
  "neg",       \* -3
  "dec",       \* 3.5
  "word",      \* hello
  "words",     \* Yes and no            (several words separated by blanks)
  "date",      \* 2020-01-31
  "time",      \* 12:30:00
  "geo",       \* 32.7 -117.1 14 5.01   (blank-separated numbers, some negative)
  "uri",       \* jr://images/x.png
  "ref",       \* ${q0}
  "func",      \* now()
  "call",      \* concat('a', 'b')
  "plus_sp",   \*  +                    (an operator between blanks)
  "minus_sp",  \*  -
  "star_sp",   \*  *
  "div_sp",    \*  div
  "mod_sp",    \*  mod
  "minus",     \* -                     (no blanks around it)
  "plus",      \* +
  "star",      \* *
  "pipe",      \* |
  "paren",     \* (x)
  "bracket",   \* [1]
  "brace",     \* {x}
  "lit",       \* 'a b'                 (a quoted literal)
  "lit_op",    \* 'q - r'               (a quoted literal containing a spaced operator)
  "comp",      \*  = / < / >            (a comparison character between blanks)
  "punct",     \* , : ; ! ? @ # % /     (other punctuation)
  "remark"     \*  (note 2)             (a parenthesised remark after a blank: several words, not an argument list)
}
Spaced == {"plus_sp", "minus_sp", "star_sp", "div_sp", "mod_sp"}
Tight == {"minus", "plus", "star", "pipe", "paren", "bracket", "brace"}
Operand == {"num", "neg", "dec", "word", "words", "date", "time", "geo", "uri", "ref", "func", "call", "paren", "bracket", "brace", "lit", "lit_op", "remark"}
Has(s, K) == \E i \in 1..Len(s) : s[i] \in K
\* a spaced operator only counts as one when it stands between two operands
SpacedOpAt(s, i) == s[i] \in Spaced /\ i > 1 /\ i < Len(s) /\ s[i - 1] \in Operand /\ s[i + 1] \in Operand
HasSpacedOp(s) == \E i \in 1..Len(s) : SpacedOpAt(s, i)
OnlyMinusSpaced(s) == \A i \in 1..Len(s) : SpacedOpAt(s, i) => s[i] = "minus_sp"
\* (a quoted literal without operators inside is just text in quotes)
PlainValue == {"num", "neg", "dec", "word", "words", "date", "time", "geo", "uri", "punct", "comp", "lit", "remark"}
\* a name immediately followed by a parenthesis is a function call
\* (a hyphen is a name character: name-(x) is a call too)
CallLike(s) == \E i \in 1..(Len(s) - 1) : s[i] \in {"word", "words", "uri"} /\ (s[i + 1] = "paren" \/ (i + 2 <= Len(s) /\ s[i + 1] = "minus" /\ s[i + 2] = "paren"))
\* digits, dots and hyphens only: a value of a date / coordinate type
NumericHyphen == {"num", "neg", "dec", "geo", "date", "minus", "minus_sp"}

\* hyphen: TRUE for the types whose literal values contain hyphens (date, dateTime, time, geopoint, geotrace, geoshape)
\* a hyphen glued to the front of a number, date or coordinate list is its sign
LeadingSign(s) == Len(s) >= 2 /\ s[1] = "minus" /\ s[2] \in {"num", "dec", "date", "geo"}
Unsigned(s) == IF LeadingSign(s) THEN <<(IF s[2] \in {"num", "dec"} THEN "neg" ELSE s[2])>> \o SubSeq(s, 3, Len(s)) ELSE s
Class0(s, hyphen) ==
  IF Has(s, {"ref", "func", "call"}) \/ CallLike(s) THEN "dynamic"
  ELSE IF HasSpacedOp(s) THEN
         (IF hyphen /\ OnlyMinusSpaced(s) THEN "either"
          ELSE IF Has(s, {"lit", "lit_op"}) THEN "either"
          ELSE "dynamic")
  ELSE IF hyphen /\ (\A i \in 1..Len(s) : s[i] \in NumericHyphen) THEN "static"
  ELSE IF Has(s, Tight \cup Spaced \cup {"lit_op"}) THEN "either"
  ELSE "static"           \* only plain values and punctuation are left
Class(s, hyphen) == IF Has(s, {"ref", "func", "call"}) \/ CallLike(s) THEN "dynamic" ELSE Class0(Unsigned(s), hyphen)
\* sequences a form author could plausibly mean: operators and comparison characters stand between operands, nothing is doubled
Connective == Spaced \cup {"minus", "plus", "star", "pipe", "comp"}
WellFormed(s) == /\ Len(s) >= 1 /\ s[1] \notin Connective \ {"minus"} /\ s[Len(s)] \notin Connective
                 /\ \A i \in 1..(Len(s) - 1) : ~(s[i] \in Connective /\ s[i + 1] \in Connective \cup {"punct"})
                 /\ \A i \in 1..(Len(s) - 1) : ~(s[i] = "punct" /\ s[i + 1] \in Connective)

(* ------------------------------------------------------------------ generator *)
CONSTANT MaxPieces
VARIABLES seq, hyphen, done
dvars == <<seq, hyphen, done>>
DInit == seq = <<>> /\ hyphen \in BOOLEAN /\ done = FALSE
Add(p) == ~done /\ Len(seq) < MaxPieces /\ seq' = Append(seq, p) /\ UNCHANGED <<hyphen, done>>
Finish == ~done /\ Len(seq) > 0 /\ done' = TRUE /\ UNCHANGED <<seq, hyphen>>
DNext == (\E p \in Pieces : Add(p)) \/ Finish
DSpec == DInit /\ [][DNext]_dvars

(* ------------------------------------------------------------------ design checks *)
\* a reference or a function call anywhere makes an expression, whatever surrounds it
RefMakesDynamic == (Has(seq, {"ref", "func", "call"}) \/ CallLike(seq)) => Class(seq, hyphen) = "dynamic"
\* plain values (numbers, words, dates, times, coordinates, URIs, punctuation, comparison characters) are never expressions
PlainIsStatic == (\A i \in 1..Len(seq) : seq[i] \in PlainValue) => Class(seq, hyphen) = "static"
\* the value type only matters for the hyphen
TypeOnlyMattersForMinus == (~Has(seq, {"minus_sp", "minus"})) => Class(seq, TRUE) = Class(seq, FALSE)
\* appending a reference never makes a text "more static"
Rank(c) == CASE c = "static" -> 0 [] c = "either" -> 1 [] c = "dynamic" -> 2
RefOnlyRaises == Len(seq) < MaxPieces => Rank(Class(Append(seq, "ref"), hyphen)) >= Rank(Class(seq, hyphen))
=============================================================================
