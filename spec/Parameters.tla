----------------------------- MODULE Parameters -----------------------------
(***************************************************************************)
(* The `parameters` cell (C05 parameter-derived bind attributes, C09       *)
(* randomize / seed / value / label, C17 malformed parameters).            *)
(*                                                                         *)
(* A cell is a sequence of key=value items joined by one separator style.  *)
(*   Meaning(cell)  - ENVELOPE: the documented reading: keys are           *)
(*                    case-insensitive, values are lower-cased except for  *)
(*                    `label` and `value` (names of columns of a           *)
(*                    user-supplied file), blanks around items do not      *)
(*                    matter, and blank / semicolon / comma separators are *)
(*                    interchangeable;                                     *)
(*   Parse(cell)    - TRANSCRIPTION of parameters_generic.parse for any    *)
(*                    cell, including mixed separators and blanks around   *)
(*                    the '=' sign.                                        *)
(***************************************************************************)
EXTENDS Naturals, Sequences, FiniteSets, TLC

\* an item: [k, kl, v, vl, eq]  k/v as written, kl/vl lower-cased, eq: the text between key and value ("=" or " = ")
Item(k, kl, v, vl, eq) == [k |-> k, kl |-> kl, v |-> v, vl |-> vl, eq |-> eq]
CaseKept == {"label", "value"}
Seps == {" ", ";", ",", "; ", ", ", "  "}
IsBlankSep(s) == s \in {" ", "  "}
ItemText(i) == i.k \o i.eq \o i.v
RECURSIVE Join(_, _, _)
Join(items, seps, n) == IF n = Len(items) THEN ItemText(items[n]) ELSE ItemText(items[n]) \o seps[n] \o Join(items, seps, n + 1)
CellText(c) == Join(c.items, c.seps, 1)

(* ---- envelope *)
ValueOf(i) == IF i.kl \in CaseKept THEN i.v ELSE i.vl
\* later items win over earlier ones with the same key
Meaning(c) == [key \in {c.items[n].kl : n \in 1..Len(c.items)} |->
                 ValueOf(c.items[CHOOSE n \in 1..Len(c.items) : c.items[n].kl = key /\ \A m \in 1..Len(c.items) : c.items[m].kl = key => m <= n])]
\* documented cells: one separator style; with a blank separator there are no blanks around '='
Uniform(c) == \A a, b \in 1..Len(c.seps) : c.seps[a] = c.seps[b]
InDomain(c) == /\ Uniform(c)
               /\ (Len(c.seps) > 0 /\ IsBlankSep(c.seps[1])) => \A n \in 1..Len(c.items) : c.items[n].eq = "="
               /\ (Len(c.seps) = 0) => \A n \in 1..Len(c.items) : c.items[n].eq = "="

(* ---- transcription: split on ';' if any, else on ',' if any, else on blanks; every part needs '='; first two '='-fields *)
HasSep(c, ch) == \E n \in 1..Len(c.seps) : (ch = ";" /\ c.seps[n] \in {";", "; "}) \/ (ch = "," /\ c.seps[n] \in {",", ", "})
\* the separator class the parser splits on
SplitOn(c) == IF HasSep(c, ";") THEN ";" ELSE IF HasSep(c, ",") THEN "," ELSE " "
Cuts(c) == {n \in 1..Len(c.seps) : CASE SplitOn(c) = ";" -> c.seps[n] \in {";", "; "}
                                       [] SplitOn(c) = "," -> c.seps[n] \in {",", ", "}
                                       [] OTHER -> TRUE}
\* with the blank splitter an item written "k = v" falls apart into "k", "=", "v": a part without '=' -> error
BlankSplitBreaks(c) == SplitOn(c) = " " /\ \E n \in 1..Len(c.items) : c.items[n].eq # "="
\* a part that still contains another separator (mixed styles) keeps it inside the value: k=v,k2=v2 split on ';' -> key k, value "v,k2" (third field dropped)
RunStart(c, n) == n = 1 \/ (n - 1) \in Cuts(c)
RunEnd(c, n) == CHOOSE e \in n..Len(c.items) : (e = Len(c.items) \/ e \in Cuts(c)) /\ \A e2 \in n..(e - 1) : e2 \notin Cuts(c)
PartValue(c, n) ==     \* value of the part starting at item n: up to the next '=' sign
  LET e == RunEnd(c, n) IN
  IF e = n THEN [v |-> c.items[n].v, vl |-> c.items[n].vl]
  ELSE [v |-> c.items[n].v \o c.seps[n] \o c.items[n + 1].k, vl |-> c.items[n].vl \o c.seps[n] \o c.items[n + 1].kl]
Strip(s) == s      \* (values and keys in this model carry no outer blanks of their own; blanks come from separators and eq)
Parse(c) ==
  IF BlankSplitBreaks(c) THEN [ok |-> FALSE, map |-> <<>>]
  ELSE LET starts == {n \in 1..Len(c.items) : RunStart(c, n)}
           keys == {c.items[n].kl : n \in starts}
           lastOf(key) == CHOOSE n \in starts : c.items[n].kl = key /\ \A m \in starts : c.items[m].kl = key => m <= n
       IN [ok |-> TRUE, map |-> [key \in keys |-> LET pv == PartValue(c, lastOf(key)) IN IF key \in CaseKept THEN pv.v ELSE pv.vl]]

(* ---- generator *)
CONSTANT MaxItems
Keys == {Item("seed", "seed", "42", "42", "="), Item("Randomize", "randomize", "TRUE", "true", "="), Item("randomize", "randomize", "true", "true", " = "),
         Item("label", "label", "My_Label", "my_label", "="), Item("VALUE", "value", "Code", "code", "="), Item("max-pixels", "max-pixels", "640", "640", "="),
         Item("Quality", "quality", "Voice-Only", "voice-only", "="), Item("seed", "seed", "7", "7", " = "), Item("start", "start", "1.5", "1.5", "=")}
VARIABLES cell, done
pvars == <<cell, done>>
PInit == cell = [items |-> <<>>, seps |-> <<>>] /\ done = FALSE
AddItem == /\ ~done /\ Len(cell.items) < MaxItems
           /\ \E i \in Keys : \E s \in Seps :
                 cell' = [items |-> Append(cell.items, i), seps |-> IF Len(cell.items) = 0 THEN <<>> ELSE Append(cell.seps, s)]
           /\ UNCHANGED done
Finish == ~done /\ Len(cell.items) > 0 /\ done' = TRUE /\ UNCHANGED cell
PNext == AddItem \/ Finish
PSpec == PInit /\ [][PNext]_pvars

(* ---- design checks *)
NonEmpty == Len(cell.items) > 0
TranscriptionMeetsEnvelope == (NonEmpty /\ InDomain(cell)) => (Parse(cell).ok /\ Parse(cell).map = Meaning(cell))
\* the separator styles are interchangeable on the documented domain
Restyle(c, s) == [c EXCEPT !.seps = [n \in 1..Len(c.seps) |-> s]]
SeparatorsAgree == (NonEmpty /\ \A n \in 1..Len(cell.items) : cell.items[n].eq = "=") =>
                     \A s \in Seps : Parse(Restyle(cell, s)).map = Parse(Restyle(cell, " ")).map
=============================================================================
