----------------------------- MODULE Gen_Itext -----------------------------
EXTENDS Itext, Json
RECURSIVE SetToSeq(_)
SetToSeq(S) == IF S = {} THEN <<>> ELSE LET x == CHOOSE y \in S : TRUE IN <<x>> \o SetToSeq(S \ {x})
Emit == PrintT(ToJson([dl |-> dl, refs |-> refs, cells |-> SetToSeq(Written), nchg |-> nchg]))
\* design-level sanity of the generator: every question keeps a label
QuestionsLabelled == \A i \in 1..Len(Pairs) : (Pairs[i][1] \in Questions /\ Pairs[i][2] = "label") => pat[i] # {}
=============================================================================
