------------------------------- MODULE Itext -------------------------------
(***************************************************************************)
(* Translations (C07, C08).                                                *)
(*                                                                         *)
(* Source side: a sparse matrix of cells (element, kind, language) over    *)
(* the survey and choices sheets; language "" is the unsuffixed column.    *)
(* `dl` is the form's default language ("" when no setting/argument: the   *)
(* unsuffixed columns then belong to the language literally called         *)
(* "default").                                                             *)
(*                                                                         *)
(* The generator part (Init/Change) enumerates matrices as a bounded       *)
(* number of departures from a base matrix in which every question, group  *)
(* and choice has exactly an unsuffixed label.  The envelope part states   *)
(* what any XForm produced from a matrix must satisfy; it is evaluated by  *)
(* Trace_Itext on the facts projected from the real output.                *)
(***************************************************************************)
EXTENDS Naturals, Sequences, FiniteSets, TLC

CONSTANTS MaxChanges, Core     \* Core: TRUE = only the core (element, kind) pairs may change (quick tier)

Langs == {"", "A", "B"}
TextKinds == {"label", "hint", "guidance", "cmsg", "rmsg", "noapp"}
MediaKinds == {"image", "audio"}
QKinds == <<"label", "hint", "guidance", "cmsg", "rmsg", "image", "audio">>
\* (element, kind) pairs in a fixed order; a case changes them in increasing order only (no permutations)
Pairs == <<
  <<"q1", "label">>, <<"q1", "hint">>, <<"q1", "guidance">>, <<"q1", "cmsg">>, <<"q1", "image">>,
  <<"g", "label">>, <<"s1", "label">>, <<"L.1", "label">>, <<"L.1", "image">>, <<"L.2", "label">>, <<"M.1", "label">>, <<"s3", "label">>,
  <<"q1", "noapp">>, <<"U.1", "label">>, <<"g", "image">>, <<"q1", "rmsg">>,     \* U: a list on the choices sheet that no select reads
  <<"c1", "cmsg">>,                                                               \* c1: a calculate row (no control in the body) with bind messages
  <<"M.2", "label">>,                                                             \* a second choice of the list the search() select s3 shows in line
  \* ---- the rest only when ~Core
  <<"q1", "audio">>, <<"g", "audio">>, <<"c1", "rmsg">>, <<"c1", "noapp">>,
  <<"q2", "label">>, <<"q2", "hint">>, <<"q2", "guidance">>, <<"q2", "cmsg">>, <<"q2", "rmsg">>, <<"q2", "image">>, <<"q2", "audio">>,
  <<"s1", "hint">>, <<"s2", "label">>, <<"s2", "hint">>, <<"s3", "hint">>,
  <<"L.1", "audio">>, <<"L.2", "image">>, <<"L.2", "audio">>, <<"M.1", "image">>, <<"M.1", "audio">> >>
NCore == 18
NPairs == IF Core THEN NCore ELSE Len(Pairs)
Questions == {"q1", "q2", "s1", "s2", "s3"}   \* (s4, a randomized select on list L, always carries an unsuffixed label)
BasePat(p) == IF p[2] = "label" THEN {""} ELSE {}
Patterns == SUBSET Langs

VARIABLES pat,     \* function 1..Len(Pairs) -> pattern (set of languages in which the cell is written)
          dl,      \* default language: "" (unset) | "A" | "B" | "Z" (a language no column mentions)
          refs,    \* TRUE: every text cell also embeds a ${reference} (messages with references must go through itext)
          nchg, last
ivars == <<pat, dl, refs, nchg, last>>

IInit == /\ pat = [i \in 1..Len(Pairs) |-> BasePat(Pairs[i])]
         /\ dl \in {"", "A", "B", "Z"}
         /\ refs \in BOOLEAN
         /\ nchg = 0 /\ last = 0
\* a question must keep a label in some language (otherwise the form is rejected for a different reason)
Change(i, P) ==
  /\ nchg < MaxChanges /\ i > last /\ i <= NPairs
  /\ P # pat[i]
  /\ (Pairs[i][1] \in Questions /\ Pairs[i][2] = "label") => P # {}
  /\ pat' = [pat EXCEPT ![i] = P] /\ nchg' = nchg + 1 /\ last' = i /\ UNCHANGED <<dl, refs>>
INext == \E i \in 1..Len(Pairs), P \in Patterns : Change(i, P)
ISpec == IInit /\ [][INext]_ivars

Cells == {<<Pairs[i][1], Pairs[i][2], L>> : i \in 1..Len(Pairs), L \in Langs} 
Written == {c \in Cells : \E i \in 1..Len(Pairs) : Pairs[i][1] = c[1] /\ Pairs[i][2] = c[2] /\ c[3] \in pat[i]}

(* ------------------------------------------------------------------ the envelope *)
\* src: [dl, cells: << <<e, k, L, text>> >>]   (text unique per cell; media text = file name)
\* The language the unsuffixed column belongs to
DefLang(src) == IF src.dl = "" THEN "default" ELSE src.dl
CellText(src, e, k, L) == LET S == {i \in 1..Len(src.cells) : src.cells[i][1] = e /\ src.cells[i][2] = k /\ src.cells[i][3] = L}
                          IN IF S = {} THEN {} ELSE {src.cells[CHOOSE i \in S : TRUE][4]}
MediaURI(k, f) == (IF k = "audio" THEN "jr://audio/" ELSE IF k = "video" THEN "jr://video/" ELSE "jr://images/") \o f
Shown(k, t) == IF k \in MediaKinds THEN MediaURI(k, t) ELSE t
Placeholder(k) == IF k \in MediaKinds THEN "" ELSE "-"
\* what a user of language L may be shown for (e, k) when the output resolves it through itext
ExpectedSet(src, e, k, L) ==
  LET direct == CellText(src, e, k, L)
      uns    == IF L = DefLang(src) THEN CellText(src, e, k, "") ELSE {}
      both   == direct \cup uns
  IN IF both = {} THEN {Placeholder(k)} ELSE {Shown(k, t) : t \in both}
HasSuffixed(src, e, k) == \E i \in 1..Len(src.cells) : src.cells[i][1] = e /\ src.cells[i][2] = k /\ src.cells[i][3] # ""
HasAny(src, e, k) == \E i \in 1..Len(src.cells) : src.cells[i][1] = e /\ src.cells[i][2] = k

\* eff: [e, k, mode, vals]; mode "itext": vals = << <<lang, text>> >> one per observed language ("" = that form absent);
\*      mode "inline": vals = << <<"", text>> >>;  mode "none": nothing shown
EffOK(src, x) ==
  CASE x.mode = "itext"  -> \A j \in 1..Len(x.vals) : x.vals[j][2] \in ExpectedSet(src, x.e, x.k, x.vals[j][1])
    [] x.mode = "inline" -> /\ ~HasSuffixed(src, x.e, x.k)
                            /\ Len(x.vals) = 1 /\ {x.vals[1][2]} = {Shown(x.k, t) : t \in CellText(src, x.e, x.k, "")}
    [] x.mode = "none"   -> ~HasAny(src, x.e, x.k)
    [] OTHER -> FALSE

\* languages: exactly those a suffixed column with a written cell names, plus the default language when an
\* unsuffixed cell is shown through itext
LangsExpected(src, eff) ==
  {src.cells[i][3] : i \in {j \in 1..Len(src.cells) : src.cells[j][3] # ""}}
  \cup (IF \E j \in 1..Len(eff) : eff[j].mode = "itext" /\ CellText(src, eff[j].e, eff[j].k, "") # {} THEN {DefLang(src)} ELSE {})

SeqToSet(s) == {s[i] : i \in 1..Len(s)}
NoDupSeq(s) == \A i, j \in 1..Len(s) : i # j => s[i] # s[j]
=============================================================================
