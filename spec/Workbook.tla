------------------------------ MODULE Workbook ------------------------------
(***************************************************************************)
(* C12: the spreadsheet readers as machines.                               *)
(*  (1) the empty-run counter machines of get_excel_rows /                 *)
(*      get_excel_column_headers + trim_trailing_empty (transcription),    *)
(*      with the limits as constants; NoTruncation is the property.        *)
(*  (2) the canonical text of a typed cell.                                *)
(*  (3) the matrix of container formats x delivery channels x file_type.   *)
(***************************************************************************)
EXTENDS Naturals, Sequences, FiniteSets, TLC
CONSTANTS MaxEmpty,        \* 60 for rows, 20 for columns (small in the exhaustive configuration)
          MaxLen           \* length of the emptiness patterns explored exhaustively

(* ------------------------------------------------------------------ (1) the scan machine *)
\* A sheet dimension is a sequence of BOOLEAN: TRUE = the row (column header) holds data.
VARIABLES sheet, i, adj, kept, stopped
mvars == <<sheet, i, adj, kept, stopped>>
Patterns == UNION {[1..n -> BOOLEAN] : n \in 0..MaxLen}
MInit == sheet \in Patterns /\ i = 1 /\ adj = 0 /\ kept = <<>> /\ stopped = FALSE
\* one loop iteration of get_excel_rows: an empty entry is appended unless the run is already MaxEmpty long
Scan ==
  /\ ~stopped /\ i <= Len(sheet)
  /\ IF sheet[i]
       THEN adj' = 0 /\ kept' = Append(kept, i) /\ stopped' = FALSE
       ELSE IF adj = MaxEmpty THEN stopped' = TRUE /\ UNCHANGED <<adj, kept>>            \* break
            ELSE adj' = adj + 1 /\ kept' = Append(kept, i) /\ stopped' = FALSE
  /\ i' = i + 1 /\ UNCHANGED sheet
Finished == stopped \/ i > Len(sheet)
\* trim_trailing_empty(result, adjacent_empty)
Result == SubSeq(kept, 1, Len(kept) - adj)
MNext == Scan
MSpec == MInit /\ [][MNext]_mvars
\* the same computed in one go (used by the trace specification on real-size sheets)
RECURSIVE ScanAll(_, _, _, _)
ScanAll(s, k, a, acc) == IF k > Len(s) THEN SubSeq(acc, 1, Len(acc) - a)
                         ELSE IF s[k] THEN ScanAll(s, k + 1, 0, Append(acc, k))
                         ELSE IF a = MaxEmpty THEN SubSeq(acc, 1, Len(acc) - a)
                         ELSE ScanAll(s, k + 1, a + 1, Append(acc, k))
KeptRows(s) == ScanAll(s, 1, 0, <<>>)
DataIdx(s) == {k \in 1..Len(s) : s[k]}
LastData(s) == IF DataIdx(s) = {} THEN 0 ELSE CHOOSE k \in DataIdx(s) : \A m \in DataIdx(s) : m <= k
\* longest run of empty entries that is followed by data (trailing empties are not "inside the data")
RunBefore(s, k) == k - 1 - (IF {m \in DataIdx(s) : m < k} = {} THEN 0 ELSE CHOOSE m \in DataIdx(s) : m < k /\ \A n \in DataIdx(s) : n < k => n <= m)
MaxInnerRun(s) == IF DataIdx(s) = {} THEN 0 ELSE CHOOSE r \in {RunBefore(s, k) : k \in DataIdx(s)} : \A q \in {RunBefore(s, k) : k \in DataIdx(s)} : q <= r
\* the property: runs of up to MaxEmpty empties inside the data and any trailing empties never truncate;
\* every position up to the last data entry is kept (so row numbers stay accurate), nothing after it
NoTruncation == Finished => (MaxInnerRun(sheet) <= MaxEmpty => Result = [k \in 1..LastData(sheet) |-> k])
\* and what is kept is always a prefix of the sheet's positions (never reordered, never invented)
KeptIsPrefix == \A k \in 1..Len(kept) : kept[k] = k
ScanAllAgrees == Finished => Result = KeptRows(sheet)

(* ------------------------------------------------------------------ (2) canonical text of typed cells *)
\* cell: [t |-> "int", n] | [t |-> "intfloat", n] | [t |-> "decimal", s (shortest decimal text)] | [t |-> "bool", b]
\*       | [t |-> "text", s (core text), pad (kind of surrounding whitespace)]
Canon(c) == CASE c.t = "int" -> ToString(c.n)
              [] c.t = "intfloat" -> ToString(c.n)
              [] c.t = "decimal" -> c.s
              [] c.t = "bool" -> IF c.b THEN "TRUE" ELSE "FALSE"
              [] OTHER -> c.s

(* ------------------------------------------------------------------ (3) delivery matrix *)
\* "dict_rows": the dict given as rows only (no <sheet>_header keys): the columns are then the keys of the rows, in order of first
\* appearance - the content is the same but the column ORDER of sparse sheets is not part of it
\* "csv_ragged": the CSV written without the trailing empty cells of each row (rows shorter than the header row)
Formats == {"md", "csv", "csv_ragged", "xls", "xlsx", "xlsm", "dict", "dict_rows"}
\* "bytesio_end": a stream the caller has just written (position at the end);  "bytesio_twice": a stream already converted once
\* "path_stem": a path whose stem is not "data" (the stem supplies the default form id);  "path_stem_odd": the same stem under a suffix
\* that is not one of the lower-case supported ones (census.XLSX), the format given by file_type.  The two are compared with each other.
Deliveries == {"path", "bytes", "bytesio", "bytesio_end", "bytesio_twice", "file", "str", "path_stem", "path_stem_odd"}
\* which combinations exist: text formats can be passed as str; binary ones cannot; a dict is only itself
ValidDelivery(f, d) == CASE f \in {"dict", "dict_rows"} -> d = "str"      \* placeholder delivery for the dict itself
                         [] f \in {"md", "csv", "csv_ragged"} -> TRUE
                         [] OTHER -> d # "str"
\* file_type may be given explicitly for in-memory data (a path carries its suffix)
ValidFT(f, d, ft) == IF f \in {"dict", "dict_rows"} THEN ~ft ELSE (d = "path_stem_odd" => ft)
Matrix == {<<f, d, ft>> \in Formats \X Deliveries \X BOOLEAN : ValidDelivery(f, d) /\ ValidFT(f, d, ft)}
SeqToSet(s) == {s[k] : k \in 1..Len(s)}
=============================================================================
