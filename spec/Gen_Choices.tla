---------------------------- MODULE Gen_Choices ----------------------------
EXTENDS Choices, Json
Emit == (phase = "done") => PrintT(ToJson([cfg |-> cfg, sels |-> sels]))
\* design-level: search and plain use of M never meet in one generated configuration
SearchExclusive == ~(UsesSearch(sels) /\ UsesMPlain(sels))
=============================================================================
