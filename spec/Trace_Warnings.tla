--------------------------- MODULE Trace_Warnings --------------------------
EXTENDS Warnings, Json, IOUtils
VARIABLES tid, l
Traces == JsonDeserialize(IOEnv.TRACE_FILE)
T == Traces[tid]
Ev == T[l]
Check(name, cond) == IF cond THEN TRUE ELSE (PrintT(<<"AT", tid, l, name>>) /\ FALSE)
Pairs(s) == {<<s[i][1], s[i][2]>> : i \in 1..Len(s)}
Triples(s) == {<<s[i][1], s[i][2], s[i][3]>> : i \in 1..Len(s)}
Kinds(s) == {s[i][1] : i \in 1..Len(s)}
\* (a)
SH == Pairs(Ev.src.sh)
CH == Pairs(Ev.src.ch)
ExpMissing == {<<"survey", m[1], m[2]>> : m \in Missing(SH)} \cup {<<"choices", m[1], m[2]>> : m \in Missing(CH)}
ExpTransWarn == (IF Ev.src.other /\ (Translated(SH) \/ Translated(CH)) THEN {<<"or_other", 0>>} ELSE {})
                \cup (IF "label" \notin ColsOf(CH) THEN {<<"choice_nolabel", 2>>, <<"choice_nolabel", 3>>} ELSE {})
TransEnv ==
  /\ Check("converted", Ev.status = "ok")
  /\ Check("missing_translations_exactly", Triples(Ev.obs.missing) = ExpMissing)
  /\ Check("missing_reported_once", Len(Ev.obs.missing) = Cardinality(ExpMissing))
  /\ Check("other_warnings_exactly", Pairs(Ev.obs.warn) = ExpTransWarn)
  /\ Check("advisory_only", Ev.obs.same_xform)
\* (d)
RowsEnv ==
  /\ Check("converted", Ev.status = "ok")
  /\ Check("row_warnings_exactly", Pairs(Ev.obs.warn) = ExpWarnings(SeqToSet(Ev.src.trig), Ev.src.blanks))
  /\ Check("each_warning_once", Len(Ev.obs.warn) = Cardinality(ExpWarnings(SeqToSet(Ev.src.trig), Ev.src.blanks)))
  /\ Check("no_missing_translation_noise", Len(Ev.obs.missing) = 0)
  /\ Check("advisory_only", Ev.obs.same_xform)
\* (b): the similar-name notice appears (as a warning, or inside the error for a required sheet) iff expected
NameEnv ==
  /\ Check("no_crash", Ev.status \in {"ok", "pyxform_error"})
  /\ Check("similar_sheet_reported_iff_within_distance_2",
           Ev.obs.similar <=> SimilarExpected(Ev.src.lname, Ev.src.target, Ev.src.supported, Ev.src.underscore))
  /\ Check("reported_name_is_the_sheet", Ev.obs.similar => Ev.obs.names_it)
\* (c)
IanaEnv ==
  /\ Check("converted", Ev.status = "ok")
  /\ Check("bad_language_codes_exactly",
           SeqToSet(Ev.obs.bad) = {Ev.src.langs[i].name : i \in {j \in 1..Len(Ev.src.langs) :
               Ev.src.langs[j].name # "default" /\ Ev.src.langs[j].len >= 3 /\ ~(Ev.src.langs[j].has_code /\ Ev.src.langs[j].code_valid)}})
TInit == tid \in 1..Len(Traces) /\ l = 1 /\ sh = {} /\ ch = {} /\ other = FALSE /\ trig = {} /\ blanks = 0 /\ done = TRUE
TStep == /\ l <= Len(T)
         /\ CASE Ev.ev = "trans" -> TransEnv
              [] Ev.ev = "rows" -> RowsEnv
              [] Ev.ev = "sheetname" -> NameEnv
              [] Ev.ev = "iana" -> IanaEnv
              [] OTHER -> FALSE
         /\ l' = l + 1 /\ UNCHANGED <<tid, wvars>>
TSpec == TInit /\ [][TStep]_<<wvars, tid, l>>
Accepted == (l = Len(T) + 1) => PrintT(<<"ACCEPT", tid>>)
=============================================================================
