---------------------------- MODULE Gen_Settings ---------------------------
EXTENDS Settings, Json
RECURSIVE SetToSeq(_)
SetToSeq(S) == IF S = {} THEN <<>> ELSE LET x == CHOOSE y \in S : TRUE IN <<x>> \o SetToSeq(S \ {x})
Emit == CaseOK => PrintT(ToJson([present |-> SetToSeq(Present), chan |-> chan, fname |-> fname, ent |-> ent]))
=============================================================================
