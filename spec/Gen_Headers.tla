---------------------------- MODULE Gen_Headers ----------------------------
(* Generator of single headers (one state per header under construction) with the design checks of Headers.tla,   *)
(* and emission of every finished header for the conformance run.                                                 *)
EXTENDS Headers, Json
(* ------------------------------------------------------------------ generator *)
CONSTANTS Wide, MaxSegs
Sheets == {"survey", "choices", "settings"}
FirstWords(sheet) ==
  CASE sheet = "survey" -> {"label", "hint", "guidance_hint", "constraint_message", "required_message", "relevant", "relevance", "read_only",
                            "calculation", "caption", "image", "media", "bind", "body", "control", "instance", "repeat_count", "choice_filter",
                            "mycol", "jr", "count", "default", "trigger"}
    [] sheet = "choices" -> {"label", "caption", "list_name", "value", "name", "image", "media", "mycol"}
    [] sheet = "settings" -> {"form_title", "title", "form_id", "id_string", "set_form_id", "prefix", "attribute", "namespaces", "mycol", "version"}
Pads == IF Wide THEN {<<FALSE, FALSE>>, <<TRUE, TRUE>>, <<TRUE, FALSE>>, <<FALSE, TRUE>>} ELSE {<<FALSE, FALSE>>, <<TRUE, TRUE>>}
FirstSegs(sheet) == {Seg("", sp.core, sp.snake, pd[1], pd[2]) : sp \in UNION {Spell[w] : w \in FirstWords(sheet)}, pd \in Pads}
                    \cup (IF sheet = "survey" THEN {Seg("jr", "count", "count", FALSE, FALSE)} ELSE {})
LaterSegs ==
  {Seg("", "English (en)", "english_(en)", FALSE, FALSE), Seg("", "fr", "fr", TRUE, TRUE), Seg("", "relevant", "relevant", FALSE, FALSE),
   Seg("", "Image", "image", FALSE, FALSE), Seg("jr", "constraintMsg", "constraintmsg", FALSE, FALSE), Seg("odk", "length", "length", FALSE, FALSE),
   Seg("", "jr", "jr", FALSE, FALSE), Seg("", "foo bar", "foo_bar", FALSE, TRUE)}
Seps == Dbl \cup Sgl

VARIABLES sheet, h, udc, done
hvars == <<sheet, h, udc, done>>
HInit == /\ sheet \in Sheets /\ udc \in BOOLEAN /\ done = FALSE
         /\ \E g \in FirstSegs(sheet) : h = [segs |-> <<g>>, seps |-> <<>>]
AddSeg == /\ ~done /\ Len(h.segs) < MaxSegs
          /\ \E g \in LaterSegs, s \in Seps : h' = [segs |-> Append(h.segs, g), seps |-> Append(h.seps, s)]
          /\ UNCHANGED <<sheet, udc, done>>
Finish == ~done /\ done' = TRUE /\ UNCHANGED <<sheet, h, udc>>
HNext == AddSeg \/ Finish
HSpec == HInit /\ [][HNext]_hvars
\* the sheet's flag is at least what this header implies
Consistent == HasDbl(h) => udc

(* ------------------------------------------------------------------ design checks (TLC) *)
\* on its domain the transcription computes the envelope
TranscriptionMeetsEnvelope == (Consistent /\ InDomain(sheet, h, udc)) => ProcessHeader(sheet, h, udc).tokens = Meaning(sheet, h)
\* first-word spelling (case, blanks) never matters for a known first word
RestyledFirst(g) == {Seg(g.pre, sp.core, sp.snake, pd[1], pd[2]) : sp \in {x \in UNION {Spell[w] : w \in DOMAIN Spell} : x.snake = g.snake}, pd \in Pads}
\* (in a "::" sheet a ':' does not end the first token: "label:fr" is then one unknown word)
FirstWordIsFirstToken == udc => (Len(h.seps) = 0 \/ h.seps[1] \in Dbl)
SpellingInvariant ==
  (Consistent /\ Known(sheet, SegSnake(h.segs[1])) /\ h.segs[1].pre = "" /\ FirstWordIsFirstToken) =>
     \A g2 \in RestyledFirst(h.segs[1]) :
        ProcessHeader(sheet, [h EXCEPT !.segs[1] = g2], udc).tokens = ProcessHeader(sheet, h, udc).tokens
\* the two delimiter styles are interchangeable exactly when no word carries a prefix other than jr:
Restyle(hh, dbl) == [hh EXCEPT !.seps = [i \in 1..Len(hh.seps) |-> IF dbl THEN "::" ELSE ":"]]
DelimiterStylesAgree ==
  (Known(sheet, SegSnake(h.segs[1])) /\ (\A i \in 1..Len(h.segs) : h.segs[i].core # "jr" /\ h.segs[i].pre \in {"", "jr"})
     /\ Cardinality({i \in 1..Len(h.segs) : h.segs[i].pre = "jr"}) <= 1) =>
     ProcessHeader(sheet, Restyle(h, TRUE), TRUE).tokens = ProcessHeader(sheet, Restyle(h, FALSE), FALSE).tokens
\* unknown columns keep their text (choice_filter expressions refer to them by name)
UnknownKept == (Consistent /\ Len(h.segs) = 1 /\ h.segs[1].pre = "" /\ ~Known(sheet, h.segs[1].snake)) =>
                 ProcessHeader(sheet, h, udc).tokens = <<h.segs[1].core>>

Emit == done => PrintT(ToJson([sheet |-> sheet, h |-> h, udc |-> udc]))
=============================================================================
