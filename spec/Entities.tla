----------------------------- MODULE Entities ------------------------------
(***************************************************************************)
(* C19: the create/update decision table of entity declarations, save_to   *)
(* placement and name validation.  Transcribed from the ODK entities        *)
(* specification table (entity_id / create_if / update_if) and the property *)
(* statement -- not from the branch structure of the implementation.        *)
(*                                                                         *)
(* A case: presence of (entity_id, create_if, update_if, label), whether    *)
(* expressions contain a reference, the dataset-name class, the number of   *)
(* entity rows, an unknown column, and save_to cells: a set of              *)
(* (site, property-name class) with site in                                 *)
(*   "top" (question at top level), "group" (question in a group),          *)
(*   "repeat" (question in a repeat), "grouprow" (on a begin-group row),    *)
(*   "group_in_repeat" (question in a group that is inside a repeat),       *)
(*   "after_inner_repeat" (in a repeat, after a nested repeat has closed).  *)
(* `nsset`: the settings sheet also declares custom namespaces.             *)
(***************************************************************************)
EXTENDS Naturals, Sequences, FiniteSets, TLC

Sites == {"top", "group", "repeat", "grouprow", "group_in_repeat", "after_inner_repeat"}    \* (in the outer repeat, after a nested repeat has closed)
\* property-name classes; the reserved prefix is reserved at the START of a name only
ValidNames == {"valid", "inner_dunder", "trailing_dunder", "underscore_first"}
NameClasses == ValidNames \cup {"name", "Label", "reserved_prefix", "digit_first", "space"}
\* an unknown entities column: any header outside the documented five - including names that are fields of other sheets
ExtraCols == {"wat", "name", "Type", "parameters", "parent", "extra_data"}
DatasetClasses == {"valid", "reserved_prefix", "period", "digit_first", "space"}

VARIABLES c, phase
evars == <<c, phase>>
Base == [id |-> FALSE, cr |-> FALSE, up |-> FALSE, lab |-> TRUE, refs |-> FALSE, dataset |-> "valid", nrows |-> 1,
         extracol |-> "none", sheet |-> TRUE, saveto |-> {}, nsset |-> FALSE]
\* every one of the 16 presence combinations x expression shape x every set of save_to sites (valid names);
\* then single departures: a bad dataset name, a bad property name at one site, two entity rows, an unknown column,
\* save_to without an entities sheet
EInit == /\ phase = "pick"
         /\ \E id, cr, up, lab, refs, ns \in BOOLEAN : \E S \in SUBSET Sites :
               c = [Base EXCEPT !.id = id, !.cr = cr, !.up = up, !.lab = lab, !.refs = refs, !.nsset = ns,
                                !.saveto = {<<s, "valid">> : s \in S}]
Depart ==
  /\ phase = "pick" /\ phase' = "done"
  /\ \/ \E d \in DatasetClasses \ {"valid"} : c' = [c EXCEPT !.dataset = d]
     \/ \E s \in {"top", "group"}, n \in NameClasses \ {"valid"} : c' = [c EXCEPT !.saveto = (c.saveto \ {<<s, "valid">>}) \cup {<<s, n>>}]
     \/ c' = [c EXCEPT !.nrows = 2]
     \/ c' = [c EXCEPT !.nrows = 3]          \* (3: two rows, the second without a dataset name but otherwise filled)
     \/ \E e \in ExtraCols : c' = [c EXCEPT !.extracol = e]
     \/ (c.saveto # {} /\ c' = [c EXCEPT !.sheet = FALSE])
Keep == phase = "pick" /\ phase' = "done" /\ UNCHANGED c
ENext == Depart \/ Keep
ESpec == EInit /\ [][ENext]_evars

(* ------------------------------------------------------------------ decision table *)
TableReject(x) == \/ (x.up /\ ~x.id)            \* 0 0 1 and 0 1 1: need an id to update
                  \/ (x.id /\ x.cr /\ ~x.up)    \* 1 1 0: id only acceptable when updating
                  \/ (~x.id /\ ~x.lab)          \* creating needs a label
SaveToReject(x) == \/ \E s \in x.saveto : s[1] \in {"repeat", "grouprow", "group_in_repeat", "after_inner_repeat"} \/ s[2] \notin ValidNames
                   \/ (~x.sheet /\ x.saveto # {})
Rejected(x) == IF ~x.sheet THEN x.saveto # {}
               ELSE TableReject(x) \/ SaveToReject(x) \/ x.dataset # "valid" \/ x.nrows > 1 \/ x.extracol # "none"
Declares(x) == x.sheet /\ ~Rejected(x)
Creates(x) == x.cr \/ ~x.id       \* valid rows only: 000 / 010 create, 111 creates and updates
Updates(x) == x.id
ExpAttrs(x) == {"dataset", "id"} \cup (IF Creates(x) THEN {"create"} ELSE {})
               \cup (IF Updates(x) THEN {"update", "baseVersion", "trunkVersion", "branchId"} ELSE {})
\* binds below meta/entity: suffix -> what is calculated ("" = no calculate)
ExpBindSuffixes(x) == {"/@id"} \cup (IF x.cr THEN {"/@create"} ELSE {}) \cup (IF x.up THEN {"/@update"} ELSE {})
                      \cup (IF Updates(x) THEN {"/@baseVersion", "/@trunkVersion", "/@branchId"} ELSE {})
                      \cup (IF x.lab THEN {"/label"} ELSE {})
\* design-level sanity: exactly the 5 documented rows of the 8 are accepted (label permitting), and an accepted
\* declaration always creates or updates
TableRows == [id : BOOLEAN, cr : BOOLEAN, up : BOOLEAN]
AcceptedRows == {r \in TableRows : ~TableReject([id |-> r.id, cr |-> r.cr, up |-> r.up, lab |-> TRUE])}
FiveRowsAccepted == Cardinality(AcceptedRows) = 5
ASSUME FiveRowsAccepted
AlwaysAnAction == Declares(c) => (Creates(c) \/ Updates(c))
SeqToSet(s) == {s[i] : i \in 1..Len(s)}
=============================================================================
