---------------------------- MODULE SurveyObject ----------------------------
(***************************************************************************)
(* C02 on a long-lived Survey object: the tree may be changed through the  *)
(* public builder API between renders.  Whatever the history, a render of  *)
(* a tree in which two siblings share a name must be refused, and a render *)
(* of an unambiguous tree must succeed with closure (one instance node,    *)
(* one bind, one control per question).                                    *)
(* State: the multiset of question names under the root and under one      *)
(* group.  Operations: AddRoot(n), AddGroup(n), Render, and Mark: the      *)
(* caller gives the base question q0 a logic attribute through its bind    *)
(* (C05: that attribute belongs to q0's bind and to no other element's).   *)
(* `inspect`: the caller looks at each new element (its xpath) BEFORE      *)
(* attaching it - an observation that must not change any later render.    *)
(***************************************************************************)
(* AddRef(n) (C03): the caller adds a calculation that refers to ${n}.  At *)
(* every render each referenced name must name exactly one element of the  *)
(* tree as it is THEN (not as it was at the first render): otherwise the   *)
(* render is refused; when it succeeds the reference is the path of the    *)
(* element that carries the name now.                                      *)
EXTENDS Naturals, Sequences, FiniteSets, TLC
CONSTANTS Names, MaxOps, WithRefs, WithMove
(* Move: the caller takes the group out of the root and attaches it below a *)
(* new root-level group "h" (re-parenting through remove / add_child): the *)
(* paths of everything in it change; every later render shows the new ones.*)
(* AddRepeat: the caller attaches a new repeat rp<k> holding a question and *)
(* a calculation that refers to it; at every later render that reference   *)
(* is relative (the repeat encloses both), as in a form built in one go.   *)
VARIABLES root, grp, hist, last, inspect, marked, refs, moved, nrep
svars == <<root, grp, hist, last, inspect, marked, refs, moved, nrep>>
SOInit == root = <<"q0">> /\ grp = <<"g0">> /\ hist = <<>> /\ last = "none" /\ inspect \in BOOLEAN /\ marked = FALSE /\ refs = <<>> /\ moved = FALSE /\ nrep = 0
Dup(s) == \E i, j \in 1..Len(s) : i # j /\ s[i] = s[j]
\* the group itself is a child of the root named "grp"
Ambiguous == Dup(root \o <<"grp">>) \/ Dup(grp)
AddRoot(n) == Len(hist) < MaxOps /\ root' = Append(root, n) /\ hist' = Append(hist, <<"add_root", n>>) /\ UNCHANGED <<grp, last, inspect, marked, refs, moved, nrep>>
AddGroup(n) == Len(hist) < MaxOps /\ grp' = Append(grp, n) /\ hist' = Append(hist, <<"add_group", n>>) /\ UNCHANGED <<root, last, inspect, marked, refs, moved, nrep>>
Mark == Len(hist) < MaxOps /\ ~marked /\ marked' = TRUE /\ hist' = Append(hist, <<"mark", "q0">>) /\ UNCHANGED <<root, grp, last, inspect, refs, moved, nrep>>
\* how many elements of the whole tree carry the name n (references are by bare name, whatever the section)
Count(n) == Cardinality({i \in 1..Len(root) : root[i] = n}) + Cardinality({i \in 1..Len(grp) : grp[i] = n})
RefBroken == \E i \in 1..Len(refs) : Count(refs[i]) # 1
GroupPath == IF moved THEN <<"h", "grp">> ELSE <<"grp">>
TargetPath(n) == IF \E i \in 1..Len(root) : root[i] = n THEN <<n>> ELSE Append(GroupPath, n)
Move == WithMove /\ Len(hist) < MaxOps /\ ~moved /\ moved' = TRUE /\ hist' = Append(hist, <<"move", "grp">>) /\ UNCHANGED <<root, grp, last, inspect, marked, refs, nrep>>
AddRef(n) == WithRefs /\ Len(hist) < MaxOps /\ Len(refs) < 2 /\ refs' = Append(refs, n) /\ hist' = Append(hist, <<"add_ref", n>>) /\ UNCHANGED <<root, grp, last, inspect, marked, moved, nrep>>
Render == Len(hist) < MaxOps /\ last' = (IF Ambiguous \/ RefBroken THEN "rejected" ELSE "ok") /\ hist' = Append(hist, <<"render", last'>>) /\ UNCHANGED <<root, grp, inspect, marked, refs, moved, nrep>>
AddRepeat == WithRefs /\ Len(hist) < MaxOps /\ nrep < 2 /\ nrep' = nrep + 1 /\ hist' = Append(hist, <<"add_repeat", "rp">>) /\ UNCHANGED <<root, grp, last, inspect, marked, refs, moved>>
SONext == AddRepeat \/ (\E n \in Names : AddRoot(n) \/ AddGroup(n) \/ AddRef(n)) \/ Mark \/ Move \/ Render
SOSpec == SOInit /\ [][SONext]_svars
\* an accepted render implies an unambiguous tree at that moment (the history does not matter)
AcceptedMeansUnambiguous == (Len(hist) > 0 /\ hist[Len(hist)][1] = "render" /\ hist[Len(hist)][2] = "ok") => ~Ambiguous
AcceptedMeansReferencesResolve == (Len(hist) > 0 /\ hist[Len(hist)][1] = "render" /\ hist[Len(hist)][2] = "ok") => ~RefBroken
\* the elements whose bind carries the attribute given by Mark: the base question alone
\* where the elements of the group are at a render
GroupChildPaths == {Append(GroupPath, grp[i]) : i \in 1..Len(grp)}
MarkedPaths == IF marked THEN {<<"q0">>} ELSE {}
=============================================================================
