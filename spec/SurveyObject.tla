---------------------------- MODULE SurveyObject ----------------------------
(***************************************************************************)
(* C02 on a long-lived Survey object: the tree may be changed through the  *)
(* public builder API between renders.  Whatever the history, a render of  *)
(* a tree in which two siblings share a name must be refused, and a render *)
(* of an unambiguous tree must succeed with closure (one instance node,    *)
(* one bind, one control per question).                                    *)
(* State: the multiset of question names under the root and under one      *)
(* group.  Operations: AddRoot(n), AddGroup(n), Render, and Mark: the      *)
(* caller gives the base question q0 a logic attribute through its bind    *)
(* (C05: that attribute belongs to q0's bind and to no other element's).   *)
(* `inspect`: the caller looks at each new element (its xpath) BEFORE      *)
(* attaching it - an observation that must not change any later render.    *)
(***************************************************************************)
EXTENDS Naturals, Sequences, FiniteSets, TLC
CONSTANTS Names, MaxOps
VARIABLES root, grp, hist, last, inspect, marked
svars == <<root, grp, hist, last, inspect, marked>>
SOInit == root = <<"q0">> /\ grp = <<"g0">> /\ hist = <<>> /\ last = "none" /\ inspect \in BOOLEAN /\ marked = FALSE
Dup(s) == \E i, j \in 1..Len(s) : i # j /\ s[i] = s[j]
\* the group itself is a child of the root named "grp"
Ambiguous == Dup(root \o <<"grp">>) \/ Dup(grp)
AddRoot(n) == Len(hist) < MaxOps /\ root' = Append(root, n) /\ hist' = Append(hist, <<"add_root", n>>) /\ UNCHANGED <<grp, last, inspect, marked>>
AddGroup(n) == Len(hist) < MaxOps /\ grp' = Append(grp, n) /\ hist' = Append(hist, <<"add_group", n>>) /\ UNCHANGED <<root, last, inspect, marked>>
Mark == Len(hist) < MaxOps /\ ~marked /\ marked' = TRUE /\ hist' = Append(hist, <<"mark", "q0">>) /\ UNCHANGED <<root, grp, last, inspect>>
Render == Len(hist) < MaxOps /\ last' = (IF Ambiguous THEN "rejected" ELSE "ok") /\ hist' = Append(hist, <<"render", last'>>) /\ UNCHANGED <<root, grp, inspect, marked>>
SONext == (\E n \in Names : AddRoot(n) \/ AddGroup(n)) \/ Mark \/ Render
SOSpec == SOInit /\ [][SONext]_svars
\* an accepted render implies an unambiguous tree at that moment (the history does not matter)
AcceptedMeansUnambiguous == (Len(hist) > 0 /\ hist[Len(hist)][1] = "render" /\ hist[Len(hist)][2] = "ok") => ~Ambiguous
\* the elements whose bind carries the attribute given by Mark: the base question alone
MarkedPaths == IF marked THEN {<<"q0">>} ELSE {}
=============================================================================
