---------------------------- MODULE SurveyObject ----------------------------
(***************************************************************************)
(* C02 on a long-lived Survey object: the tree may be changed through the  *)
(* public builder API between renders.  Whatever the history, a render of  *)
(* a tree in which two siblings share a name must be refused, and a render *)
(* of an unambiguous tree must succeed with closure (one instance node,    *)
(* one bind, one control per question).                                    *)
(* State: the multiset of question names under the root and under one      *)
(* group.  Operations: AddRoot(n), AddGroup(n), Render.                    *)
(***************************************************************************)
EXTENDS Naturals, Sequences, FiniteSets, TLC
CONSTANTS Names, MaxOps
VARIABLES root, grp, hist, last
svars == <<root, grp, hist, last>>
SOInit == root = <<"q0">> /\ grp = <<"g0">> /\ hist = <<>> /\ last = "none"
Dup(s) == \E i, j \in 1..Len(s) : i # j /\ s[i] = s[j]
\* the group itself is a child of the root named "grp"
Ambiguous == Dup(root \o <<"grp">>) \/ Dup(grp)
AddRoot(n) == Len(hist) < MaxOps /\ root' = Append(root, n) /\ hist' = Append(hist, <<"add_root", n>>) /\ UNCHANGED <<grp, last>>
AddGroup(n) == Len(hist) < MaxOps /\ grp' = Append(grp, n) /\ hist' = Append(hist, <<"add_group", n>>) /\ UNCHANGED <<root, last>>
Render == Len(hist) < MaxOps /\ last' = (IF Ambiguous THEN "rejected" ELSE "ok") /\ hist' = Append(hist, <<"render", last'>>) /\ UNCHANGED <<root, grp>>
SONext == (\E n \in Names : AddRoot(n) \/ AddGroup(n)) \/ Render
SOSpec == SOInit /\ [][SONext]_svars
\* an accepted render implies an unambiguous tree at that moment (the history does not matter)
AcceptedMeansUnambiguous == (Len(hist) > 0 /\ hist[Len(hist)][1] = "render" /\ hist[Len(hist)][2] = "ok") => ~Ambiguous
=============================================================================
