--------------------------- MODULE Trace_Defaults ---------------------------
(* One trace = one default text: <<[ev "default", seq, hyphen, text, qtype, real_dynamic, harness_class, status]>>.               *)
(*  envelope (violation): a text that can only be a literal is not treated as an expression, and one that can only be an        *)
(*  expression is not treated as a literal; the real function never raises.                                                     *)
(*  harness_class: what harness/abstract.classify_default says for the concrete text (the form-level C10 check uses it): it     *)
(*  must not contradict the specification (it may say "either" where the specification is definite, never the opposite);
(*  demanded on the exhaustively enumerated domain (well-formed sequences of <= 3 pieces), which contains every text the form level uses. *)        *)
EXTENDS Defaults, Json, IOUtils
VARIABLES tid, l
Traces == JsonDeserialize(IOEnv.TRACE_FILE)
T == Traces[tid]
Ev == T[l]
Check(name, cond) == IF cond THEN TRUE ELSE (PrintT(<<"AT", tid, l, name>>) /\ FALSE)
TInit == tid \in 1..Len(Traces) /\ l = 1 /\ seq = <<>> /\ hyphen = FALSE /\ done = FALSE
TStep == /\ l <= Len(T) /\ Ev.ev = "default"
         /\ LET c == Class(Ev.seq, Ev.hyphen) IN
            /\ Check("classifier_never_crashes", Ev.status = "ok")
            /\ Check("literal_is_not_an_expression", c = "static" => ~Ev.real_dynamic)
            /\ Check("expression_is_not_a_literal", c = "dynamic" => Ev.real_dynamic)
            /\ Check("harness_classifier_agrees_with_spec", (WellFormed(Ev.seq) /\ Len(Ev.seq) <= 3) => Ev.harness_class \in {c, "either"})
         /\ l' = l + 1 /\ UNCHANGED <<tid, dvars>>
TSpec == TInit /\ [][TStep]_<<dvars, tid, l>>
Accepted == (l = Len(T) + 1) => PrintT(<<"ACCEPT", tid>>)
=============================================================================
