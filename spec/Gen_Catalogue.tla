--------------------------- MODULE Gen_Catalogue ---------------------------
EXTENDS Catalogue, Json
Emit == (phase = "mutated") => PrintT(ToJson(case))
EmitBases == PrintT(ToJson([bases |-> Bases, choices |-> ChoiceLists]))
ASSUME EmitBases
=============================================================================
