---------------------------- MODULE Gen_Defaults ----------------------------
EXTENDS Defaults, Json
Emit == done => PrintT(ToJson([seq |-> seq, hyphen |-> hyphen, class |-> Class(seq, hyphen), wf |-> WellFormed(seq)]))
=============================================================================
