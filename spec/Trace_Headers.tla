---------------------------- MODULE Trace_Headers ---------------------------
(* Conformance of the real header processing (process_header, dealias_and_group_headers) with Headers.tla.        *)
(*  "header" event: one header of one sheet, the real (new_header, tokens) or exception.                          *)
(*     envelope (violation): no internal exception; a header in a documented spelling means Meaning(h).           *)
(*     transcription (DRIFT, informational): tokens differ from ProcessHeader.                                    *)
(*  "sheet" event: a header row with one data row, the real outcome and the grouped row flattened to leaves.      *)
(*     envelope: a column under two names is rejected, in either order; otherwise the row groups to GroupLeaves.  *)
EXTENDS Headers, Json, IOUtils
VARIABLES tid, l
Traces == JsonDeserialize(IOEnv.TRACE_FILE)
T == Traces[tid]
Ev == T[l]
Check(name, cond) == IF cond THEN TRUE ELSE (PrintT(<<"AT", tid, l, name>>) /\ FALSE)
SeqToSet(s) == {s[i] : i \in 1..Len(s)}

HeaderEnv ==
  LET spec == ProcessHeader(Ev.sheet, Ev.h, Ev.udc) IN
  /\ Check("header_never_crashes", Ev.real.status = "ok")
  /\ Check("documented_spelling_means_its_column", InDomain(Ev.sheet, Ev.h, Ev.udc) => Ev.real.tokens = Meaning(Ev.sheet, Ev.h))
  /\ ((Ev.real.tokens # spec.tokens) => PrintT(<<"DRIFT", tid>>))
SheetEnv ==
  LET n == Len(Ev.cols)
      paths == [i \in 1..n |-> Meaning("survey", Ev.cols[i].h)]
      dup == \E i, j \in 1..n : i < j /\ paths[i] = paths[j]
      cells == {[p |-> paths[i], v |-> "val_" \o Ev.cols[i].id] : i \in 1..n}
      real == {[p |-> Ev.real.leaves[k][1], v |-> Ev.real.leaves[k][2]] : k \in 1..Len(Ev.real.leaves)}
  IN /\ Check("sheet_never_crashes", Ev.real.status \in {"ok", "duplicate"})
     /\ Check("same_column_twice_rejected", dup => Ev.real.status = "duplicate")
     /\ Check("distinct_columns_accepted", ~dup => Ev.real.status = "ok")
     /\ Check("cells_grouped_under_header_paths", ~dup => real = GroupLeaves(cells))
TInit == tid \in 1..Len(Traces) /\ l = 1
TStep == /\ l <= Len(T)
         /\ CASE Ev.ev = "header" -> HeaderEnv [] Ev.ev = "sheet" -> SheetEnv [] OTHER -> FALSE
         /\ l' = l + 1 /\ UNCHANGED tid
TSpec == TInit /\ [][TStep]_<<tid, l>>
Accepted == (l = Len(T) + 1) => PrintT(<<"ACCEPT", tid>>)
=============================================================================
