-------------------------- MODULE Gen_InstanceExpr --------------------------
EXTENDS InstanceExpr, Json
Emit == (idone /\ (Wild \/ spans # <<>>)) => PrintT(ToJson([toks |-> toks, spans |-> spans, wild |-> Wild]))
=============================================================================
