----------------------------- MODULE Gen_Layout -----------------------------
EXTENDS Layout, Json
Emit == (Len(steps) > 0) => PrintT(ToJson([base |-> base, steps |-> steps, shift_survey |-> ShiftMap("survey"), shift_choices |-> ShiftMap("choices")]))
=============================================================================
