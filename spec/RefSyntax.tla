------------------------------ MODULE RefSyntax -----------------------------
(***************************************************************************)
(* The syntax check of ${...} references (C17 "malformed ${references}     *)
(* are refused, citing the row"; underlies C03).                           *)
(*                                                                         *)
(* A cell is a sequence of lexical PIECES:                                 *)
(*    start "${"   end "}"   name "a"   digit "7"   ls "last-saved#"       *)
(*    ws " "       quote "'"  other "+"                                    *)
(* (question `a` exists in the form; any other name does not).             *)
(* This module holds                                                       *)
(*   - Lex / Validate: a TRANSCRIPTION of the lexer rules that matter      *)
(*     (PYXFORM_REF, SYSTEM_LITERAL, NAME, NUMBER, PYXFORM_REF_START/END)  *)
(*     and of the state machine of validate_pyxform_reference_syntax;      *)
(*   - Substitute: a transcription of the later substitution pass, which   *)
(*     looks for "${" ... "}" with a non-greedy pattern, quotes or not;    *)
(*   - the ENVELOPE: Malformed(cell, kind) - some "${" is not the start of *)
(*     ${name} or ${last-saved#name}; in an expression cell a "${" inside  *)
(*     a quoted string literal is text, in a text cell (label, hint) a     *)
(*     quote is an apostrophe and hides nothing.                           *)
(* TLC checks on every cell within the bound where the transcription and   *)
(* the envelope part: exactly the text cells in which paired apostrophes   *)
(* surround an unfinished reference.                                       *)
(***************************************************************************)
EXTENDS Naturals, Sequences, FiniteSets, TLC
CONSTANTS MaxLen

Pieces == {"start", "end", "name", "digit", "ls", "ws", "quote", "other"}
Kinds == {"text", "expr"}

(* ------------------------------------------------------------------ shared: a complete reference starting at i *)
\* [ls] name (name|digit)* end  directly after the start piece at i;  0 if none, else the index of the closing end piece
RECURSIVE RunEnd(_, _)
RunEnd(c, j) == IF j <= Len(c) /\ c[j] \in {"name", "digit"} THEN RunEnd(c, j + 1) ELSE j      \* first index after the name run
RefEnd(c, i) ==
  LET j0 == IF i + 1 <= Len(c) /\ c[i + 1] = "ls" THEN i + 2 ELSE i + 1
  IN IF j0 <= Len(c) /\ c[j0] = "name"
       THEN LET e == RunEnd(c, j0) IN IF e <= Len(c) /\ c[e] = "end" THEN e ELSE 0
       ELSE 0
\* the name inside is exactly "a": one name piece
RefKnown(c, i) == LET j0 == IF c[i + 1] = "ls" THEN i + 2 ELSE i + 1 IN RefEnd(c, i) = j0 + 1
NextQuote(c, i) == IF \E j \in (i + 1)..Len(c) : c[j] = "quote" THEN CHOOSE j \in (i + 1)..Len(c) : c[j] = "quote" /\ \A k \in (i + 1)..(j - 1) : c[k] # "quote" ELSE 0

(* ------------------------------------------------------------------ transcription: lexer + validator *)
\* tokens: REF START END NAME NUM WS LIT OTHER
RECURSIVE Lex(_, _)
Lex(c, i) ==
  IF i > Len(c) THEN <<>>
  ELSE CASE c[i] = "quote" -> (IF NextQuote(c, i) # 0 THEN <<"LIT">> \o Lex(c, NextQuote(c, i) + 1) ELSE <<"OTHER">> \o Lex(c, i + 1))
         [] c[i] = "start" -> (IF RefEnd(c, i) # 0 THEN <<"REF">> \o Lex(c, RefEnd(c, i) + 1) ELSE <<"START">> \o Lex(c, i + 1))
         [] c[i] = "name"  -> <<"NAME">> \o Lex(c, RunEnd(c, i))
         [] c[i] = "ls"    -> <<"NAME", "OTHER">> \o Lex(c, i + 1)              \* "last-saved" "#"
         [] c[i] = "digit" -> <<"NUM">> \o Lex(c, i + 1)
         [] c[i] = "end"   -> <<"END">> \o Lex(c, i + 1)
         [] c[i] = "ws"    -> <<"WS">> \o Lex(c, i + 1)
         [] OTHER          -> <<"OTHER">> \o Lex(c, i + 1)
\* the state machine of validate_pyxform_reference_syntax: TRUE = the cell passes
RECURSIVE Fsm(_, _, _)
Fsm(t, k, open) ==
  IF k > Len(t) THEN ~open
  ELSE IF ~open THEN Fsm(t, k + 1, t[k] = "START")
  ELSE CASE t[k] = "NAME" -> Fsm(t, k + 1, TRUE)
         [] t[k] = "END" -> Fsm(t, k + 1, FALSE)
         [] OTHER -> FALSE
HasStart(c) == \E i \in 1..Len(c) : c[i] = "start"
Validate(c) == ~HasStart(c) \/ Fsm(Lex(c, 1), 1, FALSE)

(* ------------------------------------------------------------------ transcription: the substitution pass *)
\* non-greedy "${" ... "}" matches, left to right, quotes ignored: the set of <<start index, end index>>
RECURSIVE Matches(_, _)
Matches(c, i) ==
  IF i > Len(c) THEN {}
  ELSE IF c[i] = "start" /\ \E j \in (i + 1)..Len(c) : c[j] = "end"
         THEN LET j == CHOOSE j \in (i + 1)..Len(c) : c[j] = "end" /\ \A k \in (i + 1)..(j - 1) : c[k] # "end"
              IN {<<i, j>>} \cup Matches(c, j + 1)
         ELSE Matches(c, i + 1)
MatchKnown(c, m) == SubSeq(c, m[1] + 1, m[2] - 1) \in {<<"name">>, <<"ls", "name">>}
Substitutes(c) == \A m \in Matches(c, 1) : MatchKnown(c, m)
\* the converter's verdict as transcribed: "syntax" (row-citing refusal), "unknown" (refusal naming the element), "ok"
Verdict(c) == IF ~Validate(c) THEN "syntax" ELSE IF ~Substitutes(c) THEN "unknown" ELSE "ok"

(* ------------------------------------------------------------------ envelope *)
\* positions inside a quoted string literal (between a quote and the next one, pairing left to right)
RECURSIVE Quoted(_, _)
Quoted(c, i) == IF i > Len(c) THEN {}
                ELSE IF c[i] = "quote" /\ NextQuote(c, i) # 0 THEN ((i + 1)..(NextQuote(c, i) - 1)) \cup Quoted(c, NextQuote(c, i) + 1)
                ELSE Quoted(c, i + 1)
\* a start piece inside a complete reference further left is not possible (a reference holds no start piece); so every
\* start piece is either the start of a complete reference or dangling
Dangling(c, kind) == {i \in 1..Len(c) : c[i] = "start" /\ RefEnd(c, i) = 0 /\ (kind = "expr" => i \notin Quoted(c, 1))}
Malformed(c, kind) == Dangling(c, kind) # {}
\* every "${" starts a complete reference to the existing question, and no other "}"-closed span confuses the matter
WellFormedKnown(c) == /\ \A i \in 1..Len(c) : c[i] = "start" => (RefEnd(c, i) # 0 /\ RefKnown(c, i))
NRefs(c) == Cardinality({i \in 1..Len(c) : c[i] = "start"})

(* ------------------------------------------------------------------ generator and design checks *)
VARIABLES cell, kind
rvars == <<cell, kind>>
RInit == cell = <<>> /\ kind \in Kinds
RNext == Len(cell) < MaxLen /\ \E p \in Pieces : cell' = Append(cell, p) /\ UNCHANGED kind
RSpec == RInit /\ [][RNext]_rvars
\* where the transcription is at least as strict as the envelope - everywhere except ApostropheHole
ApostropheHole(c, k) == k = "text" /\ \E i \in Dangling(c, "text") : i \in Quoted(c, 1)
MalformedIsRefused == (Malformed(cell, kind) /\ ~ApostropheHole(cell, kind)) => Verdict(cell) # "ok"
WellFormedIsAccepted == WellFormedKnown(cell) => Verdict(cell) = "ok"
\* the hole is real in the transcription (expected to be VIOLATED: TLC exhibits the shortest such cell)
NoApostropheHole == ApostropheHole(cell, kind) => Verdict(cell) # "ok"
SeqToSet(s) == {s[i] : i \in 1..Len(s)}
=============================================================================
