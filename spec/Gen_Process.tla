----------------------------- MODULE Gen_Process -----------------------------
EXTENDS Process, Json
Emit == (Quiescent /\ nconv = MaxConv) => PrintT(ToJson([hist |-> hist]))
=============================================================================
