-------------------------------- MODULE Loop --------------------------------
(***************************************************************************)
(* The (legacy) loop construct: `begin loop over L` ... `end loop`.        *)
(* The rows between the two are a TEMPLATE; the builder copies them once   *)
(* per choice of list L into a group named after the choice, substituting  *)
(* %(name)s and %(label)s (and %% for a percent sign) in every text.       *)
(* A choice named "none" is skipped (builder._create_loop_from_dict).      *)
(*                                                                         *)
(* This module is a transcription of that expansion over an abstract case  *)
(*   choices   sequence of choice names (list order), maybe one "none"     *)
(*   rows      sequence of template rows: [name, text] with text a         *)
(*             sequence of pieces "lit" | "name" | "label" | "pct2" | "pct"*)
(*   where     "top" | "group" | "repeat": what encloses the loop          *)
(*   grp       a group row inside the template: "plain" (section names are  *)
(*             unique survey-wide, so it is refused as soon as two choices *)
(*             are kept) or "named" (its name carries the placeholder:     *)
(*             refused, names are validated before the expansion)          *)
(* and the generator of cases.  The property-level demand on any loop form *)
(* is C02's (closure and uniqueness of what is emitted, Trace_RowParser    *)
(* "free" event); the expansion itself is checked as transcription.        *)
(***************************************************************************)
EXTENDS Naturals, Sequences, FiniteSets, TLC
CONSTANTS MaxChoices, MaxRows

ChoiceNames == <<"a", "b", "c">>
Pieces == {"lit", "name", "label", "pct2", "pct"}
Texts == {<<"lit">>, <<"lit", "label">>, <<"name", "lit">>, <<"lit", "pct">>, <<"pct2", "label">>, <<"label", "pct", "lit", "name">>}
\* (a bare "%" directly in front of a placeholder would read as the escape "%%" followed by "(name)s": not generated)
VARIABLES choices, rows, where, grp, translated, phase
lvars == <<choices, rows, where, grp, translated, phase>>

LInit == /\ \E n \in 1..MaxChoices, none \in 0..MaxChoices :
              /\ none <= n
              /\ choices = [i \in 1..n |-> IF i = none THEN "none" ELSE ChoiceNames[i]]
         /\ rows = <<>> /\ where \in {"top", "group", "repeat"} /\ grp \in {"no", "plain", "named"} /\ translated \in BOOLEAN /\ phase = "build"
AddRow(t) == phase = "build" /\ Len(rows) < MaxRows /\ rows' = Append(rows, [name |-> "r" \o ToString(Len(rows) + 1), text |-> t]) /\ UNCHANGED <<choices, where, grp, translated, phase>>
Close == phase = "build" /\ Len(rows) > 0 /\ phase' = "done" /\ UNCHANGED <<choices, rows, where, grp, translated>>
LNext == (\E t \in Texts : AddRow(t)) \/ Close
LSpec == LInit /\ [][LNext]_lvars

(* ------------------------------------------------------------------ the expansion *)
Kept(cs) == SelectSeq(cs, LAMBDA c : c # "none")
Prefix(w) == CASE w = "top" -> <<>> [] w = "group" -> <<"og">> [] OTHER -> <<"orp">>
\* a plain group inside the template is copied under the same name for every choice: two sections of one name are refused
\* and a group whose name carries the placeholder is refused earlier still: names are validated before the expansion
Refused(cs, g) == g = "named" \/ (g = "plain" /\ Len(Kept(cs)) >= 2)
GroupName(g, c) == IF g = "named" THEN "ig_" \o c ELSE "ig"
\* instance paths below the root, preorder (the loop, per choice: its group, [the inner group,] the copied rows)
RECURSIVE Flat(_)
Flat(ss) == IF ss = <<>> THEN <<>> ELSE Head(ss) \o Flat(Tail(ss))
CopyPaths(pre, c, rs, g) ==
  LET base == pre \o <<"lp", c>>
      inner == IF g = "no" THEN base ELSE Append(base, GroupName(g, c))
  IN <<base>> \o (IF g = "no" THEN <<>> ELSE <<inner>>) \o [i \in 1..Len(rs) |-> Append(inner, rs[i].name)]
ExpPaths(cs, rs, w, g) ==
  (IF w = "top" THEN <<>> ELSE <<Prefix(w)>>) \o <<Prefix(w) \o <<"lp">>>> \o Flat([i \in 1..Len(Kept(cs)) |-> CopyPaths(Prefix(w), Kept(cs)[i], rs, g)])
\* the label of a copied row for choice c: pieces resolved ("lit" stays, "name"/"label" are the choice's, "pct2" -> "%", "pct" -> "%")
Piece(p, c) == CASE p = "lit" -> "text" [] p = "name" -> c [] p = "label" -> "Label " \o c [] OTHER -> "%"
RECURSIVE Cat(_)
Cat(ss) == IF ss = <<>> THEN "" ELSE Head(ss) \o Cat(Tail(ss))
\* only the rows directly inside the loop are substituted: a row inside a group of the template keeps its text as written
RawPiece(p) == CASE p = "lit" -> "text" [] p = "name" -> "%(name)s" [] p = "label" -> "%(label)s" [] p = "pct2" -> "%%" [] OTHER -> "%"
ExpLabel(t, c, g) == Cat([i \in 1..Len(t) |-> IF g = "no" THEN Piece(t[i], c) ELSE RawPiece(t[i])])

(* design checks *)
\* every copy has its own path: the expansion never makes two nodes of one path
RECURSIVE NoDupSeq(_)
NoDupSeq(s) == \A i, j \in 1..Len(s) : i # j => s[i] # s[j]
CopiesAreDistinct == (phase = "done" /\ ~Refused(choices, grp)) => NoDupSeq(ExpPaths(choices, rows, where, grp))
NoneIsSkipped == phase = "done" => \A i \in 1..Len(ExpPaths(choices, rows, where, grp)) : "none" \notin {ExpPaths(choices, rows, where, grp)[i][k] : k \in 1..Len(ExpPaths(choices, rows, where, grp)[i])}
SeqToSet(s) == {s[i] : i \in 1..Len(s)}
=============================================================================
