----------------------------- MODULE Catalogue -----------------------------
(***************************************************************************)
(* C17: the catalogue of breaking mutations, stated over abstract base     *)
(* forms.  A base form is the sequence of its survey-row kinds plus the    *)
(* list name of every choices row; a mutation names the row kinds it       *)
(* applies to, whether only top-level sites qualify, and the kind of       *)
(* locator the diagnosis must carry:                                       *)
(*   "row"   - the message cites [row : n], n = spreadsheet row of the site*)
(*             (header = row 1, leading blank rows counted)                *)
(*   "ident" - the message names an identifier of the offending element    *)
(*   "kind"  - the problem is described; no locator demanded (DESIGN 5a)   *)
(* The machine: Pick a case (base, leading blanks, mutation, site), then   *)
(* the converter must Reject it.  TLC enumerates every case; the harness   *)
(* performs the mutation concretely (harness/catalogue.py) and TLC judges  *)
(* the recorded outcome (Trace_Catalogue).                                 *)
(***************************************************************************)
EXTENDS Naturals, Sequences, FiniteSets, TLC

Bases == <<
  <<"text", "int", "sel1", "selm", "begin_group", "text", "begin_repeat", "int", "calc", "end_repeat", "end_group",
    "note", "photo", "range", "begin_repeat", "sel1", "end_repeat">>,
  <<"begin_group", "begin_group", "text", "sel1", "end_group", "int", "end_group", "calc", "selm">>,
  \* a repeat holding groups: rows whose enclosing repeat is not their parent
  <<"text", "begin_repeat", "begin_group", "text", "begin_group", "int", "end_group", "end_group", "calc", "end_repeat", "sel1", "selm">> >>
ChoiceLists == <<"L", "L", "L", "M", "M">>
MaxBlanks == 2

Begin == {"begin_group", "begin_repeat"}
End == {"end_group", "end_repeat"}
Q == {"text", "int", "sel1", "selm", "calc", "photo", "range"}
Named == Q \cup Begin \cup {"note"}
Visible == {"text", "int", "sel1", "selm", "photo", "range"}
AnyRow == Named \cup End

\* nesting depth in front of row i of base b
Depth(b, i) == Cardinality({j \in 1..(i-1) : Bases[b][j] \in Begin}) - Cardinality({j \in 1..(i-1) : Bases[b][j] \in End})

M(on, sheet, top, loc) == [on |-> on, sheet |-> sheet, top |-> top, loc |-> loc]
Cat ==
  ("bad_name"                :> M(Named, "survey", FALSE, "row")) @@
  ("name_with_space"         :> M(Named, "survey", FALSE, "row")) @@
  ("missing_name"            :> M(Q, "survey", FALSE, "row")) @@
  ("missing_type"            :> M(Q, "survey", FALSE, "row")) @@
  ("malformed_ref"           :> M(Q, "survey", FALSE, "row")) @@
  ("list_missing"            :> M({"sel1", "selm"}, "survey", FALSE, "row")) @@
  ("calc_nocalc"             :> M({"calc"}, "survey", FALSE, "row")) @@
  ("other_filter"            :> M({"sel1"}, "survey", FALSE, "row")) @@
  ("from_file_ext"           :> M({"sel1"}, "survey", FALSE, "row")) @@
  ("bg_geopoint_no_trigger"  :> M({"text"}, "survey", FALSE, "row")) @@
  ("audit_named"             :> M(AnyRow, "survey", FALSE, "row")) @@
  ("param_rows_nan"          :> M({"text"}, "survey", FALSE, "row")) @@
  ("unmatched_end"           :> M(Named, "survey", TRUE, "row")) @@
  ("mismatched_end"          :> M(End, "survey", FALSE, "row")) @@
  ("choice_noname"           :> M({"L", "M"}, "choices", FALSE, "row")) @@
  ("dup_choice"              :> M({"L", "M"}, "choices", FALSE, "row")) @@
  ("dup_choice_labelless"    :> M({"L", "M"}, "choices", FALSE, "row")) @@
  ("dup_choice_first_labelless" :> M({"L", "M"}, "choices", FALSE, "row")) @@
  ("unclosed_begin"          :> M(End, "survey", TRUE, "ident")) @@
  ("dup_sibling"             :> M(Named, "survey", FALSE, "ident")) @@
  ("dup_sibling_case"        :> M(Named, "survey", FALSE, "ident")) @@
  ("clash_other"             :> M({"sel1"}, "survey", FALSE, "ident")) @@
  ("clash_count"             :> M({"begin_repeat"}, "survey", FALSE, "ident")) @@
  ("clash_meta"              :> M({"text", "note"}, "survey", TRUE, "ident")) @@
  ("dup_section"             :> M(Begin, "survey", FALSE, "ident")) @@
  ("section_named_as_form"   :> M(Begin, "survey", FALSE, "ident")) @@
  ("unknown_ref"             :> M(Q, "survey", FALSE, "ident")) @@
  ("ambiguous_ref"           :> M(Q, "survey", FALSE, "ident")) @@
  ("ambiguous_ref_three"     :> M(Q, "survey", FALSE, "ident")) @@
  ("unknown_type"            :> M(Q, "survey", FALSE, "ident")) @@
  ("unknown_param"           :> M({"text"}, "survey", FALSE, "ident")) @@
  ("bad_max_pixels"          :> M({"photo"}, "survey", FALSE, "ident")) @@
  ("no_label"                :> M(Visible, "survey", FALSE, "ident")) @@
  ("trigger_missing"         :> M({"calc"}, "survey", FALSE, "ident")) @@
  ("search_and_from_file"    :> M({"sel1"}, "survey", FALSE, "ident")) @@
  ("selm_choice_space"       :> M({"M"}, "choices", FALSE, "ident")) @@
  ("selm_choice_space_list_used_before" :> M({"M"}, "choices", FALSE, "ident")) @@      \* (a select_one reads the list first)
  ("choices_missing_list_name_header" :> M({}, "form", FALSE, "ident")) @@
  ("survey_missing_type_header"       :> M({}, "form", FALSE, "ident")) @@
  ("header_twice_case_canon_first" :> M({}, "form", FALSE, "ident")) @@      \* one column under two spellings, the canon spelling to the left
  ("header_twice_case_alias_first" :> M({}, "form", FALSE, "ident")) @@      \* one column under two spellings, the alias spelling to the left
  ("header_twice_choices_canon_first" :> M({}, "form", FALSE, "ident")) @@      \* one column under two spellings, the canon spelling to the left
  ("header_twice_choices_alias_first" :> M({}, "form", FALSE, "ident")) @@      \* one column under two spellings, the alias spelling to the left
  ("header_twice_logic_canon_first" :> M({}, "form", FALSE, "ident")) @@      \* one column under two spellings, the canon spelling to the left
  ("header_twice_logic_alias_first" :> M({}, "form", FALSE, "ident")) @@      \* one column under two spellings, the alias spelling to the left
  ("instance_id_clash"       :> M({}, "form", FALSE, "ident")) @@
  ("entity_bad_dataset"      :> M({}, "form", FALSE, "ident")) @@
  ("entity_unknown_column"   :> M({}, "form", FALSE, "ident")) @@
  ("malformed_params"        :> M({"range"}, "survey", FALSE, "kind")) @@
  ("seed_without_randomize"  :> M({"sel1"}, "survey", FALSE, "kind")) @@
  ("range_nan"               :> M({"range"}, "survey", FALSE, "kind")) @@
  ("big_image_without_image" :> M({"text"}, "survey", FALSE, "kind")) @@
  ("save_to_without_entities":> M({"text"}, "survey", FALSE, "kind")) @@
  ("save_to_in_repeat"       :> M({"text", "int", "calc"}, "survey", FALSE, "row")) @@      \* (only at sites below a repeat, at any depth)
  ("missing_type_label_only" :> M(Visible, "survey", FALSE, "row")) @@                      \* neither type nor name, a label only
  ("missing_type_name_only"  :> M(Visible, "survey", FALSE, "row")) @@
  ("no_survey_sheet"         :> M({}, "form", FALSE, "kind")) @@
  ("no_choices_sheet"        :> M({}, "form", FALSE, "kind")) @@
  ("omit_instanceid_with_key":> M({}, "form", FALSE, "kind")) @@
  ("entity_two_rows"         :> M({}, "form", FALSE, "kind")) @@
  \* bad audit parameters, two external instances of one name in different groups, a search() list shared with a plain select
  ("audit_bad_track_changes" :> M({}, "form", FALSE, "ident")) @@
  ("audit_bad_identify_user" :> M({}, "form", FALSE, "ident")) @@
  ("audit_bad_reasons"       :> M({}, "form", FALSE, "ident")) @@
  ("audit_bad_location_priority" :> M({}, "form", FALSE, "ident")) @@
  ("audit_location_nan"      :> M({}, "form", FALSE, "ident")) @@
  ("audit_location_negative" :> M({}, "form", FALSE, "ident")) @@
  ("audit_location_age_lt_interval" :> M({}, "form", FALSE, "ident")) @@
  ("audit_location_incomplete" :> M({}, "form", FALSE, "kind")) @@
  ("external_instance_twice" :> M({}, "form", FALSE, "ident")) @@
  ("search_list_shared"      :> M({"sel1"}, "survey", FALSE, "ident")) @@
  ("search_list_shared_randomized" :> M({"sel1"}, "survey", FALSE, "ident")) @@     \* the other reader of the list is a randomized select
  ("loop_without_list"       :> M({}, "form", FALSE, "kind")) @@
  ("choice_extra_column_translated" :> M({}, "form", FALSE, "ident")) @@
  \* user text in XML name positions / text XML cannot represent (rejected by the writer)
  ("choices_header_not_a_name"  :> M({}, "form", FALSE, "ident")) @@
  ("bind_suffix_not_a_name"     :> M(Q, "survey", FALSE, "ident")) @@
  ("bind_suffix_undeclared_prefix" :> M(Q, "survey", FALSE, "ident")) @@
  ("settings_attribute_not_a_name" :> M({}, "form", FALSE, "ident")) @@
  ("label_with_control_character"  :> M(Visible, "survey", FALSE, "kind")) @@
  ("bg_geopoint_ambiguous_trigger" :> M({}, "form", FALSE, "ident")) @@
  \* the path of a node is derived from the position of its row: columns that would set it by hand
  ("bind_nodeset_column"     :> M(Q \cup Begin, "survey", FALSE, "row")) @@
  ("body_ref_column"         :> M(Visible \cup Begin, "survey", FALSE, "row")) @@
  ("body_nodeset_column"     :> M({"begin_repeat"}, "survey", FALSE, "row"))
Muts == DOMAIN Cat

\* row i lies below an open repeat (its parent or any ancestor)
OpenAt(b, j, i) == j < i /\ Bases[b][j] \in Begin /\ ~\E k \in (j + 1)..(i - 1) : Bases[b][k] \in End /\ Depth(b, k) = Depth(b, j) + 1
InRepeat(b, i) == \E j \in 1..(i - 1) : Bases[b][j] = "begin_repeat" /\ OpenAt(b, j, i)
\* an end row qualifies as top-level when it closes a top-level section (depth 1 in front of it)
TopOK(b, i) == IF Bases[b][i] \in End THEN Depth(b, i) = 1 ELSE Depth(b, i) = 0

Applicable(b, m, i) ==
  CASE Cat[m].sheet = "survey"  -> i \in 1..Len(Bases[b]) /\ Bases[b][i] \in Cat[m].on /\ (Cat[m].top => TopOK(b, i))
                                     /\ (m = "save_to_in_repeat" => InRepeat(b, i))
    [] Cat[m].sheet = "choices" -> i \in 1..Len(ChoiceLists) /\ ChoiceLists[i] \in Cat[m].on
    [] OTHER                    -> i = 0

\* spreadsheet row of the site: header is row 1; leading blank rows shift the survey sheet only
SiteRow(m, blanks, i) == CASE Cat[m].sheet = "survey" -> i + 1 + blanks
                           [] Cat[m].sheet = "choices" -> i + 1
                           [] OTHER -> 0

VARIABLES phase, case, outcome
cvars == <<phase, case, outcome>>
NoCase == [base |-> 0, blanks |-> 0, mut |-> "", site |-> 0, row |-> 0, loc |-> ""]

CInit == phase = "pick" /\ case = NoCase /\ outcome = "none"
Pick(b, bl, m, i) ==
  /\ phase = "pick" /\ b \in 1..Len(Bases) /\ bl \in 0..MaxBlanks /\ m \in Muts /\ Applicable(b, m, i)
  /\ case' = [base |-> b, blanks |-> bl, mut |-> m, site |-> i, row |-> SiteRow(m, bl, i), loc |-> Cat[m].loc]
  /\ phase' = "mutated" /\ UNCHANGED outcome
Reject == phase = "mutated" /\ outcome' = "pyxform_error" /\ phase' = "done" /\ UNCHANGED case
MaxSite == 20
CNext == (\E b \in 1..Len(Bases), bl \in 0..MaxBlanks, m \in Muts, i \in 0..MaxSite : Pick(b, bl, m, i)) \/ Reject
CSpec == CInit /\ [][CNext]_cvars

\* design-level: every catalogue entry is reachable somewhere; a row locator always has a data row to cite
EveryMutationApplies == \A m \in Muts : \E b \in 1..Len(Bases), i \in 0..MaxSite : Applicable(b, m, i)
RowLocatorHasRow == (phase # "pick" /\ case.loc = "row") => case.row >= 2
OnlyRejected == phase = "done" => outcome = "pyxform_error"
=============================================================================
