---------------------------- MODULE Gen_Entities ---------------------------
EXTENDS Entities, Json
RECURSIVE SetToSeq(_)
SetToSeq(S) == IF S = {} THEN <<>> ELSE LET x == CHOOSE y \in S : TRUE IN <<x>> \o SetToSeq(S \ {x})
Emit == (phase = "done") => PrintT(ToJson([c EXCEPT !.saveto = SetToSeq(c.saveto)]))
=============================================================================
