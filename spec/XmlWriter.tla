----------------------------- MODULE XmlWriter -----------------------------
(***************************************************************************)
(* The XML serialiser of pyxform (utils.DetachableElement.writexml,        *)
(* PatchedText.writexml, escape_text_for_xml, minidom _write_data) as a     *)
(* function from an abstract DOM to a token sequence, plus an independent   *)
(* recogniser/parser of token sequences.  Characters are classes:          *)
(*   p plain, lt <, gt >, amp &, quot ", apos ', sp space, nl newline       *)
(* Output tokens: [t "start", tag, attrs, empty], [t "end", tag], and       *)
(* [t "c", c] with c a raw character class or an entity E_lt, E_gt, E_amp,  *)
(* E_quot.                                                                  *)
(* Properties (C01 well-formedness, C06 text is data, C15 pretty_print is   *)
(* cosmetic) are checked by TLC on every DOM in bounds (MC_XmlWriter) and   *)
(* the same operators judge the token streams of the real writer            *)
(* (Trace_Xml).                                                             *)
(***************************************************************************)
EXTENDS Naturals, Sequences, FiniteSets, TLC

Chars == {"p", "lt", "gt", "amp", "quot", "apos", "sp", "nl"}
WS == {"sp", "nl"}
Text(s) == [k |-> "t", s |-> s]
Elem(tag, attrs, kids) == [k |-> "e", tag |-> tag, attrs |-> attrs, kids |-> kids]

(* ------------------------------------------------------------------ the writer (transcription) *)
EscT(c) == IF c = "lt" THEN "E_lt" ELSE IF c = "gt" THEN "E_gt" ELSE IF c = "amp" THEN "E_amp" ELSE c      \* utils.XML_TEXT_SUBS
EscA(c) == IF c = "quot" THEN "E_quot" ELSE EscT(c)                                                       \* minidom._write_data
Cs(s, esc(_)) == [i \in 1..Len(s) |-> [t |-> "c", c |-> esc(s[i])]]
Raw(c) == c
RECURSIVE Cat(_)
Cat(ss) == IF ss = <<>> THEN <<>> ELSE Head(ss) \o Cat(Tail(ss))
HasTextKid(n) == \E i \in 1..Len(n.kids) : n.kids[i].k = "t"
RECURSIVE W(_, _, _, _)
W(n, ind, add, nl) ==
  IF n.k = "t" THEN Cs(ind \o n.s \o nl, EscT)                       \* PatchedText.writexml: escape(indent + data + newl)
  ELSE LET start == <<[t |-> "start", tag |-> n.tag, empty |-> (n.kids = <<>>),
                       attrs |-> [i \in 1..Len(n.attrs) |-> <<n.attrs[i][1], [j \in 1..Len(n.attrs[i][2]) |-> EscA(n.attrs[i][2][j])]>>]]>>
           m == Len(n.kids)
       IN Cs(ind, Raw) \o start \o
          (IF m = 0 THEN Cs(nl, Raw)
           ELSE (IF HasTextKid(n)
                   THEN (IF m > 1 /\ n.kids[1].k = "t" THEN Cs(<<"sp">>, Raw) ELSE <<>>)      \* boundary space before leading text
                        \o Cat([i \in 1..m |-> W(n.kids[i], <<>>, <<>>, <<>>)])
                        \o (IF m > 1 THEN Cs(<<"sp">>, Raw) ELSE <<>>)                        \* boundary space after the last child
                   ELSE Cs(nl, Raw) \o Cat([i \in 1..m |-> W(n.kids[i], ind \o add, add, nl)]) \o Cs(ind, Raw))
                \o <<[t |-> "end", tag |-> n.tag]>> \o Cs(nl, Raw))
Compact(n) == W(n, <<>>, <<>>, <<>>)
Pretty(n) == W(n, <<>>, <<"sp", "sp">>, <<"nl">>)

(* ------------------------------------------------------------------ an independent recogniser / parser *)
Decode(c) == CASE c = "E_lt" -> "lt" [] c = "E_gt" -> "gt" [] c = "E_amp" -> "amp" [] c = "E_quot" -> "quot" [] OTHER -> c
\* character data may not contain a raw < or &; attribute values additionally no raw "
CharOK(tok) == tok.c \notin {"lt", "amp"}
AttrOK(a) == \A j \in 1..Len(a[2]) : a[2][j] \notin {"lt", "amp", "quot"}
\* Parse: stack machine over the token sequence; returns [ok, node] (node = the single root element)
Bad(why) == [k |-> "bad", why |-> why]
RECURSIVE PGo(_, _, _)
\* st: stack of open elements (each an Elem under construction); done: finished root or "none"
AddKid(e, kid) == [e EXCEPT !.kids = Append(@, kid)]
AddChar(e, c) == IF Len(e.kids) > 0 /\ e.kids[Len(e.kids)].k = "t"
                   THEN [e EXCEPT !.kids[Len(e.kids)].s = Append(@, c)]
                   ELSE AddKid(e, Text(<<c>>))
DecAttrs(as) == [i \in 1..Len(as) |-> <<as[i][1], [j \in 1..Len(as[i][2]) |-> Decode(as[i][2][j])]>>]
PGo(toks, st, done) ==
  IF toks = <<>> THEN [ok |-> (st = <<>> /\ done.k # "none"), node |-> done]
  ELSE LET x == Head(toks) rest == Tail(toks) IN
    CASE x.t = "c" ->
           IF st = <<>> THEN (IF x.c \in WS THEN PGo(rest, st, done) ELSE [ok |-> FALSE, node |-> Bad("text outside root")])
           ELSE IF ~CharOK(x) THEN [ok |-> FALSE, node |-> Bad("raw markup character in text")]
           ELSE PGo(rest, [st EXCEPT ![Len(st)] = AddChar(@, Decode(x.c))], done)
      [] x.t = "start" ->
           IF done.k # "none" /\ st = <<>> THEN [ok |-> FALSE, node |-> Bad("second root")]
           ELSE IF \E i \in 1..Len(x.attrs) : ~AttrOK(x.attrs[i]) THEN [ok |-> FALSE, node |-> Bad("raw markup character in attribute")]
           ELSE IF \E i, j \in 1..Len(x.attrs) : i # j /\ x.attrs[i][1] = x.attrs[j][1] THEN [ok |-> FALSE, node |-> Bad("duplicate attribute")]
           ELSE LET e == Elem(x.tag, DecAttrs(x.attrs), <<>>) IN
                IF x.empty THEN (IF st = <<>> THEN PGo(rest, st, e) ELSE PGo(rest, [st EXCEPT ![Len(st)] = AddKid(@, e)], done))
                ELSE PGo(rest, Append(st, e), done)
      [] x.t = "end" ->
           IF st = <<>> \/ st[Len(st)].tag # x.tag THEN [ok |-> FALSE, node |-> Bad("mismatched end tag")]
           ELSE LET e == st[Len(st)] up == SubSeq(st, 1, Len(st) - 1) IN
                IF up = <<>> THEN PGo(rest, up, e) ELSE PGo(rest, [up EXCEPT ![Len(up)] = AddKid(@, e)], done)
Parse(toks) == PGo(toks, <<>>, [k |-> "none"])

(* ------------------------------------------------------------------ comparisons *)
\* documented whitespace cleaning: XML whitespace = space, runs collapsed, ends trimmed
RECURSIVE Collapse(_, _)
Collapse(s, prevws) == IF s = <<>> THEN <<>>
                       ELSE IF Head(s) \in WS THEN (IF prevws THEN Collapse(Tail(s), TRUE) ELSE <<"sp">> \o Collapse(Tail(s), TRUE))
                       ELSE <<Head(s)>> \o Collapse(Tail(s), FALSE)
TrimEnd(s) == IF s # <<>> /\ s[Len(s)] = "sp" THEN SubSeq(s, 1, Len(s) - 1) ELSE s
Norm(s) == TrimEnd(Collapse(s, TRUE))
\* the pieces of an element: text runs and child elements, in order
OwnText(n) == Cat([i \in 1..Len(n.kids) |-> IF n.kids[i].k = "t" THEN n.kids[i].s ELSE <<>>])
HasOwnText(n) == \E i \in 1..Len(OwnText(n)) : OwnText(n)[i] \notin WS
ElemKids(n) == SelectSeq(n.kids, LAMBDA x : x.k = "e")
AttrSet(n) == {<<n.attrs[i][1], Norm(n.attrs[i][2])>> : i \in 1..Len(n.attrs)}
\* C06 recovery: same element structure, attributes (values modulo whitespace), and for every element the text
\* between consecutive child elements equal modulo whitespace cleaning
RECURSIVE Segs(_, _)
Segs(kids, cur) == IF kids = <<>> THEN <<Norm(cur)>>
                   ELSE IF Head(kids).k = "t" THEN Segs(Tail(kids), cur \o Head(kids).s)
                   ELSE <<Norm(cur)>> \o Segs(Tail(kids), <<>>)
RECURSIVE SameData(_, _)
SameData(a, b) == /\ a.tag = b.tag /\ AttrSet(a) = AttrSet(b)
                  /\ Len(ElemKids(a)) = Len(ElemKids(b))
                  /\ Segs(a.kids, <<>>) = Segs(b.kids, <<>>)
                  /\ \A i \in 1..Len(ElemKids(a)) : SameData(ElemKids(a)[i], ElemKids(b)[i])
\* C15 equivalence: identical trees, except that whitespace-only text is ignored in elements with no text of their own
RECURSIVE SameTree(_, _)
KidsC15(n) == IF HasOwnText(n) THEN n.kids ELSE ElemKids(n)
SameTree(a, b) == /\ a.tag = b.tag /\ {<<a.attrs[i][1], a.attrs[i][2]>> : i \in 1..Len(a.attrs)} = {<<b.attrs[i][1], b.attrs[i][2]>> : i \in 1..Len(b.attrs)}
                  /\ Len(KidsC15(a)) = Len(KidsC15(b))
                  /\ \A i \in 1..Len(KidsC15(a)) :
                        LET x == KidsC15(a)[i] y == KidsC15(b)[i]
                        IN IF x.k = "t" \/ y.k = "t" THEN x = y ELSE SameTree(x, y)

(* ------------------------------------------------------------------ bounded DOMs for model checking *)
CONSTANTS MaxStr, MaxKids
Strs(n) == UNION {[1..m -> Chars] : m \in 0..n}
TextNodes == {Text(s) : s \in Strs(MaxStr) \ {<<>>}}
Outputs == {Elem("output", <<<<"value", s>>>>, <<>>) : s \in Strs(1)}
MixedKids == UNION {[1..m -> TextNodes \cup Outputs] : m \in 0..MaxKids}
\* adjacent text nodes cannot be told apart after parsing: the model uses DOMs in which they are already merged
Merged(ks) == \A i \in 1..(Len(ks) - 1) : ~(ks[i].k = "t" /\ ks[i + 1].k = "t")
Labels == {Elem("label", <<>>, ks) : ks \in {k \in MixedKids : Merged(k)}}
SomeLabels == {Elem("label", <<<<"ref", <<"p", "quot">>>>>>, <<>>), Elem("label", <<>>, <<Text(<<"p">>)>>),
               Elem("label", <<>>, <<Text(<<"sp">>), Elem("output", <<<<"value", <<"lt">>>>>>, <<>>)>>),
               Elem("label", <<>>, <<Elem("output", <<<<"value", <<"p">>>>>>, <<>>), Text(<<"amp", "sp">>)>>)}
Groups == {Elem("group", <<<<"ref", <<"p">>>>>>, ks) : ks \in UNION {[1..m -> SomeLabels \cup {Elem("group", <<>>, <<Elem("label", <<>>, <<Text(<<"gt">>)>>)>>)}] : m \in 0..2}}
Doms == Labels \cup Groups

VARIABLE dom
XInit == dom \in Doms
XNext == UNCHANGED dom
XSpec == XInit /\ [][XNext]_dom
WellFormedBothModes == Parse(Compact(dom)).ok /\ Parse(Pretty(dom)).ok                                  \* C01
TextIsData == SameData(Parse(Compact(dom)).node, dom) /\ SameData(Parse(Pretty(dom)).node, dom)         \* C06
PrettyIsCosmetic == SameTree(Parse(Pretty(dom)).node, Parse(Compact(dom)).node)                         \* C15
=============================================================================
