--------------------------- MODULE Trace_RefSyntax --------------------------
(* Conformance of the real reference-syntax check and substitution with RefSyntax.tla.                            *)
(*  "refsyntax" event: one generated cell written into a text cell (label) or an expression cell (relevant) of a   *)
(*  two-question form, the real outcome of convert() and the number of substituted references.                     *)
(*   envelope (violation): never an internal exception; a malformed reference is refused (C17); references that    *)
(*   are all well formed and name the existing question are accepted and each is substituted (C03).                *)
(*   transcription (DRIFT, informational): the real verdict (ok / syntax / unknown) differs from Verdict.          *)
EXTENDS RefSyntax, Json, IOUtils
VARIABLES tid, l
Traces == JsonDeserialize(IOEnv.TRACE_FILE)
Prop == IOEnv.PROP
T == Traces[tid]
Ev == T[l]
Check(name, cond) == IF cond THEN TRUE ELSE (PrintT(<<"AT", tid, l, name>>) /\ FALSE)
CellEnv ==
  LET c == Ev.cell k == Ev.kind IN
  /\ Check("refsyntax_never_crashes", Ev.real.status \in {"ok", "pyxform_error"})
  /\ (Prop = "C17" =>
        /\ Check("malformed_reference_refused", (Malformed(c, k) /\ ~ApostropheHole(c, k)) => Ev.real.status = "pyxform_error")
        /\ Check("malformed_reference_between_apostrophes_refused", ApostropheHole(c, k) => Ev.real.status = "pyxform_error"))
  /\ (Prop = "C03" =>
        /\ Check("well_formed_reference_accepted", WellFormedKnown(c) => Ev.real.status = "ok")
        /\ Check("every_reference_substituted", (WellFormedKnown(c) /\ Ev.real.status = "ok") => Ev.real.nsub = NRefs(c)))
  /\ ((Ev.real.verdict # Verdict(c)) => PrintT(<<"DRIFT", tid>>))
TInit == tid \in 1..Len(Traces) /\ l = 1 /\ cell = <<>> /\ kind = "text"
TStep == /\ l <= Len(T)
         /\ CASE Ev.ev = "refsyntax" -> CellEnv [] OTHER -> FALSE
         /\ l' = l + 1 /\ UNCHANGED <<tid, cell, kind>>
TSpec == TInit /\ [][TStep]_<<tid, l, cell, kind>>
Accepted == (l = Len(T) + 1) => PrintT(<<"ACCEPT", tid>>)
=============================================================================
