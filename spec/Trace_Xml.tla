------------------------------ MODULE Trace_Xml -----------------------------
(* Conformance for XmlWriter.tla.                                                                          *)
(*  "writer" events: a model DOM built with pyxform's real node()/PatchedText and serialised by the real   *)
(*     writexml in both modes; the real token streams must satisfy the three properties (and are compared  *)
(*     with the transcription: a difference that keeps the properties is DRIFT, not a violation).          *)
(*  "doc" events: facts projected from real conversions (compact and pretty): C01 skeleton/well-formedness, *)
(*     C06 per-channel recovery of hostile text, C15 per-element equality of the two modes.                *)
EXTENDS XmlWriter, Json, IOUtils
VARIABLES tid, l
Traces == JsonDeserialize(IOEnv.TRACE_FILE)
Prop == IOEnv.PROP
T == Traces[tid]
Ev == T[l]
Check(name, cond) == IF cond THEN TRUE ELSE (PrintT(<<"AT", tid, l, name>>) /\ FALSE)

WriterEnv ==
  LET pc == Parse(Ev.real_c) pp == Parse(Ev.real_p) IN
  /\ Check("writer_wellformed", pc.ok /\ pp.ok)
  /\ Check("recogniser_agrees_with_expat", pc.ok = Ev.expat_c /\ pp.ok = Ev.expat_p)
  /\ Check("writer_text_is_data", SameData(pc.node, Ev.dom) /\ SameData(pp.node, Ev.dom))
  /\ Check("writer_pretty_is_cosmetic", SameTree(pp.node, pc.node))
  /\ ((Ev.real_c # Compact(Ev.dom) \/ Ev.real_p # Pretty(Ev.dom)) => PrintT(<<"DRIFT", tid>>))

Skeleton(f) ==
  /\ f.parse_ok /\ f.n_roots = 1 /\ f.n_decl = 1 /\ Len(f.unbound) = 0
  /\ f.root = "h:html" /\ f.n_title = 1 /\ f.n_model = 1 /\ f.n_body = 1
  /\ Len(f.first_instance_attrs) = 0 /\ f.first_instance_nchild = 1 /\ f.primary_root_has_id /\ f.primary_is_first_instance
C01Env ==
  /\ Check("compact_wellformed_namespace_valid_skeleton", Skeleton(Ev.c01.c))
  /\ Check("pretty_wellformed_namespace_valid_skeleton", Skeleton(Ev.c01.p))
PlainDefaultClasses == {"p", "lt", "gt", "amp", "quot", "apos", "sp", "entity", "dollar", "astral", "rtl", "numref", "tag", "pi", "zwnj", "rlm", "zwsp", "pct"}
C06Env ==
  /\ Check("compact_parses", Ev.c01.c.parse_ok)
  /\ Check("text_recovered_from_its_place",
           \A i \in 1..Len(Ev.channels) : Ev.channels[i].rec.k = "e" /\ SameData(Ev.channels[i].rec, Ev.channels[i].src))
  /\ Check("text_recovered_from_its_place_pretty",
           \A i \in 1..Len(Ev.channels) : Ev.channels[i].rec_p.k = "e" /\ SameData(Ev.channels[i].rec_p, Ev.channels[i].src))
  /\ Check("document_structure_independent_of_text", Ev.skeleton_same)
  \* text with none of the documented expression markers (arithmetic operators, brackets, parentheses, braces, ${..}) is a
  \* static default: it is the literal content of the instance node and adds no action element
  /\ Check("plain_default_is_literal_instance_text",
           (Ev.default_place # "n/a" /\ \A i \in 1..Len(Ev.classes) : Ev.classes[i] \in PlainDefaultClasses) => Ev.default_place = "instance")
C15Env ==
  /\ Check("both_parse", Ev.c01.c.parse_ok /\ Ev.c01.p.parse_ok)
  /\ Check("same_elements_attributes_namespaces", Ev.structure_equal)
  /\ Check("same_text_in_every_text_bearing_element",
           Len(Ev.texts_c) = Len(Ev.texts_p) /\
           \A i \in 1..Len(Ev.texts_c) : Ev.texts_c[i][1] = Ev.texts_p[i][1] /\ SameTree(Ev.texts_p[i][2], Ev.texts_c[i][2]))
DocEnv == /\ Check("converted", Ev.status = "ok")
          /\ (Prop = "C01" => C01Env) /\ (Prop = "C06" => C06Env) /\ (Prop = "C15" => C15Env)
TInit == tid \in 1..Len(Traces) /\ l = 1 /\ dom = [k |-> "none"]
TStep == /\ l <= Len(T)
         /\ CASE Ev.ev = "writer" -> WriterEnv [] Ev.ev = "doc" -> DocEnv [] OTHER -> FALSE
         /\ l' = l + 1 /\ UNCHANGED <<tid, dom>>
TSpec == TInit /\ [][TStep]_<<dom, tid, l>>
Accepted == (l = Len(T) + 1) => PrintT(<<"ACCEPT", tid>>)
=============================================================================
