--------------------------- MODULE Trace_Settings --------------------------
EXTENDS Settings, Json, IOUtils
VARIABLES tid, l
Traces == JsonDeserialize(IOEnv.TRACE_FILE)
T == Traces[tid]
Ev == T[l]
Check(name, cond) == IF cond THEN TRUE ELSE (PrintT(<<"AT", tid, l, name>>) /\ FALSE)
O == Ev.obs
S == Ev.src
Attr(name) == LET X == {i \in 1..Len(O.root_attrs) : O.root_attrs[i][1] = name} IN IF X = {} THEN "" ELSE O.root_attrs[CHOOSE i \in X : TRUE][2]
Sub(name) == LET X == {i \in 1..Len(O.submission) : O.submission[i][1] = name} IN IF X = {} THEN "" ELSE O.submission[CHOOSE i \in X : TRUE][2]
C11Env ==
  /\ Check("title", O.title = ExpTitle(S))
  /\ Check("instance_id", Attr("id") = ExpId(S))
  \* a custom attribute::version may supply the version only when there is no version setting; it never overrides one
  /\ Check("version", Attr("version") = (IF Has(S, "version") THEN Val(S, "version") ELSE Opt(S, "attr_version")))
  /\ Check("root_element_name", O.root = ExpRoot(S))
  /\ Check("instance_name_calculate", O.instance_name = Opt(S, "instance_name"))
  /\ Check("submission_present_iff_needed",
           O.has_submission <=> (Has(S, "submission_url") \/ Has(S, "public_key") \/ Has(S, "auto_send") \/ Has(S, "auto_delete")))
  /\ Check("submission_action", Sub("action") = Opt(S, "submission_url"))
  /\ Check("submission_public_key", Sub("base64RsaPublicKey") = Opt(S, "public_key"))
  /\ Check("submission_auto_send", Sub("orx:auto-send") = Opt(S, "auto_send"))
  /\ Check("submission_auto_delete", Sub("orx:auto-delete") = Opt(S, "auto_delete"))
  /\ Check("submission_no_other_attributes", \A i \in 1..Len(O.submission) :
              O.submission[i][1] \in {"action", "method", "base64RsaPublicKey", "orx:auto-send", "orx:auto-delete"})
  /\ Check("body_class", O.body_class = Opt(S, "style"))
  /\ Check("namespaces_declared", \A i \in 1..Len(S.namespaces) : S.namespaces[i] \in SeqToSet(O.nsdecls))
  /\ Check("standard_namespaces_keep_their_uris", \A i \in 1..Len(S.std_ns) : S.std_ns[i] \in SeqToSet(O.nsdecls))
  /\ Check("no_namespace_invented", \A i \in 1..Len(O.nsdecls) : O.nsdecls[i] \in SeqToSet(S.namespaces) \cup SeqToSet(S.std_ns))
  /\ Check("attribute_plain", Attr("plain_attr") = Opt(S, "attr_plain"))
  /\ Check("attribute_prefixed", Attr("{" \o S.ns_uri \o "}nsattr") = Opt(S, "attr_ns"))
  /\ Check("instance_id_omitted_iff_asked", O.has_instance_id = ~Has(S, "omit_id"))
  /\ Check("instance_xmlns", O.root_ns = (IF Has(S, "instance_xmlns") THEN Val(S, "instance_xmlns") ELSE "http://www.w3.org/2002/xforms"))
  /\ Check("prefix", Attr("odk:prefix") = Opt(S, "prefix"))
  /\ Check("delimiter", Attr("odk:delimiter") = Opt(S, "delimiter"))
  /\ Check("entities_namespace_declared_with_entity", S.ent => "entities=http://www.opendatakit.org/xforms/entities" \in SeqToSet(O.nsdecls))
  /\ Check("no_other_root_attributes", \A i \in 1..Len(O.root_attrs) :
              O.root_attrs[i][1] \in {"id", "version", "plain_attr", "{" \o S.ns_uri \o "}nsattr", "odk:prefix", "odk:delimiter"})
TInit == tid \in 1..Len(Traces) /\ l = 1 /\ on = {} /\ chan = "mem" /\ fname = FALSE /\ ent = FALSE /\ phase = "trace"
TStep == /\ l <= Len(T) /\ Ev.ev = "settings"
         /\ Check("converted", Ev.status = "ok")
         /\ C11Env
         /\ l' = l + 1 /\ UNCHANGED <<tid, svars>>
TSpec == TInit /\ [][TStep]_<<svars, tid, l>>
Accepted == (l = Len(T) + 1) => PrintT(<<"ACCEPT", tid>>)
=============================================================================
