------------------------------ MODULE Gen_Loop ------------------------------
EXTENDS Loop, Json
Emit == (phase = "done") =>
  PrintT(ToJson([choices |-> choices, rows |-> rows, where |-> where, grp |-> grp, translated |-> translated,
                 refused |-> Refused(choices, grp),
                 paths |-> (IF Refused(choices, grp) THEN <<>> ELSE ExpPaths(choices, rows, where, grp)),
                 labels |-> [i \in 1..Len(Kept(choices)) |-> [j \in 1..Len(rows) |-> ExpLabel(rows[j].text, Kept(choices)[i], grp)]]]))
=============================================================================
