---------------------------- MODULE HeaderTable ----------------------------
(* The documented column names and column aliases of the survey, choices and settings sheets, transcribed by   *)
(* tools/gen_headertable.py from the pinned commit (slot names of the element classes; aliases.*_header) and    *)
(* FROZEN here: the specification's own copy.  An alias maps a first header token to one or two tokens.         *)
EXTENDS TLC
Cols_survey == {"_qtd_defaults", "_qtd_kwargs", "action", "bind", "choice_filter", "choices", "control", "default", "extra_data", "guidance_hint", "hint", "instance", "itemset", "label", "list_name", "media", "name", "parameters", "parent", "query", "sms_field", "trigger", "type"}
Alias_survey ==
    ("appearance" :> <<"control", "appearance">>) @@
    ("audio" :> <<"media", "audio">>) @@
    ("autoplay" :> <<"control", "autoplay">>) @@
    ("big-image" :> <<"media", "big-image">>) @@
    ("body" :> <<"control">>) @@
    ("calculate" :> <<"bind", "calculate">>) @@
    ("calculation" :> <<"bind", "calculate">>) @@
    ("caption" :> <<"label">>) @@
    ("command" :> <<"type">>) @@
    ("compact_tag" :> <<"instance", "odk:tag">>) @@
    ("constraining_message" :> <<"bind", "jr:constraintMsg">>) @@
    ("constraint" :> <<"bind", "constraint">>) @@
    ("constraint_message" :> <<"bind", "jr:constraintMsg">>) @@
    ("count" :> <<"control", "jr:count">>) @@
    ("image" :> <<"media", "image">>) @@
    ("jr:count" :> <<"control", "jr:count">>) @@
    ("no_app_error_string" :> <<"bind", "jr:noAppErrorString">>) @@
    ("noapperrorstring" :> <<"bind", "jr:noAppErrorString">>) @@
    ("read_only" :> <<"bind", "readonly">>) @@
    ("readonly" :> <<"bind", "readonly">>) @@
    ("relevance" :> <<"bind", "relevant">>) @@
    ("relevant" :> <<"bind", "relevant">>) @@
    ("repeat_count" :> <<"control", "jr:count">>) @@
    ("required" :> <<"bind", "required">>) @@
    ("required_message" :> <<"bind", "jr:requiredMsg">>) @@
    ("requiredmsg" :> <<"bind", "jr:requiredMsg">>) @@
    ("rows" :> <<"control", "rows">>) @@
    ("save_to" :> <<"bind", "entities:saveto">>) @@
    ("sms_allow_media" :> <<"sms_allow_media">>) @@
    ("sms_date_format" :> <<"sms_date_format">>) @@
    ("sms_datetime_format" :> <<"sms_datetime_format">>) @@
    ("sms_field" :> <<"sms_field">>) @@
    ("sms_option" :> <<"sms_option">>) @@
    ("sms_response" :> <<"sms_response">>) @@
    ("sms_separator" :> <<"sms_separator">>) @@
    ("tag" :> <<"name">>) @@
    ("value" :> <<"name">>) @@
    ("video" :> <<"media", "video">>)
Cols_choices == {"_choice_itext_ref", "extra_data", "label", "media", "name", "parent", "sms_option"}
Alias_choices ==
    ("audio" :> <<"media", "audio">>) @@
    ("big-image" :> <<"media", "big-image">>) @@
    ("caption" :> <<"label">>) @@
    ("image" :> <<"media", "image">>) @@
    ("list_name" :> <<"list name">>) @@
    ("value" :> <<"name">>) @@
    ("video" :> <<"media", "video">>)
Cols_settings == {"_created", "_translations", "_xpath", "add_none_option", "allow_choice_duplicates", "attribute", "auto_delete", "auto_send", "bind", "children", "choices", "clean_text_values", "control", "default_language", "delimiter", "entity_features", "extra_data", "file_name", "flat", "hint", "id_string", "instance", "instance_name", "instance_xmlns", "label", "media", "name", "namespaces", "omit_instanceID", "parent", "prefix", "public_key", "setgeopoint_by_triggering_ref", "setvalues_by_triggering_ref", "sms_allow_media", "sms_date_format", "sms_datetime_format", "sms_field", "sms_keyword", "sms_response", "sms_separator", "style", "submission_url", "title", "type", "version"}
Alias_settings ==
    ("form_id" :> <<"id_string">>) @@
    ("form_title" :> <<"title">>) @@
    ("prefix" :> <<"prefix">>) @@
    ("set_form_id" :> <<"id_string">>) @@
    ("set_form_title" :> <<"title">>)
Spell ==
    ("label" :> {[core |-> "label", snake |-> "label"], [core |-> "Label", snake |-> "label"], [core |-> "LABEL", snake |-> "label"]}) @@
    ("hint" :> {[core |-> "hint", snake |-> "hint"], [core |-> "Hint", snake |-> "hint"], [core |-> "HINT", snake |-> "hint"]}) @@
    ("guidance_hint" :> {[core |-> "guidance_hint", snake |-> "guidance_hint"], [core |-> "Guidance_hint", snake |-> "guidance_hint"], [core |-> "GUIDANCE_HINT", snake |-> "guidance_hint"], [core |-> "guidance hint", snake |-> "guidance_hint"], [core |-> "Guidance  Hint", snake |-> "guidance_hint"]}) @@
    ("constraint_message" :> {[core |-> "constraint_message", snake |-> "constraint_message"], [core |-> "Constraint_message", snake |-> "constraint_message"], [core |-> "CONSTRAINT_MESSAGE", snake |-> "constraint_message"], [core |-> "constraint message", snake |-> "constraint_message"], [core |-> "Constraint  Message", snake |-> "constraint_message"]}) @@
    ("required_message" :> {[core |-> "required_message", snake |-> "required_message"], [core |-> "Required_message", snake |-> "required_message"], [core |-> "REQUIRED_MESSAGE", snake |-> "required_message"], [core |-> "required message", snake |-> "required_message"], [core |-> "Required  Message", snake |-> "required_message"]}) @@
    ("relevant" :> {[core |-> "relevant", snake |-> "relevant"], [core |-> "Relevant", snake |-> "relevant"], [core |-> "RELEVANT", snake |-> "relevant"]}) @@
    ("relevance" :> {[core |-> "relevance", snake |-> "relevance"], [core |-> "Relevance", snake |-> "relevance"], [core |-> "RELEVANCE", snake |-> "relevance"]}) @@
    ("read_only" :> {[core |-> "read_only", snake |-> "read_only"], [core |-> "Read_only", snake |-> "read_only"], [core |-> "READ_ONLY", snake |-> "read_only"], [core |-> "read only", snake |-> "read_only"], [core |-> "Read  Only", snake |-> "read_only"]}) @@
    ("readonly" :> {[core |-> "readonly", snake |-> "readonly"], [core |-> "Readonly", snake |-> "readonly"], [core |-> "READONLY", snake |-> "readonly"]}) @@
    ("calculation" :> {[core |-> "calculation", snake |-> "calculation"], [core |-> "Calculation", snake |-> "calculation"], [core |-> "CALCULATION", snake |-> "calculation"]}) @@
    ("calculate" :> {[core |-> "calculate", snake |-> "calculate"], [core |-> "Calculate", snake |-> "calculate"], [core |-> "CALCULATE", snake |-> "calculate"]}) @@
    ("caption" :> {[core |-> "caption", snake |-> "caption"], [core |-> "Caption", snake |-> "caption"], [core |-> "CAPTION", snake |-> "caption"]}) @@
    ("image" :> {[core |-> "image", snake |-> "image"], [core |-> "Image", snake |-> "image"], [core |-> "IMAGE", snake |-> "image"]}) @@
    ("audio" :> {[core |-> "audio", snake |-> "audio"], [core |-> "Audio", snake |-> "audio"], [core |-> "AUDIO", snake |-> "audio"]}) @@
    ("media" :> {[core |-> "media", snake |-> "media"], [core |-> "Media", snake |-> "media"], [core |-> "MEDIA", snake |-> "media"]}) @@
    ("bind" :> {[core |-> "bind", snake |-> "bind"], [core |-> "Bind", snake |-> "bind"], [core |-> "BIND", snake |-> "bind"]}) @@
    ("body" :> {[core |-> "body", snake |-> "body"], [core |-> "Body", snake |-> "body"], [core |-> "BODY", snake |-> "body"]}) @@
    ("control" :> {[core |-> "control", snake |-> "control"], [core |-> "Control", snake |-> "control"], [core |-> "CONTROL", snake |-> "control"]}) @@
    ("instance" :> {[core |-> "instance", snake |-> "instance"], [core |-> "Instance", snake |-> "instance"], [core |-> "INSTANCE", snake |-> "instance"]}) @@
    ("appearance" :> {[core |-> "appearance", snake |-> "appearance"], [core |-> "Appearance", snake |-> "appearance"], [core |-> "APPEARANCE", snake |-> "appearance"]}) @@
    ("repeat_count" :> {[core |-> "repeat_count", snake |-> "repeat_count"], [core |-> "Repeat_count", snake |-> "repeat_count"], [core |-> "REPEAT_COUNT", snake |-> "repeat_count"], [core |-> "repeat count", snake |-> "repeat_count"], [core |-> "Repeat  Count", snake |-> "repeat_count"]}) @@
    ("choice_filter" :> {[core |-> "choice_filter", snake |-> "choice_filter"], [core |-> "Choice_filter", snake |-> "choice_filter"], [core |-> "CHOICE_FILTER", snake |-> "choice_filter"], [core |-> "choice filter", snake |-> "choice_filter"], [core |-> "Choice  Filter", snake |-> "choice_filter"]}) @@
    ("mycol" :> {[core |-> "mycol", snake |-> "mycol"], [core |-> "Mycol", snake |-> "mycol"], [core |-> "MYCOL", snake |-> "mycol"]}) @@
    ("type" :> {[core |-> "type", snake |-> "type"], [core |-> "Type", snake |-> "type"], [core |-> "TYPE", snake |-> "type"]}) @@
    ("name" :> {[core |-> "name", snake |-> "name"], [core |-> "Name", snake |-> "name"], [core |-> "NAME", snake |-> "name"]}) @@
    ("list_name" :> {[core |-> "list_name", snake |-> "list_name"], [core |-> "List_name", snake |-> "list_name"], [core |-> "LIST_NAME", snake |-> "list_name"], [core |-> "list name", snake |-> "list_name"], [core |-> "List  Name", snake |-> "list_name"]}) @@
    ("value" :> {[core |-> "value", snake |-> "value"], [core |-> "Value", snake |-> "value"], [core |-> "VALUE", snake |-> "value"]}) @@
    ("form_title" :> {[core |-> "form_title", snake |-> "form_title"], [core |-> "Form_title", snake |-> "form_title"], [core |-> "FORM_TITLE", snake |-> "form_title"], [core |-> "form title", snake |-> "form_title"], [core |-> "Form  Title", snake |-> "form_title"]}) @@
    ("title" :> {[core |-> "title", snake |-> "title"], [core |-> "Title", snake |-> "title"], [core |-> "TITLE", snake |-> "title"]}) @@
    ("form_id" :> {[core |-> "form_id", snake |-> "form_id"], [core |-> "Form_id", snake |-> "form_id"], [core |-> "FORM_ID", snake |-> "form_id"], [core |-> "form id", snake |-> "form_id"], [core |-> "Form  Id", snake |-> "form_id"]}) @@
    ("id_string" :> {[core |-> "id_string", snake |-> "id_string"], [core |-> "Id_string", snake |-> "id_string"], [core |-> "ID_STRING", snake |-> "id_string"], [core |-> "id string", snake |-> "id_string"], [core |-> "Id  String", snake |-> "id_string"]}) @@
    ("set_form_id" :> {[core |-> "set_form_id", snake |-> "set_form_id"], [core |-> "Set_form_id", snake |-> "set_form_id"], [core |-> "SET_FORM_ID", snake |-> "set_form_id"], [core |-> "set form id", snake |-> "set_form_id"], [core |-> "Set  Form  Id", snake |-> "set_form_id"]}) @@
    ("prefix" :> {[core |-> "prefix", snake |-> "prefix"], [core |-> "Prefix", snake |-> "prefix"], [core |-> "PREFIX", snake |-> "prefix"]}) @@
    ("attribute" :> {[core |-> "attribute", snake |-> "attribute"], [core |-> "Attribute", snake |-> "attribute"], [core |-> "ATTRIBUTE", snake |-> "attribute"]}) @@
    ("namespaces" :> {[core |-> "namespaces", snake |-> "namespaces"], [core |-> "Namespaces", snake |-> "namespaces"], [core |-> "NAMESPACES", snake |-> "namespaces"]}) @@
    ("count" :> {[core |-> "count", snake |-> "count"], [core |-> "Count", snake |-> "count"], [core |-> "COUNT", snake |-> "count"]}) @@
    ("jr" :> {[core |-> "jr", snake |-> "jr"], [core |-> "Jr", snake |-> "jr"], [core |-> "JR", snake |-> "jr"]}) @@
    ("default" :> {[core |-> "default", snake |-> "default"], [core |-> "Default", snake |-> "default"], [core |-> "DEFAULT", snake |-> "default"]}) @@
    ("required" :> {[core |-> "required", snake |-> "required"], [core |-> "Required", snake |-> "required"], [core |-> "REQUIRED", snake |-> "required"]}) @@
    ("constraint" :> {[core |-> "constraint", snake |-> "constraint"], [core |-> "Constraint", snake |-> "constraint"], [core |-> "CONSTRAINT", snake |-> "constraint"]}) @@
    ("version" :> {[core |-> "version", snake |-> "version"], [core |-> "Version", snake |-> "version"], [core |-> "VERSION", snake |-> "version"]}) @@
    ("trigger" :> {[core |-> "trigger", snake |-> "trigger"], [core |-> "Trigger", snake |-> "trigger"], [core |-> "TRIGGER", snake |-> "trigger"]}) @@
    ("parameters" :> {[core |-> "parameters", snake |-> "parameters"], [core |-> "Parameters", snake |-> "parameters"], [core |-> "PARAMETERS", snake |-> "parameters"]})
Cols(s) == CASE s = "survey" -> Cols_survey [] s = "choices" -> Cols_choices [] s = "settings" -> Cols_settings
Alias(s) == CASE s = "survey" -> Alias_survey [] s = "choices" -> Alias_choices [] s = "settings" -> Alias_settings
=============================================================================
