---------------------------- MODULE InstanceExpr ----------------------------
(***************************************************************************)
(* instance() expressions inside label / hint text (C06: the text around   *)
(* them stays text and each expression becomes one <output/>; C03: a       *)
(* ${name} inside a predicate is resolved).                                *)
(*                                                                         *)
(* parsing/instance_expression.find_boundaries is a token-level state      *)
(* machine (instance_enter / path_enter / pred_enter / last_token); this   *)
(* module has                                                              *)
(*   Bounds(ts)  - its TRANSCRIPTION for any token sequence, and           *)
(*   the ENVELOPE by construction: the generator builds a text from        *)
(*   plain-text tokens and whole expressions                               *)
(*        instance('id') ( / step | / step[ predicate ] )*                 *)
(*   and records where each expression starts and ends (`spans`); the      *)
(*   documented presumptions (whitespace ends a path; anything may stand   *)
(*   inside a predicate) say those spans are the boundaries.               *)
(***************************************************************************)
EXTENDS Naturals, Sequences, FiniteSets, TLC

\* token kinds (the harness writes each as the text on the right; all are single lexer tokens)
\*   inst instance(   lit 'cities'   close )   sep /   name nm   pstart item[   pend ]   ws ' '   num 1   comma ,   eq =   ref ${q0}   func count(
Kinds == {"inst", "lit", "close", "sep", "name", "pstart", "pend", "ws", "num", "comma", "eq", "ref", "func"}
\* two neighbours that the lexer would read as one token (or another one) are never generated
Glue(a, b) == \/ (a = "name" /\ b \in {"name", "num", "pstart", "inst", "func"})
              \/ (a = "num" /\ b = "num") \/ (a = "ws" /\ b = "ws")

(* ---- transcription of find_boundaries: state after each token *)
\* ie / pe / pr: instance_enter / path_enter / pred_enter; last: index of the last emitted token (0 = None); marks: the boundary list (token indexes)
BInit == [ie |-> FALSE, pe |-> FALSE, pr |-> FALSE, last |-> 0, marks |-> <<>>]
BStep(s, ts, i) ==
  LET t == ts[i]
      lk == IF s.last = 0 THEN "none" ELSE ts[s.last]
  IN IF ~s.ie /\ t = "inst" THEN [s EXCEPT !.ie = TRUE, !.marks = Append(@, i), !.last = i]
     ELSE IF ~s.ie THEN s
     ELSE LET r == \* <<emit, pe', pr'>>
                   IF t = "lit" /\ lk = "inst" THEN <<TRUE, s.pe, s.pr>>
                   ELSE IF lk = "lit" /\ t = "close" THEN <<TRUE, s.pe, s.pr>>
                   ELSE IF t = "sep" /\ lk \in {"close", "pend"} THEN <<TRUE, TRUE, s.pr>>
                   ELSE IF s.pe THEN (IF t = "ws" THEN <<FALSE, FALSE, s.pr>>
                                      ELSE IF t # "pstart" THEN <<TRUE, TRUE, s.pr>>
                                      ELSE <<TRUE, FALSE, TRUE>>)
                   ELSE IF s.pr THEN (IF t # "pend" THEN <<TRUE, s.pe, TRUE>> ELSE <<TRUE, s.pe, FALSE>>)
                   ELSE <<FALSE, s.pe, s.pr>>
          IN IF r[1] THEN [s EXCEPT !.pe = r[2], !.pr = r[3], !.last = i]
             ELSE [s EXCEPT !.pe = r[2], !.pr = r[3], !.ie = FALSE, !.marks = Append(@, s.last)]
RECURSIVE BRun(_, _, _)
BRun(s, ts, i) == IF i > Len(ts) THEN s ELSE BRun(BStep(s, ts, i), ts, i + 1)
\* at the end the last emitted token closes whatever is open (a stray closing mark is dropped by the pairing)
Marks(ts) == LET s == BRun(BInit, ts, 1) IN IF s.last # 0 THEN Append(s.marks, s.last) ELSE s.marks
Bounds(ts) == LET m == Marks(ts) IN [n \in 1..(Len(m) \div 2) |-> <<m[2 * n - 1], m[2 * n]>>]

(* ---- generator: text and expressions by construction *)
CONSTANTS MaxTokens, Wild      \* Wild: any token sequence (transcription only); otherwise texts built from plain tokens and whole expressions
VARIABLES toks,     \* the text so far, as token kinds
          spans,    \* <<first, last>> of every finished expression
          open,     \* 0, or the index where the expression being built starts
          inpred,   \* inside the predicate of the open expression
          idone
ievars == <<toks, spans, open, inpred, idone>>
IEInit == toks = <<>> /\ spans = <<>> /\ open = 0 /\ inpred = FALSE /\ idone = FALSE
LastK == IF toks = <<>> THEN "none" ELSE toks[Len(toks)]
Room(n) == Len(toks) + n <= MaxTokens
Put(ts) == toks' = toks \o ts
\* plain text between expressions; directly after an expression only whitespace may follow (the documented terminator)
PlainKinds == {"name", "ws", "comma", "eq"}
AfterExpr == spans # <<>> /\ spans[Len(spans)][2] = Len(toks)
AddPlain == /\ ~Wild /\ ~idone /\ open = 0 /\ Room(1)
            /\ \E t \in PlainKinds : ~Glue(LastK, t) /\ (AfterExpr => t = "ws") /\ Put(<<t>>)
            /\ UNCHANGED <<spans, open, inpred, idone>>
BeginExpr == /\ ~Wild /\ ~idone /\ open = 0 /\ Room(3) /\ ~Glue(LastK, "inst") /\ ~AfterExpr
             /\ Put(<<"inst", "lit", "close">>) /\ open' = Len(toks) + 1
             /\ UNCHANGED <<spans, inpred, idone>>
AddStep == /\ ~Wild /\ ~idone /\ open # 0 /\ ~inpred /\ Room(2)
           /\ Put(<<"sep", "name">>) /\ UNCHANGED <<spans, open, inpred, idone>>
OpenPred == /\ ~Wild /\ ~idone /\ open # 0 /\ ~inpred /\ Room(3)      \* room for the closing bracket too
            /\ Put(<<"sep", "pstart">>) /\ inpred' = TRUE /\ UNCHANGED <<spans, open, idone>>
\* inside a predicate anything may stand - but no bracket of its own and no instance() followed by a blank (two named quirks, see below)
PredKinds == {"name", "ws", "num", "comma", "eq", "ref", "lit", "func", "close"}
PredTok == /\ ~Wild /\ ~idone /\ inpred /\ Room(2)
           /\ \E t \in PredKinds : ~Glue(LastK, t) /\ Put(<<t>>)
           /\ UNCHANGED <<spans, open, inpred, idone>>
ClosePred == /\ ~Wild /\ ~idone /\ inpred /\ Room(1)
             /\ Put(<<"pend">>) /\ inpred' = FALSE /\ UNCHANGED <<spans, open, idone>>
EndExpr == /\ ~Wild /\ ~idone /\ open # 0 /\ ~inpred
           /\ spans' = Append(spans, <<open, Len(toks)>>) /\ open' = 0 /\ UNCHANGED <<toks, inpred, idone>>
AddAny == /\ Wild /\ ~idone /\ Room(1)
          /\ \E t \in Kinds : ~Glue(LastK, t) /\ Put(<<t>>)
          /\ UNCHANGED <<spans, open, inpred, idone>>
IEFinish == ~idone /\ open = 0 /\ toks # <<>> /\ (Wild \/ (toks[1] # "ws" /\ LastK # "ws")) /\ idone' = TRUE /\ UNCHANGED <<toks, spans, open, inpred>>
IENext == AddPlain \/ BeginExpr \/ AddStep \/ OpenPred \/ PredTok \/ ClosePred \/ EndExpr \/ AddAny \/ IEFinish
IESpec == IEInit /\ [][IENext]_ievars

(* ---- what the label of the form must then hold: the text pieces around the expressions and one output per expression *)
Txt(k) == CASE k = "inst" -> "instance(" [] k = "lit" -> "'cities'" [] k = "close" -> ")" [] k = "sep" -> "/" [] k = "name" -> "nm"
            [] k = "pstart" -> "item[" [] k = "pend" -> "]" [] k = "ws" -> " " [] k = "num" -> "1" [] k = "comma" -> ","
            [] k = "eq" -> "=" [] k = "ref" -> "${q0}" [] OTHER -> "count("
\* inside an output a reference is replaced by the path of the question it names
TxtOut(k) == IF k = "ref" THEN " /data/q0 " ELSE Txt(k)
RECURSIVE Cat(_, _, _, _)
Cat(ts, a, b, out) == IF a > b THEN "" ELSE (IF out THEN TxtOut(ts[a]) ELSE Txt(ts[a])) \o Cat(ts, a + 1, b, out)
OutValues(ts, sp) == [n \in 1..Len(sp) |-> Cat(ts, sp[n][1], sp[n][2], TRUE)]
TextPieces(ts, sp) == [n \in 1..(Len(sp) + 1) |->
                         Cat(ts, IF n = 1 THEN 1 ELSE sp[n - 1][2] + 1, IF n = Len(sp) + 1 THEN Len(ts) ELSE sp[n][1] - 1, FALSE)]

(* ---- design checks: transcription inside the envelope; shape of what the machine returns *)
TranscriptionMeetsEnvelope == (idone /\ ~Wild) => Bounds(toks) = spans
\* whatever the text: boundaries are ordered, disjoint, inside the text, and every one starts at an instance( token
BoundsWellFormed == LET b == Bounds(toks) IN
  /\ \A n \in 1..Len(b) : 1 <= b[n][1] /\ b[n][1] <= b[n][2] /\ b[n][2] <= Len(toks) /\ toks[b[n][1]] = "inst"
  /\ \A n \in 1..(Len(b) - 1) : b[n][2] < b[n + 1][1]
\* two quirks of the machine the envelope stays clear of (kept as named predicates so that the model says where they are):
\*  ImplQuirk_NestedPredicate: pred_enter is a flag, not a depth - the first ] closes the predicate, a nested one is cut
\*  ImplQuirk_InnerPathBlank: an instance() path inside a predicate sets path_enter again; the next blank then ends the OUTER expression
=============================================================================
