-------------------------- MODULE Trace_TypeParams --------------------------
(* One trace = one converted form whose row under test carries the case's parameters cell:                              *)
(*   <<[ev "typeparams", case, real: [status, mentions (keys named by the error message), row (message cites the row),  *)
(*      facts (<<place, attr, value>> found on the row's bind / control / action, owned attributes only), rtype,         *)
(*      randomized, seed, warn]]>>                                                                                     *)
(*  envelope clauses are Check()ed; a difference from the transcription inside the envelope prints DRIFT.              *)
EXTENDS TypeParams, Json, IOUtils
VARIABLES tid, l
Traces == JsonDeserialize(IOEnv.TRACE_FILE)
T == Traces[tid]
Ev == T[l]
Prop == IOEnv.PROP                      \* which property's clauses are being decided ("all": every clause)
Check(name, props, cond) == IF (Prop # "all" /\ Prop \notin props) \/ cond THEN TRUE ELSE (PrintT(<<"AT", tid, l, name>>) /\ FALSE)
RealFacts == {<<Ev.real.facts[n][1], Ev.real.facts[n][2], Ev.real.facts[n][3]>> : n \in 1..Len(Ev.real.facts)}
At(fs, places) == {f \in fs : f[1] \in places}
Mentions == {Ev.real.mentions[n] : n \in 1..Len(Ev.real.mentions)}
Case == [type |-> Ev.case.type, app |-> Ev.case.app, params |-> [n \in 1..Len(Ev.case.params) |-> <<Ev.case.params[n][1], Ev.case.params[n][2]>>]]
TInit == tid \in 1..Len(Traces) /\ l = 1 /\ tcase = [type |-> "integer", app |-> "none", params |-> <<>>] /\ tdone = FALSE
TStep == /\ l <= Len(T) /\ Ev.ev = "typeparams"
         /\ LET c == Case  e == Expect(c)  st == Ev.real.status  both == e.ok /\ st = "ok" IN
            /\ Check("never_crashes", {"C17"}, st \in {"ok", "pyxform_error"})
            /\ Check("bad_parameters_are_refused", {"C17"}, ~e.ok => st # "ok")
            /\ Check("good_parameters_are_accepted", {"C05", "C04"}, e.ok => st # "pyxform_error")
            \* the diagnosis names a parameter that is at fault (for location: one of the group of three) - or cites the row
            /\ Check("refusal_names_the_parameter", {"C17"}, (~e.ok /\ st = "pyxform_error") => (Mentions \cap e.bad # {} \/ Ev.real.row))
            /\ Check("bind_attributes_reach_the_form", {"C05"}, both => At(e.facts, {"bind"}) \subseteq RealFacts)
            /\ Check("no_bind_attribute_from_nowhere", {"C05"}, both => At(RealFacts, {"bind"}) \subseteq e.facts)
            /\ Check("control_attributes_reach_the_form", {"C04"}, both => At(e.facts, {"control", "action"}) \subseteq RealFacts)
            /\ Check("no_control_attribute_from_nowhere", {"C04"}, both => At(RealFacts, {"control", "action"}) \subseteq e.facts)
            /\ Check("range_type_follows_its_parameters", {"C05"}, (both /\ c.type = "range") =>
                        /\ (RangeDecimalMust(c) => Ev.real.rtype = "decimal")
                        /\ (RangeIntMust(c) => Ev.real.rtype = "int")
                        /\ Ev.real.rtype \in {"int", "decimal"})
            /\ Check("randomize_iff_asked", {"C09"}, both => Ev.real.randomized = e.randomized)
            /\ Check("seed_reaches_randomize", {"C09"}, both => Ev.real.seed = e.seed)
            /\ Check("max_pixels_advice_iff_missing", {"C20"}, both => Ev.real.warn = e.warn)
            /\ ((both /\ c.type = "range" /\ Ev.real.rtype # e.rtype) => PrintT(<<"DRIFT", tid>>))
         /\ l' = l + 1 /\ UNCHANGED <<tid, tpvars>>
TSpec == TInit /\ [][TStep]_<<tpvars, tid, l>>
TAccepted == (l = Len(T) + 1) => PrintT(<<"ACCEPT", tid>>)
=============================================================================
