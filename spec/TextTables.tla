----------------------------- MODULE TextTables -----------------------------
(***************************************************************************)
(* The two text containers of an XLSForm - Markdown tables and CSV - read  *)
(* line by line (C12 the container does not matter; C13 layout noise;      *)
(* C17 the readers never crash).  Workbook.tla specifies the spreadsheet   *)
(* readers' empty-run scan; this module specifies the line machines of     *)
(* xls2json_backends._md_table_to_ss_structure / md_to_dict (552-632) and  *)
(* csv_to_dict.process_csv_data (381-424).                                 *)
(*                                                                         *)
(* A text is a sequence of lines:                                          *)
(*   [k "row", first (sheet-name column, "" = empty), cells (Seq of cell)] *)
(*   [k "sep"]      |---|---|            (Markdown only; CSV: no line)     *)
(*   [k "comment"]  # remark             (Markdown only; CSV: no line)     *)
(*   [k "empty"]    a blank line                                          *)
(*                                                                         *)
(*   Canon(ls)    - ENVELOPE: the workbook a documented text denotes.      *)
(*   MdRead(ls), CsvRead(ls) - TRANSCRIPTIONS of the two readers for any   *)
(*                  line sequence, with their differences named.           *)
(***************************************************************************)
EXTENDS Naturals, Sequences, FiniteSets, TLC

Supported == {"survey", "choices", "settings"}
\* sheet-name tokens and their lower-case form
Lower(n) == CASE n = "Survey" -> "survey" [] n = "CHOICES" -> "choices" [] OTHER -> n
Row(first, cells) == [k |-> "row", first |-> first, cells |-> cells]
IsRow(ln) == ln.k = "row"
Blank(cells) == \A i \in 1..Len(cells) : cells[i] = ""

(* a reading: status + sheets as a sequence of [name, header: Seq(cell), rows: Seq(set of <<column, value>>)] *)
Pairs(header, cells) == {<<header[i], cells[i]>> : i \in {j \in 1..Len(cells) : j <= Len(header) /\ cells[j] # ""}}
Ok(sheets) == [status |-> "ok", sheets |-> sheets]
Refused == [status |-> "refused", sheets |-> <<>>]
Crash(why) == [status |-> "crash", why |-> why, sheets |-> <<>>]

(* ---- envelope: the documented shape and what it denotes *)
\* blocks: a sheet line that carries only the name, then a header line, then data lines no wider than the header; noise anywhere after the first sheet line
NoiseLine(ln) == ln.k \in {"sep", "comment", "empty"} \/ (IsRow(ln) /\ ln.first = "" /\ Blank(ln.cells))
SheetLine(ln) == IsRow(ln) /\ ln.first # ""
Table(ls) == SelectSeq(ls, LAMBDA ln : ~NoiseLine(ln))
RECURSIVE Attach(_, _)
Attach(t, blocks) ==   \* put every non-sheet line into the block of the sheet line before it
  IF t = <<>> THEN blocks
  ELSE IF SheetLine(Head(t)) THEN Attach(Tail(t), Append(blocks, [name |-> Head(t).first, own |-> Head(t).cells, lines |-> <<>>]))
  ELSE IF blocks = <<>> THEN Attach(Tail(t), <<[name |-> "", own |-> <<>>, lines |-> <<Head(t).cells>>]>>)
  ELSE Attach(Tail(t), [blocks EXCEPT ![Len(blocks)].lines = Append(@, Head(t).cells)])
Blocks(ls) == Attach(Table(ls), <<>>)
InDomain(ls) ==
  LET b == Blocks(ls) IN
  /\ Len(b) > 0
  /\ \A i \in 1..Len(b) : /\ b[i].name \in Supported /\ Blank(b[i].own)
                          /\ Len(b[i].lines) >= 1
                          /\ \A c \in 1..Len(b[i].lines[1]) : b[i].lines[1][c] # ""
                          /\ \A c, d \in 1..Len(b[i].lines[1]) : c # d => b[i].lines[1][c] # b[i].lines[1][d]
                          /\ \A r \in 2..Len(b[i].lines) : Len(b[i].lines[r]) <= Len(b[i].lines[1])
  /\ \A i, j \in 1..Len(b) : i # j => b[i].name # b[j].name
  /\ (Len(ls) > 0 /\ SheetLine(ls[1]))
Canon(ls) == LET b == Blocks(ls) IN
  Ok([i \in 1..Len(b) |-> [name |-> b[i].name, header |-> b[i].lines[1],
                            rows |-> [r \in 1..(Len(b[i].lines) - 1) |-> Pairs(b[i].lines[1], b[i].lines[r + 1])]]])

(* ---- transcription: the Markdown reader *)
\* state: cur (name of the sheet being filled, "none" before the first), tabs: Seq([name, lines]) in first-seen order, orphan: something came before any sheet
MdInit == [cur |-> "none", tabs |-> <<>>, orphan |-> FALSE]
Idx(tabs, n) == CHOOSE i \in 1..Len(tabs) : tabs[i].name = n
Known(tabs, n) == \E i \in 1..Len(tabs) : tabs[i].name = n
\* a sheet line opens a fresh list under its name; a name seen before keeps its place and loses its lines (ImplQuirk_MdRepeatedSheetReplaces)
Open(tabs, n) == IF Known(tabs, n) THEN [tabs EXCEPT ![Idx(tabs, n)].lines = <<>>] ELSE Append(tabs, [name |-> n, lines |-> <<>>])
MdStep(s, ln) ==
  IF ln.k \in {"comment", "empty"} THEN s
  ELSE IF ln.k = "sep" THEN (IF s.cur = "none" THEN [s EXCEPT !.orphan = TRUE] ELSE s)   \* ImplQuirk_MdLeadingSeparator
  ELSE LET s1 == IF ln.first # "" THEN [s EXCEPT !.cur = ln.first, !.tabs = Open(s.tabs, ln.first)] ELSE s IN
       IF s1.cur = "none" THEN [s1 EXCEPT !.orphan = TRUE]
       ELSE IF Blank(ln.cells) THEN s1
       ELSE [s1 EXCEPT !.tabs[Idx(s1.tabs, s1.cur)].lines = Append(@, ln.cells)]   \* the sheet line's own cells count as a line of the sheet
RECURSIVE MdFold(_, _)
MdFold(s, ls) == IF ls = <<>> THEN s ELSE MdFold(MdStep(s, Head(ls)), Tail(ls))
\* the readers first sniff the text: a Markdown table has at least 5 pipes, a CSV at least 4 commas (is_markdown_table / is_csv)
RECURSIVE Count(_, _)
Count(ls, md) == IF ls = <<>> THEN 0
                 ELSE Count(Tail(ls), md) + (LET ln == Head(ls) IN
                        IF IsRow(ln) THEN (IF md THEN Len(ln.cells) + 2 ELSE Len(ln.cells))
                        ELSE IF ln.k = "sep" /\ md THEN 3 ELSE 0)
MdSniff(ls) == Count(ls, TRUE) >= 5
CsvSniff(ls) == Count(ls, FALSE) >= 4
TooWide(tab) == \E r \in 2..Len(tab.lines) : \E c \in 1..Len(tab.lines[r]) : c > Len(tab.lines[1]) /\ tab.lines[r][c] # ""
\* a header is kept as the keys of a dictionary: a repeated cell is listed once, at its first place
Dedup(h) == LET idx == SelectSeq([i \in 1..Len(h) |-> i], LAMBDA i : \A j \in 1..(i - 1) : h[j] # h[i]) IN [n \in 1..Len(idx) |-> h[idx[n]]]
Sheet(n, lines) == [name |-> n, header |-> IF lines = <<>> THEN <<>> ELSE Dedup(lines[1]),
                    rows |-> IF lines = <<>> THEN <<>> ELSE [r \in 1..(Len(lines) - 1) |-> Pairs(lines[1], lines[r + 1])]]
\* which tabs become sheets of the workbook: supported names (lower-cased); a single unsupported tab is taken as the survey
Kept(tabs) == SelectSeq(tabs, LAMBDA t : Lower(t.name) \in Supported \/ Len(tabs) = 1)
KeptName(tabs, t) == IF Lower(t.name) \in Supported THEN Lower(t.name) ELSE "survey"
MdRead(ls) ==
  LET s == MdFold(MdInit, ls)  k == Kept(s.tabs) IN
  IF ~MdSniff(ls) \/ s.orphan THEN Refused
  ELSE \* two spellings of one sheet name end up under one key: the place of the first, the content of the last
       LET kn(i) == KeptName(s.tabs, k[i])
           firsts == SelectSeq([i \in 1..Len(k) |-> i], LAMBDA i : \A j \in 1..(i - 1) : kn(j) # kn(i))
           last(i) == CHOOSE j \in 1..Len(k) : kn(j) = kn(i) /\ \A m \in (j + 1)..Len(k) : kn(m) # kn(i)
       IN Ok([n \in 1..Len(firsts) |-> Sheet(kn(firsts[n]), k[last(firsts[n])].lines)])
\* what the unrepaired reader did on two shapes (kept for the record: both raised IndexError out of convert())
MdCrashedBeforeRepair(ls) == LET s == MdFold(MdInit, ls)  k == Kept(s.tabs) IN
  MdSniff(ls) /\ ~s.orphan /\ \E i \in 1..Len(k) : k[i].lines = <<>> \/ TooWide(k[i])

(* ---- transcription: the CSV reader *)
\* state: cur ("none" before the first sheet line; the name, lower-cased when the line opened a sheet), hdr ("none" or the header), tabs as above with a header field
CsvInit == [cur |-> "none", hdr |-> <<"none">>, tabs |-> <<>>]
CsvStep(s, ln) ==
  IF ~IsRow(ln) THEN s      \* blank line; separators and comments do not exist in CSV
  ELSE LET s1 == IF ln.first = "" THEN s
                 ELSE LET n == Lower(ln.first)
                          \* `sheet_name not in _dict` compares the name AS WRITTEN with the lower-case keys:
                          \* a repeated sheet line in the same spelling continues the sheet, in another spelling it empties it (ImplQuirk_CsvRepeatedSheet)
                          fresh == ~Known(s.tabs, ln.first)
                      IN [cur |-> IF fresh THEN n ELSE ln.first, hdr |-> <<"none">>,
                          tabs |-> IF ~fresh \/ n \notin Supported THEN s.tabs
                                   ELSE IF Known(s.tabs, n) THEN [s.tabs EXCEPT ![Idx(s.tabs, n)].lines = <<>>]
                                   ELSE Append(s.tabs, [name |-> n, header |-> <<"none">>, lines |-> <<>>])]
       IN IF Blank(ln.cells) \/ ~Known(s1.tabs, s1.cur) THEN s1
          ELSE IF s1.hdr = <<"none">> THEN [s1 EXCEPT !.hdr = ln.cells, !.tabs[Idx(s1.tabs, s1.cur)].header = ln.cells]
          ELSE [s1 EXCEPT !.tabs[Idx(s1.tabs, s1.cur)].lines = Append(@, Pairs(s1.hdr, ln.cells))]
RECURSIVE CsvFold(_, _)
CsvFold(s, ls) == IF ls = <<>> THEN s ELSE CsvFold(CsvStep(s, Head(ls)), Tail(ls))
CsvRead(ls) ==
  LET s == CsvFold(CsvInit, ls) IN
  IF ~CsvSniff(ls) THEN Refused ELSE
  Ok([i \in 1..Len(s.tabs) |-> [name |-> s.tabs[i].name, header |-> IF s.tabs[i].header = <<"none">> THEN <<>> ELSE Dedup(s.tabs[i].header), rows |-> s.tabs[i].lines]])

(* ---- generator: line sequences *)
CONSTANTS MaxLines, Wild    \* Wild = FALSE: only texts of the documented shape (InDomain prefixes); TRUE: any line sequence
Names == IF Wild THEN {"survey", "choices", "Survey", "extra"} ELSE {"survey", "choices"}
Headers == {<<"a", "b">>, <<"a", "b", "c">>}
Datas == {<<"v1">>, <<"v1", "v2">>, <<"", "v2">>, <<"v1", "", "v2">>, <<"", "">>} \cup (IF Wild THEN {<<"v1", "v2", "v1">>, <<"", "", "", "v2">>} ELSE {})
LineSet == {Row(n, <<>>) : n \in Names} \cup {Row("", h) : h \in Headers} \cup {Row("", d) : d \in Datas}
           \cup {[k |-> "sep"], [k |-> "comment"], [k |-> "empty"]}
           \cup (IF Wild THEN {Row(n, h) : n \in {"survey"}, h \in Headers} ELSE {})
VARIABLES text, tdone
ttvars == <<text, tdone>>
TTInit == text = <<>> /\ tdone = FALSE
\* in the tame mode a line is only added if the text can still be of the documented shape: header cells are never taken for data and so on
TameOk(ls) == LET b == Blocks(ls) IN
  /\ SheetLine(ls[1])
  /\ \A i \in 1..Len(b) : /\ b[i].name \in Supported
                          /\ (Len(b[i].lines) >= 1 => b[i].lines[1] \in Headers)
                          /\ \A r \in 2..Len(b[i].lines) : b[i].lines[r] \in Datas /\ Len(b[i].lines[r]) <= Len(b[i].lines[1])
  /\ \A i, j \in 1..Len(b) : i # j => b[i].name # b[j].name
AddLine == /\ ~tdone /\ Len(text) < MaxLines
           /\ \E ln \in LineSet : text' = Append(text, ln) /\ (Wild \/ TameOk(text'))
           /\ UNCHANGED tdone
TTFinish == ~tdone /\ Len(text) > 0 /\ tdone' = TRUE /\ UNCHANGED text
TTNext == AddLine \/ TTFinish
TTSpec == TTInit /\ [][TTNext]_ttvars

(* ---- design checks: Impl => Env on the documented shape *)
ReadersMeetEnvelope == (tdone /\ InDomain(text)) => ((MdSniff(text) => MdRead(text) = Canon(text)) /\ (CsvSniff(text) => CsvRead(text) = Canon(text)))
\* noise lines never change what is read (any text, both readers) - provided a sheet line came first
NoiseFree == (tdone /\ Len(text) > 0 /\ SheetLine(text[1]) /\ MdSniff(Table(text)) /\ CsvSniff(Table(text))) => (MdRead(text) = MdRead(Table(text)) /\ CsvRead(text) = CsvRead(Table(text)))
\* the readers never give a sheet that no line named
NoSheetFromNowhere == tdone => \A i \in 1..Len(MdRead(text).sheets) :
                         \E l \in 1..Len(text) : IsRow(text[l]) /\ (Lower(text[l].first) = MdRead(text).sheets[i].name \/ MdRead(text).sheets[i].name = "survey")
=============================================================================
