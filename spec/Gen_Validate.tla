---------------------------- MODULE Gen_Validate ----------------------------
EXTENDS Validate, Json
Emit == (pc = "Parse") => PrintT(ToJson([entry |-> entry, form |-> form, vout |-> vout, pre |-> pre, ext |-> ext]))
=============================================================================
