--------------------------- MODULE Gen_TypeParams ---------------------------
EXTENDS TypeParams, Json
Emit == Promising /\ ((tdone /\ Worth) => PrintT(ToJson([case |-> tcase, ok |-> Accepted(tcase)])))
=============================================================================
