------------------------- MODULE Trace_InstanceExpr -------------------------
(* One trace = one text: <<[ev "instexpr", toks, spans (by construction; wild texts: none), wild,                        *)
(*   real: [status (find_boundaries), bounds (token-index pairs; <<0,0>> = not on token borders), conv (status of converting a form *)
(*          whose note label is the text), texts, outs (the label's text pieces and output values, in order)]]>>           *)
EXTENDS InstanceExpr, Json, IOUtils
VARIABLES tid, l
Traces == JsonDeserialize(IOEnv.TRACE_FILE)
Prop == IOEnv.PROP
T == Traces[tid]
Ev == T[l]
Check(name, props, cond) == IF (Prop # "all" /\ Prop \notin props) \/ cond THEN TRUE ELSE (PrintT(<<"AT", tid, l, name>>) /\ FALSE)
Toks == [i \in 1..Len(Ev.toks) |-> Ev.toks[i]]
Sp(x) == [n \in 1..Len(x) |-> <<x[n][1], x[n][2]>>]
Strs(x) == [n \in 1..Len(x) |-> x[n]]
Fine == {"ok", "refused"}
TInit == tid \in 1..Len(Traces) /\ l = 1 /\ IEInit
TStep == /\ l <= Len(T) /\ Ev.ev = "instexpr"
         /\ LET ts == Toks  exp == Sp(Ev.spans)  rb == Sp(Ev.real.bounds)  tame == ~Ev.wild IN
            /\ Check("never_crashes", {"C17", "C06"}, Ev.real.status = "ok" /\ Ev.real.conv \in Fine)
            /\ Check("expressions_are_found", {"C06", "C03"}, (tame /\ Ev.real.status = "ok") => rb = exp)
            /\ Check("text_with_expressions_converts", {"C06", "C03"}, tame => Ev.real.conv = "ok")
            /\ Check("text_around_stays_text", {"C06"}, (tame /\ Ev.real.conv = "ok") => Strs(Ev.real.texts) = TextPieces(ts, exp))
            /\ Check("each_expression_is_one_output", {"C06", "C03"}, (tame /\ Ev.real.conv = "ok") => Strs(Ev.real.outs) = OutValues(ts, exp))
            /\ ((Ev.real.status = "ok" /\ rb # Bounds(ts)) => PrintT(<<"DRIFT", tid>>))
         /\ l' = l + 1 /\ UNCHANGED <<tid, ievars>>
TSpec == TInit /\ [][TStep]_<<ievars, tid, l>>
TAccepted == (l = Len(T) + 1) => PrintT(<<"ACCEPT", tid>>)
=============================================================================
