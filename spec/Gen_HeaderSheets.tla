-------------------------- MODULE Gen_HeaderSheets --------------------------
(* Generator of small header rows: every ordered selection of <= MaxCols distinct members of a family of survey   *)
(* headers that overlap in meaning (plain / translated / aliased / namespaced spellings of label, hint, image,    *)
(* relevant ...), in both delimiter styles.  Each carries one cell ("val_" \o id).  What the grouped row must be  *)
(* is Headers!GroupLeaves over Headers!Meaning - a set, hence independent of the column order.                   *)
EXTENDS Headers, Json
CONSTANT MaxCols
W(c) == Seg("", c, c, FALSE, FALSE)
Family == {
  [id |-> "label",          segs |-> <<W("label")>>],
  [id |-> "label_fr",       segs |-> <<W("label"), W("fr")>>],
  [id |-> "label_en",       segs |-> <<W("label"), Seg("", "English (en)", "english_(en)", FALSE, FALSE)>>],
  [id |-> "label_default",  segs |-> <<W("label"), W("default")>>],
  [id |-> "Label",          segs |-> <<Seg("", "Label", "label", FALSE, FALSE)>>],
  [id |-> "caption",        segs |-> <<W("caption")>>],
  [id |-> "hint",           segs |-> <<W("hint")>>],
  [id |-> "hint_fr",        segs |-> <<W("hint"), W("fr")>>],
  [id |-> "image",          segs |-> <<W("image")>>],
  [id |-> "image_fr",       segs |-> <<W("image"), W("fr")>>],
  [id |-> "media_image",    segs |-> <<W("media"), W("image")>>],
  [id |-> "media_image_fr", segs |-> <<W("media"), W("image"), W("fr")>>],
  [id |-> "media_audio_fr", segs |-> <<W("media"), W("audio"), W("fr")>>],
  [id |-> "relevant",       segs |-> <<W("relevant")>>],
  [id |-> "bind_relevant",  segs |-> <<W("bind"), W("relevant")>>],
  [id |-> "bind_foo",       segs |-> <<W("bind"), W("foo")>>],
  [id |-> "cmsg",           segs |-> <<W("constraint_message")>>],
  [id |-> "cmsg_fr",        segs |-> <<W("constraint_message"), W("fr")>>],
  [id |-> "bind_jr_cmsg",   segs |-> <<W("bind"), Seg("jr", "constraintMsg", "constraintmsg", FALSE, FALSE)>>],
  [id |-> "mycol",          segs |-> <<W("mycol")>>] }
Header(f, style) == [segs |-> f.segs, seps |-> [i \in 1..(Len(f.segs) - 1) |-> IF style = "dbl" THEN "::" ELSE ":"]]

VARIABLES cols, style, done
svars == <<cols, style, done>>
SInit == cols = <<>> /\ style \in {"dbl", "sgl"} /\ done = FALSE
AddCol == /\ ~done /\ Len(cols) < MaxCols
          /\ \E f \in Family : (\A i \in 1..Len(cols) : cols[i].id # f.id) /\ cols' = Append(cols, f)
          /\ UNCHANGED <<style, done>>
Close == ~done /\ Len(cols) > 0 /\ done' = TRUE /\ UNCHANGED <<cols, style>>
SNext == AddCol \/ Close
SSpec == SInit /\ [][SNext]_svars

Paths == [i \in 1..Len(cols) |-> Meaning("survey", Header(cols[i], style))]
Dup == \E i, j \in 1..Len(cols) : i < j /\ Paths[i] = Paths[j]
\* design check: on this family the transcription agrees with the envelope header by header
FamilyInDomain == \A i \in 1..Len(cols) :
   LET hh == Header(cols[i], style) u == (style = "dbl" /\ \E j \in 1..Len(cols) : Len(cols[j].segs) > 1)
   IN (Len(cols[i].segs) = 1 \/ u \/ style = "sgl") => ProcessHeader("survey", hh, u).tokens = Paths[i]
Emit == done => PrintT(ToJson([style |-> style, cols |-> [i \in 1..Len(cols) |-> [id |-> cols[i].id, h |-> Header(cols[i], style)]]]))
=============================================================================
