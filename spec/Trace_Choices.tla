--------------------------- MODULE Trace_Choices ---------------------------
EXTENDS Choices, Json, IOUtils
VARIABLES tid, l
Traces == JsonDeserialize(IOEnv.TRACE_FILE)
T == Traces[tid]
Ev == T[l]
Check(name, cond) == IF cond THEN TRUE ELSE (PrintT(<<"AT", tid, l, name>>) /\ FALSE)
Obs == Ev.obs
Src == Ev.src
C09Env ==
  /\ Check("instance_ids_unique", NoDupSeq([i \in 1..Len(Obs.instances) |-> Obs.instances[i].id]))
  /\ Check("each_list_one_instance_items_intact", \A i \in 1..Len(Src.lists) : ListOK(Obs, Src.lists[i]))
  /\ Check("select_wired_to_own_list_filter_parameters", \A i \in 1..Len(Src.selects) : SelectOK(Obs, Src.selects[i]))
  /\ Check("or_other_choice_and_companion", \A i \in 1..Len(Src.others) : OtherOK(Obs, Src.others[i]))
  /\ Check("external_source_declared_once_with_uri", \A i \in 1..Len(Src.externals) : ExternalOK(Obs, Src.externals[i]))
  /\ Check("no_undeclared_instances",
           \A i \in 1..Len(Obs.instances) :
              \/ (\E j \in 1..Len(Src.lists) : (Src.lists[j].id = Obs.instances[i].id /\ ~Src.lists[j].inline))
              \/ (\E j \in 1..Len(Src.externals) : Src.externals[j][1] = Obs.instances[i].id))
  /\ Check("itemsets_csv_cell_for_cell", Obs.csv = Src.csv)
\* clauses that need no knowledge of the source (the frozen test-suite corpus and forms of other generators): instance ids are
\* unique, every itemset reads from a declared instance, and items of one instance have unique itextIds
C09Free ==
  /\ Check("instance_ids_unique", NoDupSeq([i \in 1..Len(Obs.instances) |-> Obs.instances[i].id]))
  /\ Check("itemset_reads_a_declared_instance",
           \A i \in 1..Len(Obs.reads) : \E j \in 1..Len(Obs.instances) : Obs.instances[j].id = Obs.reads[i])
  /\ Check("item_itext_ids_unique", \A i \in 1..Len(Obs.instances) : NoDupSeq(Obs.instances[i].itext_ids))
TFree == /\ l <= Len(T) /\ Ev.ev = "choices_free"
         /\ Check("converted", Ev.status = "ok")
         /\ C09Free
         /\ l' = l + 1 /\ UNCHANGED <<tid, gvars>>
TInit == tid \in 1..Len(Traces) /\ l = 1 /\ cfg = <<>> /\ sels = <<>> /\ phase = "trace"
TStep == /\ l <= Len(T) /\ Ev.ev = "choices"
         /\ Check("converted", Ev.status = "ok")
         /\ C09Env
         /\ l' = l + 1 /\ UNCHANGED <<tid, gvars>>
TSpec == TInit /\ [][TStep \/ TFree]_<<gvars, tid, l>>
Accepted == (l = Len(T) + 1) => PrintT(<<"ACCEPT", tid>>)
=============================================================================
