--------------------------- MODULE Gen_TextTables ---------------------------
EXTENDS TextTables, Json
Emit == tdone => PrintT(ToJson([lines |-> text, dom |-> InDomain(text)]))
=============================================================================
