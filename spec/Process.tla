------------------------------- MODULE Process -------------------------------
(***************************************************************************)
(* C14: a process converting several forms, possibly in several threads.   *)
(* A conversion is a multi-step operation (Parse = workbook_to_json,       *)
(* Build = create_survey_element_from_dict, Xml = Survey.to_xml) over      *)
(* shared, process-wide state: memo caches and module-level tables.        *)
(*   content-keyed caches: escape_text_for_xml(text), parse_expression     *)
(*      (text), read_tags(file) -- the value is a function of the key      *)
(*   identity-keyed caches: is_parent_a_repeat(survey, xpath),             *)
(*      share_same_repeat_parent(survey, ...) -- the key holds the survey  *)
(*      object itself (hash = id), so a cached object is never collected   *)
(*      and identities are never reused while an entry exists              *)
(* The result of a conversion is modelled as the set of values it read;    *)
(* Truth(k) is what an uncached computation of key k yields.  ResultPure:  *)
(* whatever the history, each conversion reads only true values.           *)
(* TLC enumerates every history (order and phase-level interleaving) of    *)
(* MaxConv conversions of Forms by Threads and re-renders; the harness     *)
(* replays each one in a single real process.                              *)
(***************************************************************************)
EXTENDS Naturals, Sequences, FiniteSets, TLC
CONSTANTS Forms, Threads, MaxConv, MaxAgain

VARIABLES st,        \* thread -> [phase: "idle" | "parsed" | "built" | "rendered", form, sid (survey identity), again]
          cache,     \* set of <<key, value>> pairs memoised so far
          nextId,    \* next fresh survey identity
          nconv, hist, reads
pvars == <<st, cache, nextId, nconv, hist, reads>>

\* the keys a phase of converting form f (survey identity s) consults, and the true value of each
TextKeys(f) == {<<"esc", f>>, <<"esc", "common">>, <<"expr", f>>, <<"expr", "common">>}
IdKeys(f, s) == {<<"repeat", s, f>>}
Truth(k) == IF k[1] \in {"esc", "expr"} THEN <<"T", k[2]>> ELSE <<"R", k[2], k[3]>>
Lookup(k) == IF \E p \in cache : p[1] = k THEN (CHOOSE p \in cache : p[1] = k)[2] ELSE Truth(k)
Memo(ks) == cache \cup {<<k, Truth(k)>> : k \in {k \in ks : ~\E p \in cache : p[1] = k}}

Idle == [phase |-> "idle", form |-> "none", sid |-> 0, again |-> 0]
PInit == st = [t \in Threads |-> Idle] /\ cache = {} /\ nextId = 1 /\ nconv = 0 /\ hist = <<>> /\ reads = {}
Parse(t, f) ==
  /\ st[t].phase \in {"idle", "rendered"} /\ nconv < MaxConv
  /\ st' = [st EXCEPT ![t] = [phase |-> "parsed", form |-> f, sid |-> 0, again |-> 0]]
  /\ reads' = reads \cup {<<t, k, Lookup(k)>> : k \in {<<"expr", f>>, <<"expr", "common">>}}
  /\ cache' = Memo({<<"expr", f>>, <<"expr", "common">>})
  /\ nconv' = nconv + 1 /\ hist' = Append(hist, <<t, "parse", f>>) /\ UNCHANGED nextId
Build(t) ==
  /\ st[t].phase = "parsed"
  /\ st' = [st EXCEPT ![t].phase = "built", ![t].sid = nextId] /\ nextId' = nextId + 1
  /\ hist' = Append(hist, <<t, "build", st[t].form>>) /\ UNCHANGED <<cache, nconv, reads>>
Xml(t) ==
  /\ st[t].phase = "built"
  /\ LET ks == TextKeys(st[t].form) \cup IdKeys(st[t].form, st[t].sid)
     IN reads' = reads \cup {<<t, k, Lookup(k)>> : k \in ks} /\ cache' = Memo(ks)
  /\ st' = [st EXCEPT ![t].phase = "rendered"]
  /\ hist' = Append(hist, <<t, "xml", st[t].form>>) /\ UNCHANGED <<nextId, nconv>>
Again(t) ==       \* to_xml() once more on the same survey object
  /\ st[t].phase = "rendered" /\ st[t].again < MaxAgain
  /\ LET ks == TextKeys(st[t].form) \cup IdKeys(st[t].form, st[t].sid)
     IN reads' = reads \cup {<<t, k, Lookup(k)>> : k \in ks} /\ cache' = Memo(ks)
  /\ st' = [st EXCEPT ![t].again = @ + 1]
  /\ hist' = Append(hist, <<t, "again", st[t].form>>) /\ UNCHANGED <<nextId, nconv>>
PNext == \E t \in Threads : (\E f \in Forms : Parse(t, f)) \/ Build(t) \/ Xml(t) \/ Again(t)
PSpec == PInit /\ [][PNext]_pvars

\* every value any conversion ever read is the true one; the caches stay coherent; identities are never shared
ResultPure == \A r \in reads : r[3] = Truth(r[2])
CacheCoherent == \A p \in cache : p[2] = Truth(p[1])
IdentitiesDistinct == \A a, b \in Threads : (a # b /\ st[a].sid # 0) => st[a].sid # st[b].sid
Quiescent == \A t \in Threads : st[t].phase \in {"idle", "rendered"}
=============================================================================
