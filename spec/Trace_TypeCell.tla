---------------------------- MODULE Trace_TypeCell --------------------------
(* Conformance of the real type-cell cascade (workbook_to_json) with TypeCell.tla.                               *)
(*  "typecell" event: one generated cell inside a small frame form (a matching begin/end row is supplied for     *)
(*  control cells), the real outcome and the reading projected from the JSON form, and whether the XForm equals   *)
(*  the XForm of the documented canonical spelling.                                                              *)
(*   envelope (violation): never an internal exception; a cell in a documented spelling is accepted, is read as   *)
(*   Meaning(c), and yields the same XForm as the canonical spelling; a cell that is none of the documented forms *)
(*   and not a type of the table is refused (C17: unknown question type).                                         *)
(*   transcription (DRIFT, informational): the real reading differs from Parse on an undocumented cell.           *)
EXTENDS TypeCell, Json, IOUtils
VARIABLES tid, l
Traces == JsonDeserialize(IOEnv.TRACE_FILE)
Prop == IOEnv.PROP                      \* which property's envelope is being decided (C13: spellings; C17: unknown types)
T == Traces[tid]
Ev == T[l]
Check(name, cond) == IF cond THEN TRUE ELSE (PrintT(<<"AT", tid, l, name>>) /\ FALSE)
Reading(r) == [k |-> r.k, t |-> r.t, list |-> r.list, other |-> r.other, ff |-> r.ff]
\* only a loop keeps the list of its begin row where it can be seen
Seen(p) == IF p.k = "begin" /\ p.t # "loop" THEN [p EXCEPT !.list = ""] ELSE p
CellEnv ==
  LET cc == Ev.c
      ws == Words(cc)
      p == Parse(ws)
  IN /\ Check("typecell_never_crashes", Ev.real.status \in {"ok", "pyxform_error"})
     /\ (Prop = "C13" =>
           /\ Check("documented_type_cell_accepted", InDomain(cc) => Ev.real.status = "ok")
           /\ Check("documented_type_cell_means_its_row", InDomain(cc) => Reading(Ev.real) = Meaning(cc))
           /\ Check("spelling_gives_the_same_xform", InDomain(cc) => Ev.same_as_canon))
     /\ (Prop = "C17" => Check("unknown_type_refused", p.k = "unknown" => Ev.real.status = "pyxform_error"))
     /\ ((Ev.real.status = "ok" /\ p.k \notin {"unknown", "setting"} /\ Reading(Ev.real) # Seen(p)) => PrintT(<<"DRIFT", tid>>))
TInit == tid \in 1..Len(Traces) /\ l = 1
TStep == /\ l <= Len(T)
         /\ CASE Ev.ev = "typecell" -> CellEnv [] OTHER -> FALSE
         /\ l' = l + 1 /\ UNCHANGED <<tid, c, pad, phase>>
TSpec == TInit /\ c = Cell("raw", 0, " ", <<"text">>) /\ pad = "none" /\ phase = "trace" /\ [][TStep]_<<tid, l, c, pad, phase>>
Accepted == (l = Len(T) + 1) => PrintT(<<"ACCEPT", tid>>)
=============================================================================
