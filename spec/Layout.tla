------------------------------- MODULE Layout -------------------------------
(***************************************************************************)
(* C13: documented spellings and layout noise are interchangeable.         *)
(* The catalogue of meaning-preserving transformations, as actions on an   *)
(* abstract workbook.  The abstract state records which transformations    *)
(* were applied and where blank rows were inserted; the only observable    *)
(* difference the property allows is the row-number shift                  *)
(*      Shift(sheet, r) = r + #{blank rows inserted at or above r}.         *)
(* TLC enumerates every composition of <= MaxSteps catalogue entries on    *)
(* each base form; the harness performs them on the concrete workbook.     *)
(***************************************************************************)
EXTENDS Naturals, Sequences, FiniteSets, TLC
CONSTANTS MaxSteps, NBases

\* catalogue: transformation -> sheets it applies to (source line of the documented equivalence in the comment)
Cat ==
  ("header_case"      :> {"survey", "choices", "settings"}) @@   \* sheet_headers.to_snake_case
  ("header_spaces"    :> {"survey", "choices", "settings"}) @@   \* to_snake_case: spaces -> underscore; header strip
  ("column_alias"     :> {"survey", "choices", "settings"}) @@   \* aliases.survey_header / list_header / settings_header
  ("delimiter"        :> {"survey", "choices"}) @@               \* process_header: ':' vs '::', spaces around
  ("type_alias"       :> {"survey"}) @@                          \* aliases.select / control regexes / _type_alias_map
  ("truth_spelling"   :> {"survey", "settings"}) @@                          \* aliases.yes_no / BINDING_CONVERSIONS
  ("smart_quotes"     :> {"survey", "choices"}) @@                         \* clean_text_values
  ("pad_cells"        :> {"survey", "choices", "settings"}) @@   \* clean_text_values / cell strip
  ("permute_columns"  :> {"survey", "choices", "settings"}) @@
  ("permute_sheets"   :> {"workbook"}) @@
  ("foreign_sheet"    :> {"workbook"}) @@                        \* unsupported sheet names are skipped
  ("underscore_sheet" :> {"workbook"}) @@
  ("unknown_column"   :> {"survey", "settings"}) @@              \* plain unknown columns are carried but not rendered
  ("sheet_name_case"  :> {"survey", "choices", "settings"}) @@   \* sheet names lower-cased
  ("blank_row"        :> {"survey", "choices"})
Kinds == DOMAIN Cat
\* number of data rows of each base form's sheets (blank rows may be inserted before row i, 1 <= i <= n + 1)
BaseRowsN == << [survey |-> 13, choices |-> 5], [survey |-> 10, choices |-> 5], [survey |-> 10, choices |-> 6],
               [survey |-> 3, choices |-> 0] >>       \* (base 4: a workbook whose only sheet is the survey)

VARIABLES base, steps, blanks
lvars == <<base, steps, blanks>>
LInit == base \in 1..NBases /\ steps = <<>> /\ blanks = [survey |-> {}, choices |-> {}]
Used(k, s) == \E j \in 1..Len(steps) : steps[j].k = k /\ steps[j].s = s
Apply(k, s) ==
  /\ Len(steps) < MaxSteps /\ k # "blank_row" /\ s \in Cat[k] /\ ~Used(k, s)
  /\ steps' = Append(steps, [k |-> k, s |-> s, at |-> 0]) /\ UNCHANGED <<base, blanks>>
InsertBlank(s, p) ==
  /\ Len(steps) < MaxSteps /\ s \in Cat["blank_row"] /\ BaseRowsN[base][s] > 0 /\ p \in 1..(BaseRowsN[base][s] + 1) /\ p \notin blanks[s]
  /\ steps' = Append(steps, [k |-> "blank_row", s |-> s, at |-> p])
  /\ blanks' = [blanks EXCEPT ![s] = @ \cup {p}] /\ UNCHANGED base
LNext == (\E k \in Kinds, s \in {"survey", "choices", "settings", "workbook"} : Apply(k, s))
         \/ (\E s \in {"survey", "choices"}, p \in 1..20 : InsertBlank(s, p))
LSpec == LInit /\ [][LNext]_lvars
\* a data row that was the r-th row below the header (spreadsheet row r + 1) is reported at Shift(...)
Shift(s, row) == row + Cardinality({p \in blanks[s] : p + 1 <= row})
ShiftMap(s) == [r \in 2..(BaseRowsN[base][s] + 1) |-> Shift(s, r)]
\* design-level: the shift is monotone and never moves a row up
ShiftMonotone == \A s \in {"survey", "choices"} : \A r1, r2 \in 2..(BaseRowsN[base][s] + 1) :
                    (r1 < r2 => Shift(s, r1) < Shift(s, r2)) /\ Shift(s, r1) >= r1
ShiftExact == \A s \in {"survey", "choices"} : \A r \in 2..(BaseRowsN[base][s] + 1) : Shift(s, r) - r <= Cardinality(blanks[s])
=============================================================================
