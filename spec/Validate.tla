------------------------------ MODULE Validate ------------------------------
(***************************************************************************)
(* C18: validation and output handling of one conversion request as a      *)
(* fault machine (PlusCal).  The request comes through one entry point;    *)
(* the environment (the external validator process, the java executable)   *)
(* is nondeterministic.  The file system is abstracted to: the set of      *)
(* temporary files alive, the state of the output path ("absent", "old" =  *)
(* a file that was there before the call, "new" = the XForm of this call), *)
(* and whether itemsets.csv was written.                                   *)
(*                                                                         *)
(* Steps follow the code: convert() [workbook_to_json .. Survey.to_xml:    *)
(* NamedTemporaryFile, print_xform_to_file, check_xform, finally unlink],  *)
(* then xls2xform_convert writes the outputs, then main_cli reports.       *)
(***************************************************************************)
EXTENDS Naturals, Sequences, FiniteSets, TLC

Entries == {"lib", "cli_plain", "cli_json", "cli_skip", "cli_odk", "cli_json_skip"}
Forms == {"valid", "invalid"}
Outcomes == {"ok_silent", "ok_stderr", "ok_stderr_bytes", "reject", "reject_rc2", "reject_rc255_empty", "reject_arbitrary", "reject_bytes",
             "killed", "killed_term", "java_absent", "corrupt_jar", "corrupt_jar_after_notice",   \* (the jarfile line after a JVM notice line)
             "hang"}   \* the validator does not finish: the 100 s watchdog of run_popen_with_timeout sends SIGTERM, check_xform returns a warning
\* "exit > 0 with arbitrary stderr": any positive exit status is a rejection, whatever the validator printed
\* (..._bytes: the validator's stderr is not valid UTF-8 - "arbitrary stderr" includes arbitrary bytes)
Rejects == {"reject", "reject_rc2", "reject_rc255_empty", "reject_arbitrary", "reject_bytes", "corrupt_jar", "corrupt_jar_after_notice"}
AcceptsWithStderr == {"ok_stderr", "ok_stderr_bytes"}
Killed == {"killed", "killed_term"}
Hung == {"hang"}
Validates(e) == e \notin {"cli_skip", "cli_json_skip"}
IsCli(e) == e # "lib"
IsJson(e) == e \in {"cli_json", "cli_json_skip"}

(* --algorithm Validate
variables
  entry \in Entries, form \in Forms, vout \in Outcomes, pre \in BOOLEAN, ext \in BOOLEAN,
  tmpfiles = {}, out = IF pre THEN "old" ELSE "absent", itemsets = FALSE,
  exc = "none",            \* exception propagating out of convert(): none | PyXFormError | ODKValidateError | OSError
  warn = {},               \* kinds of warnings collected: "stderr", "bad_return_code"
  called = FALSE, sawfile = FALSE,
  code = 0,                \* --json response code
  returned = FALSE,        \* the library call returned a result
  removed_out = FALSE;
begin
Parse:                                 \* workbook_to_json / build / validate tree
  if form = "invalid" then exc := "PyXFormError"; goto Report; end if;
CreateTmp:                             \* Survey.to_xml: NamedTemporaryFile(delete=False)
  tmpfiles := tmpfiles \cup {"tmp"};
WriteTmp:                              \* print_xform_to_file writes the XML
  skip;
CheckJava:
  if Validates(entry) then
    if vout = "java_absent" then exc := "OSError"; goto Finally; end if;
  else
    goto Finally;
  end if;
RunValidator:                          \* check_xform -> run_popen_with_timeout
  called := TRUE; sawfile := ("tmp" \in tmpfiles);
Classify:
  if vout \in Rejects then exc := "ODKValidateError";     \* return code > 0
  elsif vout \in AcceptsWithStderr then warn := warn \cup {"stderr"};
  elsif vout \in Killed then warn := warn \cup {"bad_return_code"};       \* negative return code
  elsif vout \in Hung then warn := warn \cup {"timeout"};                  \* result.timeout: "XForm took to long to completely validate."
  end if;
Finally:                               \* finally: tmp_path.unlink(missing_ok=True)
  tmpfiles := tmpfiles \ {"tmp"};
  if exc = "none" then returned := TRUE; end if;
WriteOutput:                           \* xls2xform_convert: only after convert() returned
  if IsCli(entry) /\ exc = "none" then
    out := "new";
    if ext then itemsets := TRUE; end if;
  end if;
Report:                                \* main_cli
  if IsJson(entry) then
    if exc # "none" then code := 999;
    elsif warn # {} then code := 101;
    else code := 100; end if;
  elsif IsCli(entry) /\ exc = "ODKValidateError" then
    out := "absent"; removed_out := TRUE;                                 \* Path(output).unlink(missing_ok=True)
  end if;
end algorithm; *)
\* BEGIN TRANSLATION
VARIABLES pc, entry, form, vout, pre, ext, tmpfiles, out, itemsets, exc, warn, 
          called, sawfile, code, returned, removed_out

vars == << pc, entry, form, vout, pre, ext, tmpfiles, out, itemsets, exc, 
           warn, called, sawfile, code, returned, removed_out >>

Init == (* Global variables *)
        /\ entry \in Entries
        /\ form \in Forms
        /\ vout \in Outcomes
        /\ pre \in BOOLEAN
        /\ ext \in BOOLEAN
        /\ tmpfiles = {}
        /\ out = IF pre THEN "old" ELSE "absent"
        /\ itemsets = FALSE
        /\ exc = "none"
        /\ warn = {}
        /\ called = FALSE
        /\ sawfile = FALSE
        /\ code = 0
        /\ returned = FALSE
        /\ removed_out = FALSE
        /\ pc = "Parse"

Parse == /\ pc = "Parse"
         /\ IF form = "invalid"
               THEN /\ exc' = "PyXFormError"
                    /\ pc' = "Report"
               ELSE /\ pc' = "CreateTmp"
                    /\ exc' = exc
         /\ UNCHANGED << entry, form, vout, pre, ext, tmpfiles, out, itemsets, 
                         warn, called, sawfile, code, returned, removed_out >>

CreateTmp == /\ pc = "CreateTmp"
             /\ tmpfiles' = (tmpfiles \cup {"tmp"})
             /\ pc' = "WriteTmp"
             /\ UNCHANGED << entry, form, vout, pre, ext, out, itemsets, exc, 
                             warn, called, sawfile, code, returned, 
                             removed_out >>

WriteTmp == /\ pc = "WriteTmp"
            /\ TRUE
            /\ pc' = "CheckJava"
            /\ UNCHANGED << entry, form, vout, pre, ext, tmpfiles, out, 
                            itemsets, exc, warn, called, sawfile, code, 
                            returned, removed_out >>

CheckJava == /\ pc = "CheckJava"
             /\ IF Validates(entry)
                   THEN /\ IF vout = "java_absent"
                              THEN /\ exc' = "OSError"
                                   /\ pc' = "Finally"
                              ELSE /\ pc' = "RunValidator"
                                   /\ exc' = exc
                   ELSE /\ pc' = "Finally"
                        /\ exc' = exc
             /\ UNCHANGED << entry, form, vout, pre, ext, tmpfiles, out, 
                             itemsets, warn, called, sawfile, code, returned, 
                             removed_out >>

RunValidator == /\ pc = "RunValidator"
                /\ called' = TRUE
                /\ sawfile' = ("tmp" \in tmpfiles)
                /\ pc' = "Classify"
                /\ UNCHANGED << entry, form, vout, pre, ext, tmpfiles, out, 
                                itemsets, exc, warn, code, returned, 
                                removed_out >>

Classify == /\ pc = "Classify"
            /\ IF vout \in Rejects
                  THEN /\ exc' = "ODKValidateError"
                       /\ warn' = warn
                  ELSE /\ IF vout \in AcceptsWithStderr
                             THEN /\ warn' = (warn \cup {"stderr"})
                             ELSE /\ IF vout \in Killed
                                        THEN /\ warn' = (warn \cup {"bad_return_code"})
                                        ELSE /\ IF vout \in Hung
                                                   THEN /\ warn' = (warn \cup {"timeout"})
                                                   ELSE /\ TRUE
                                                        /\ warn' = warn
                       /\ exc' = exc
            /\ pc' = "Finally"
            /\ UNCHANGED << entry, form, vout, pre, ext, tmpfiles, out, 
                            itemsets, called, sawfile, code, returned, 
                            removed_out >>

Finally == /\ pc = "Finally"
           /\ tmpfiles' = tmpfiles \ {"tmp"}
           /\ IF exc = "none"
                 THEN /\ returned' = TRUE
                 ELSE /\ TRUE
                      /\ UNCHANGED returned
           /\ pc' = "WriteOutput"
           /\ UNCHANGED << entry, form, vout, pre, ext, out, itemsets, exc, 
                           warn, called, sawfile, code, removed_out >>

WriteOutput == /\ pc = "WriteOutput"
               /\ IF IsCli(entry) /\ exc = "none"
                     THEN /\ out' = "new"
                          /\ IF ext
                                THEN /\ itemsets' = TRUE
                                ELSE /\ TRUE
                                     /\ UNCHANGED itemsets
                     ELSE /\ TRUE
                          /\ UNCHANGED << out, itemsets >>
               /\ pc' = "Report"
               /\ UNCHANGED << entry, form, vout, pre, ext, tmpfiles, exc, 
                               warn, called, sawfile, code, returned, 
                               removed_out >>

Report == /\ pc = "Report"
          /\ IF IsJson(entry)
                THEN /\ IF exc # "none"
                           THEN /\ code' = 999
                           ELSE /\ IF warn # {}
                                      THEN /\ code' = 101
                                      ELSE /\ code' = 100
                     /\ UNCHANGED << out, removed_out >>
                ELSE /\ IF IsCli(entry) /\ exc = "ODKValidateError"
                           THEN /\ out' = "absent"
                                /\ removed_out' = TRUE
                           ELSE /\ TRUE
                                /\ UNCHANGED << out, removed_out >>
                     /\ code' = code
          /\ pc' = "Done"
          /\ UNCHANGED << entry, form, vout, pre, ext, tmpfiles, itemsets, exc, 
                          warn, called, sawfile, returned >>

(* Allow infinite stuttering to prevent deadlock on termination. *)
Terminating == pc = "Done" /\ UNCHANGED vars

Next == Parse \/ CreateTmp \/ WriteTmp \/ CheckJava \/ RunValidator
           \/ Classify \/ Finally \/ WriteOutput \/ Report
           \/ Terminating

Spec == Init /\ [][Next]_vars

Termination == <>(pc = "Done")

\* END TRANSLATION

(* ------------------------------------------------------------------ properties (C18) *)
Done == pc = "Done"
Accepted == Done /\ exc = "none"
\* under every outcome no temporary file survives the call
NoTempResidue == Done => tmpfiles = {}
\* the validator, when it is run, is run on a file that exists
ValidatorSawFile == called => sawfile
\* a rejected or failed conversion writes no XForm of this call to the output path
NoXFormOnFailure == (Done /\ exc # "none") => out # "new"
\* plain mode removes the output file when the validator rejects
PlainModeUnlinks == (Done /\ entry \in {"cli_plain", "cli_odk"} /\ exc = "ODKValidateError") => out = "absent"
\* JSON codes
CodeMapping == (Done /\ IsJson(entry)) =>
                  /\ (exc # "none" <=> code = 999)
                  /\ ((exc = "none" /\ warn # {}) <=> code = 101)
                  /\ ((exc = "none" /\ warn = {}) <=> code = 100)
\* the validator's verdict is honoured: reject => failure; accept => success with its stderr surfaced
VerdictHonoured == Done => /\ ((form = "valid" /\ Validates(entry) /\ vout \in Rejects) => exc = "ODKValidateError")
                           /\ ((form = "valid" /\ Validates(entry) /\ vout \in AcceptsWithStderr) => (exc = "none" /\ "stderr" \in warn))
                           /\ ((form = "valid" /\ Validates(entry) /\ vout = "ok_silent") => (exc = "none" /\ warn = {}))
                           /\ ((form = "valid" /\ Validates(entry) /\ vout = "java_absent") => exc = "OSError")
                           /\ (form = "invalid" => exc = "PyXFormError")
                           /\ ((form = "valid" /\ ~Validates(entry)) => (exc = "none" /\ ~called))
\* accepted CLI conversions write the XForm, and itemsets.csv beside it when external choices exist
OutputsWritten == (Accepted /\ IsCli(entry)) => (out = "new" /\ (ext <=> itemsets))
LibraryWritesNothing == (Done /\ entry = "lib") => (out = (IF pre THEN "old" ELSE "absent") /\ ~itemsets)
=============================================================================
