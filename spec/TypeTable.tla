---------------------------- MODULE TypeTable ----------------------------
(* The XLSForm question-type table, transcribed once (by hand-checked script) from the XLSForm      *)
(* reference / question_type_dictionary at the pinned commit and FROZEN here: the specification's   *)
(* own copy.  tag = body control element ("none": the type has no control), media = mediatype,      *)
(* btype = bind type, preload/params = jr:preload / jr:preloadParams, ro = readonly bind,           *)
(* cons = built-in constraint, action/aevent = model action element and its event.                  *)
EXTENDS TLC
TypeTable ==
  ("q picture" :> [tag |-> "upload", media |-> "image/*", btype |-> "binary", preload |-> "", params |-> "", ro |-> "", cons |-> "", action |-> "", aevent |-> "", hint |-> ""]) @@
  ("photo" :> [tag |-> "upload", media |-> "image/*", btype |-> "binary", preload |-> "", params |-> "", ro |-> "", cons |-> "", action |-> "", aevent |-> "", hint |-> ""]) @@
  ("add date time prompt" :> [tag |-> "input", media |-> "", btype |-> "dateTime", preload |-> "", params |-> "", ro |-> "", cons |-> "", action |-> "", aevent |-> "", hint |-> ""]) @@
  ("add audio prompt" :> [tag |-> "upload", media |-> "audio/*", btype |-> "binary", preload |-> "", params |-> "", ro |-> "", cons |-> "", action |-> "", aevent |-> "", hint |-> ""]) @@
  ("q date time" :> [tag |-> "input", media |-> "", btype |-> "dateTime", preload |-> "", params |-> "", ro |-> "", cons |-> "", action |-> "", aevent |-> "", hint |-> ""]) @@
  ("phonenumber" :> [tag |-> "none", media |-> "", btype |-> "string", preload |-> "property", params |-> "phonenumber", ro |-> "", cons |-> "", action |-> "", aevent |-> "", hint |-> ""]) @@
  ("get start time" :> [tag |-> "none", media |-> "", btype |-> "dateTime", preload |-> "timestamp", params |-> "start", ro |-> "", cons |-> "", action |-> "", aevent |-> "", hint |-> ""]) @@
  ("add select multiple prompt using" :> [tag |-> "select", media |-> "", btype |-> "string", preload |-> "", params |-> "", ro |-> "", cons |-> "", action |-> "", aevent |-> "", hint |-> ""]) @@
  ("add note prompt" :> [tag |-> "input", media |-> "", btype |-> "string", preload |-> "", params |-> "", ro |-> "true()", cons |-> "", action |-> "", aevent |-> "", hint |-> ""]) @@
  ("calculate" :> [tag |-> "none", media |-> "", btype |-> "string", preload |-> "", params |-> "", ro |-> "", cons |-> "", action |-> "", aevent |-> "", hint |-> ""]) @@
  ("acknowledge" :> [tag |-> "trigger", media |-> "", btype |-> "string", preload |-> "", params |-> "", ro |-> "", cons |-> "", action |-> "", aevent |-> "", hint |-> ""]) @@
  ("location" :> [tag |-> "input", media |-> "", btype |-> "geopoint", preload |-> "", params |-> "", ro |-> "", cons |-> "", action |-> "", aevent |-> "", hint |-> ""]) @@
  ("text" :> [tag |-> "input", media |-> "", btype |-> "string", preload |-> "", params |-> "", ro |-> "", cons |-> "", action |-> "", aevent |-> "", hint |-> ""]) @@
  ("select all that apply from" :> [tag |-> "select", media |-> "", btype |-> "string", preload |-> "", params |-> "", ro |-> "", cons |-> "", action |-> "", aevent |-> "", hint |-> ""]) @@
  ("simserial" :> [tag |-> "none", media |-> "", btype |-> "string", preload |-> "property", params |-> "simserial", ro |-> "", cons |-> "", action |-> "", aevent |-> "", hint |-> ""]) @@
  ("string" :> [tag |-> "input", media |-> "", btype |-> "string", preload |-> "", params |-> "", ro |-> "", cons |-> "", action |-> "", aevent |-> "", hint |-> ""]) @@
  ("q string" :> [tag |-> "input", media |-> "", btype |-> "string", preload |-> "", params |-> "", ro |-> "", cons |-> "", action |-> "", aevent |-> "", hint |-> ""]) @@
  ("imei" :> [tag |-> "none", media |-> "", btype |-> "string", preload |-> "property", params |-> "deviceid", ro |-> "", cons |-> "", action |-> "", aevent |-> "", hint |-> ""]) @@
  ("integer" :> [tag |-> "input", media |-> "", btype |-> "int", preload |-> "", params |-> "", ro |-> "", cons |-> "", action |-> "", aevent |-> "", hint |-> ""]) @@
  ("datetime" :> [tag |-> "input", media |-> "", btype |-> "dateTime", preload |-> "", params |-> "", ro |-> "", cons |-> "", action |-> "", aevent |-> "", hint |-> ""]) @@
  ("q note" :> [tag |-> "input", media |-> "", btype |-> "string", preload |-> "", params |-> "", ro |-> "true()", cons |-> "", action |-> "", aevent |-> "", hint |-> ""]) @@
  ("subscriber id" :> [tag |-> "none", media |-> "", btype |-> "string", preload |-> "property", params |-> "subscriberid", ro |-> "", cons |-> "", action |-> "", aevent |-> "", hint |-> ""]) @@
  ("decimal" :> [tag |-> "input", media |-> "", btype |-> "decimal", preload |-> "", params |-> "", ro |-> "", cons |-> "", action |-> "", aevent |-> "", hint |-> ""]) @@
  ("dateTime" :> [tag |-> "input", media |-> "", btype |-> "dateTime", preload |-> "", params |-> "", ro |-> "", cons |-> "", action |-> "", aevent |-> "", hint |-> ""]) @@
  ("q audio" :> [tag |-> "upload", media |-> "audio/*", btype |-> "binary", preload |-> "", params |-> "", ro |-> "", cons |-> "", action |-> "", aevent |-> "", hint |-> ""]) @@
  ("q geopoint" :> [tag |-> "input", media |-> "", btype |-> "geopoint", preload |-> "", params |-> "", ro |-> "", cons |-> "", action |-> "", aevent |-> "", hint |-> ""]) @@
  ("q geoshape" :> [tag |-> "input", media |-> "", btype |-> "geoshape", preload |-> "", params |-> "", ro |-> "", cons |-> "", action |-> "", aevent |-> "", hint |-> ""]) @@
  ("q geotrace" :> [tag |-> "input", media |-> "", btype |-> "geotrace", preload |-> "", params |-> "", ro |-> "", cons |-> "", action |-> "", aevent |-> "", hint |-> ""]) @@
  ("q image" :> [tag |-> "upload", media |-> "image/*", btype |-> "binary", preload |-> "", params |-> "", ro |-> "", cons |-> "", action |-> "", aevent |-> "", hint |-> ""]) @@
  ("get today" :> [tag |-> "none", media |-> "", btype |-> "date", preload |-> "date", params |-> "today", ro |-> "", cons |-> "", action |-> "", aevent |-> "", hint |-> ""]) @@
  ("video" :> [tag |-> "upload", media |-> "video/*", btype |-> "binary", preload |-> "", params |-> "", ro |-> "", cons |-> "", action |-> "", aevent |-> "", hint |-> ""]) @@
  ("q acknowledge" :> [tag |-> "trigger", media |-> "", btype |-> "string", preload |-> "", params |-> "", ro |-> "", cons |-> "", action |-> "", aevent |-> "", hint |-> ""]) @@
  ("add video prompt" :> [tag |-> "upload", media |-> "video/*", btype |-> "binary", preload |-> "", params |-> "", ro |-> "", cons |-> "", action |-> "", aevent |-> "", hint |-> ""]) @@
  ("number of days in last month" :> [tag |-> "input", media |-> "", btype |-> "int", preload |-> "", params |-> "", ro |-> "", cons |-> "0 <= . and . <= 31", action |-> "", aevent |-> "", hint |-> "Enter a number 0-31."]) @@
  ("get sim id" :> [tag |-> "none", media |-> "", btype |-> "string", preload |-> "property", params |-> "simserial", ro |-> "", cons |-> "", action |-> "", aevent |-> "", hint |-> ""]) @@
  ("q location" :> [tag |-> "input", media |-> "", btype |-> "geopoint", preload |-> "", params |-> "", ro |-> "", cons |-> "", action |-> "", aevent |-> "", hint |-> ""]) @@
  ("select one" :> [tag |-> "select1", media |-> "", btype |-> "string", preload |-> "", params |-> "", ro |-> "", cons |-> "", action |-> "", aevent |-> "", hint |-> ""]) @@
  ("select one external" :> [tag |-> "input", media |-> "", btype |-> "string", preload |-> "", params |-> "", ro |-> "", cons |-> "", action |-> "", aevent |-> "", hint |-> ""]) @@
  ("add image prompt" :> [tag |-> "upload", media |-> "image/*", btype |-> "binary", preload |-> "", params |-> "", ro |-> "", cons |-> "", action |-> "", aevent |-> "", hint |-> ""]) @@
  ("select all that apply" :> [tag |-> "select", media |-> "", btype |-> "string", preload |-> "", params |-> "", ro |-> "", cons |-> "", action |-> "", aevent |-> "", hint |-> ""]) @@
  ("get end time" :> [tag |-> "none", media |-> "", btype |-> "dateTime", preload |-> "timestamp", params |-> "end", ro |-> "", cons |-> "", action |-> "", aevent |-> "", hint |-> ""]) @@
  ("barcode" :> [tag |-> "input", media |-> "", btype |-> "barcode", preload |-> "", params |-> "", ro |-> "", cons |-> "", action |-> "", aevent |-> "", hint |-> ""]) @@
  ("q video" :> [tag |-> "upload", media |-> "video/*", btype |-> "binary", preload |-> "", params |-> "", ro |-> "", cons |-> "", action |-> "", aevent |-> "", hint |-> ""]) @@
  ("geopoint" :> [tag |-> "input", media |-> "", btype |-> "geopoint", preload |-> "", params |-> "", ro |-> "", cons |-> "", action |-> "", aevent |-> "", hint |-> ""]) @@
  ("geoshape" :> [tag |-> "input", media |-> "", btype |-> "geoshape", preload |-> "", params |-> "", ro |-> "", cons |-> "", action |-> "", aevent |-> "", hint |-> ""]) @@
  ("geotrace" :> [tag |-> "input", media |-> "", btype |-> "geotrace", preload |-> "", params |-> "", ro |-> "", cons |-> "", action |-> "", aevent |-> "", hint |-> ""]) @@
  ("select multiple from" :> [tag |-> "select", media |-> "", btype |-> "string", preload |-> "", params |-> "", ro |-> "", cons |-> "", action |-> "", aevent |-> "", hint |-> ""]) @@
  ("end time" :> [tag |-> "none", media |-> "", btype |-> "dateTime", preload |-> "timestamp", params |-> "end", ro |-> "", cons |-> "", action |-> "", aevent |-> "", hint |-> ""]) @@
  ("device id" :> [tag |-> "none", media |-> "", btype |-> "string", preload |-> "property", params |-> "deviceid", ro |-> "", cons |-> "", action |-> "", aevent |-> "", hint |-> ""]) @@
  ("subscriberid" :> [tag |-> "none", media |-> "", btype |-> "string", preload |-> "property", params |-> "subscriberid", ro |-> "", cons |-> "", action |-> "", aevent |-> "", hint |-> ""]) @@
  ("q barcode" :> [tag |-> "input", media |-> "", btype |-> "barcode", preload |-> "", params |-> "", ro |-> "", cons |-> "", action |-> "", aevent |-> "", hint |-> ""]) @@
  ("q select" :> [tag |-> "select", media |-> "", btype |-> "string", preload |-> "", params |-> "", ro |-> "", cons |-> "", action |-> "", aevent |-> "", hint |-> ""]) @@
  ("select one using" :> [tag |-> "select1", media |-> "", btype |-> "string", preload |-> "", params |-> "", ro |-> "", cons |-> "", action |-> "", aevent |-> "", hint |-> ""]) @@
  ("rank" :> [tag |-> "odk:rank", media |-> "", btype |-> "odk:rank", preload |-> "", params |-> "", ro |-> "", cons |-> "", action |-> "", aevent |-> "", hint |-> ""]) @@
  ("image" :> [tag |-> "upload", media |-> "image/*", btype |-> "binary", preload |-> "", params |-> "", ro |-> "", cons |-> "", action |-> "", aevent |-> "", hint |-> ""]) @@
  ("q int" :> [tag |-> "input", media |-> "", btype |-> "int", preload |-> "", params |-> "", ro |-> "", cons |-> "", action |-> "", aevent |-> "", hint |-> ""]) @@
  ("add text prompt" :> [tag |-> "input", media |-> "", btype |-> "string", preload |-> "", params |-> "", ro |-> "", cons |-> "", action |-> "", aevent |-> "", hint |-> ""]) @@
  ("add date prompt" :> [tag |-> "input", media |-> "", btype |-> "date", preload |-> "", params |-> "", ro |-> "", cons |-> "", action |-> "", aevent |-> "", hint |-> ""]) @@
  ("q calculate" :> [tag |-> "none", media |-> "", btype |-> "string", preload |-> "", params |-> "", ro |-> "", cons |-> "", action |-> "", aevent |-> "", hint |-> ""]) @@
  ("start" :> [tag |-> "none", media |-> "", btype |-> "dateTime", preload |-> "timestamp", params |-> "start", ro |-> "", cons |-> "", action |-> "", aevent |-> "", hint |-> ""]) @@
  ("trigger" :> [tag |-> "trigger", media |-> "", btype |-> "", preload |-> "", params |-> "", ro |-> "", cons |-> "", action |-> "", aevent |-> "", hint |-> ""]) @@
  ("add acknowledge prompt" :> [tag |-> "trigger", media |-> "", btype |-> "string", preload |-> "", params |-> "", ro |-> "", cons |-> "", action |-> "", aevent |-> "", hint |-> ""]) @@
  ("percentage" :> [tag |-> "input", media |-> "", btype |-> "int", preload |-> "", params |-> "", ro |-> "", cons |-> "0 <= . and . <= 100", action |-> "", aevent |-> "", hint |-> ""]) @@
  ("get phone number" :> [tag |-> "none", media |-> "", btype |-> "string", preload |-> "property", params |-> "phonenumber", ro |-> "", cons |-> "", action |-> "", aevent |-> "", hint |-> ""]) @@
  ("today" :> [tag |-> "none", media |-> "", btype |-> "date", preload |-> "date", params |-> "today", ro |-> "", cons |-> "", action |-> "", aevent |-> "", hint |-> ""]) @@
  ("gps" :> [tag |-> "input", media |-> "", btype |-> "geopoint", preload |-> "", params |-> "", ro |-> "", cons |-> "", action |-> "", aevent |-> "", hint |-> ""]) @@
  ("q date" :> [tag |-> "input", media |-> "", btype |-> "date", preload |-> "", params |-> "", ro |-> "", cons |-> "", action |-> "", aevent |-> "", hint |-> ""]) @@
  ("sim id" :> [tag |-> "none", media |-> "", btype |-> "string", preload |-> "property", params |-> "simserial", ro |-> "", cons |-> "", action |-> "", aevent |-> "", hint |-> ""]) @@
  ("add decimal prompt" :> [tag |-> "input", media |-> "", btype |-> "decimal", preload |-> "", params |-> "", ro |-> "", cons |-> "", action |-> "", aevent |-> "", hint |-> ""]) @@
  ("number of days in last six months" :> [tag |-> "input", media |-> "", btype |-> "int", preload |-> "", params |-> "", ro |-> "", cons |-> "0 <= . and . <= 183", action |-> "", aevent |-> "", hint |-> "Enter a number 0-183."]) @@
  ("deviceid" :> [tag |-> "none", media |-> "", btype |-> "string", preload |-> "property", params |-> "deviceid", ro |-> "", cons |-> "", action |-> "", aevent |-> "", hint |-> ""]) @@
  ("int" :> [tag |-> "input", media |-> "", btype |-> "int", preload |-> "", params |-> "", ro |-> "", cons |-> "", action |-> "", aevent |-> "", hint |-> ""]) @@
  ("add barcode prompt" :> [tag |-> "input", media |-> "", btype |-> "barcode", preload |-> "", params |-> "", ro |-> "", cons |-> "", action |-> "", aevent |-> "", hint |-> ""]) @@
  ("select multiple using" :> [tag |-> "select", media |-> "", btype |-> "string", preload |-> "", params |-> "", ro |-> "", cons |-> "", action |-> "", aevent |-> "", hint |-> ""]) @@
  ("q decimal" :> [tag |-> "input", media |-> "", btype |-> "decimal", preload |-> "", params |-> "", ro |-> "", cons |-> "", action |-> "", aevent |-> "", hint |-> ""]) @@
  ("end" :> [tag |-> "none", media |-> "", btype |-> "dateTime", preload |-> "timestamp", params |-> "end", ro |-> "", cons |-> "", action |-> "", aevent |-> "", hint |-> ""]) @@
  ("add calculate prompt" :> [tag |-> "none", media |-> "", btype |-> "string", preload |-> "", params |-> "", ro |-> "", cons |-> "", action |-> "", aevent |-> "", hint |-> ""]) @@
  ("add dateTime prompt" :> [tag |-> "input", media |-> "", btype |-> "dateTime", preload |-> "", params |-> "", ro |-> "", cons |-> "", action |-> "", aevent |-> "", hint |-> ""]) @@
  ("note" :> [tag |-> "input", media |-> "", btype |-> "string", preload |-> "", params |-> "", ro |-> "true()", cons |-> "", action |-> "", aevent |-> "", hint |-> ""]) @@
  ("add location prompt" :> [tag |-> "input", media |-> "", btype |-> "geopoint", preload |-> "", params |-> "", ro |-> "", cons |-> "", action |-> "", aevent |-> "", hint |-> ""]) @@
  ("get subscriber id" :> [tag |-> "none", media |-> "", btype |-> "string", preload |-> "property", params |-> "subscriberid", ro |-> "", cons |-> "", action |-> "", aevent |-> "", hint |-> ""]) @@
  ("phone number" :> [tag |-> "input", media |-> "", btype |-> "string", preload |-> "", params |-> "", ro |-> "", cons |-> "regex(., '^\\d*$')", action |-> "", aevent |-> "", hint |-> "Enter numbers only."]) @@
  ("get device id" :> [tag |-> "none", media |-> "", btype |-> "string", preload |-> "property", params |-> "deviceid", ro |-> "", cons |-> "", action |-> "", aevent |-> "", hint |-> ""]) @@
  ("add integer prompt" :> [tag |-> "input", media |-> "", btype |-> "int", preload |-> "", params |-> "", ro |-> "", cons |-> "", action |-> "", aevent |-> "", hint |-> ""]) @@
  ("q dateTime" :> [tag |-> "input", media |-> "", btype |-> "dateTime", preload |-> "", params |-> "", ro |-> "", cons |-> "", action |-> "", aevent |-> "", hint |-> ""]) @@
  ("date" :> [tag |-> "input", media |-> "", btype |-> "date", preload |-> "", params |-> "", ro |-> "", cons |-> "", action |-> "", aevent |-> "", hint |-> ""]) @@
  ("q select1" :> [tag |-> "select1", media |-> "", btype |-> "string", preload |-> "", params |-> "", ro |-> "", cons |-> "", action |-> "", aevent |-> "", hint |-> ""]) @@
  ("start time" :> [tag |-> "none", media |-> "", btype |-> "dateTime", preload |-> "timestamp", params |-> "start", ro |-> "", cons |-> "", action |-> "", aevent |-> "", hint |-> ""]) @@
  ("number of days in last year" :> [tag |-> "input", media |-> "", btype |-> "int", preload |-> "", params |-> "", ro |-> "", cons |-> "0 <= . and . <= 365", action |-> "", aevent |-> "", hint |-> "Enter a number 0-365."]) @@
  ("date time" :> [tag |-> "input", media |-> "", btype |-> "dateTime", preload |-> "", params |-> "", ro |-> "", cons |-> "", action |-> "", aevent |-> "", hint |-> ""]) @@
  ("time" :> [tag |-> "input", media |-> "", btype |-> "time", preload |-> "", params |-> "", ro |-> "", cons |-> "", action |-> "", aevent |-> "", hint |-> ""]) @@
  ("audio" :> [tag |-> "upload", media |-> "audio/*", btype |-> "binary", preload |-> "", params |-> "", ro |-> "", cons |-> "", action |-> "", aevent |-> "", hint |-> ""]) @@
  ("add select one prompt using" :> [tag |-> "select1", media |-> "", btype |-> "string", preload |-> "", params |-> "", ro |-> "", cons |-> "", action |-> "", aevent |-> "", hint |-> ""]) @@
  ("hidden" :> [tag |-> "none", media |-> "", btype |-> "string", preload |-> "", params |-> "", ro |-> "", cons |-> "", action |-> "", aevent |-> "", hint |-> ""]) @@
  ("uri:subscriberid" :> [tag |-> "none", media |-> "", btype |-> "string", preload |-> "property", params |-> "uri:subscriberid", ro |-> "", cons |-> "", action |-> "", aevent |-> "", hint |-> ""]) @@
  ("uri:phonenumber" :> [tag |-> "none", media |-> "", btype |-> "string", preload |-> "property", params |-> "uri:phonenumber", ro |-> "", cons |-> "", action |-> "", aevent |-> "", hint |-> ""]) @@
  ("uri:simserial" :> [tag |-> "none", media |-> "", btype |-> "string", preload |-> "property", params |-> "uri:simserial", ro |-> "", cons |-> "", action |-> "", aevent |-> "", hint |-> ""]) @@
  ("uri:deviceid" :> [tag |-> "none", media |-> "", btype |-> "string", preload |-> "property", params |-> "uri:deviceid", ro |-> "", cons |-> "", action |-> "", aevent |-> "", hint |-> ""]) @@
  ("username" :> [tag |-> "none", media |-> "", btype |-> "string", preload |-> "property", params |-> "username", ro |-> "", cons |-> "", action |-> "", aevent |-> "", hint |-> ""]) @@
  ("uri:username" :> [tag |-> "none", media |-> "", btype |-> "string", preload |-> "property", params |-> "uri:username", ro |-> "", cons |-> "", action |-> "", aevent |-> "", hint |-> ""]) @@
  ("email" :> [tag |-> "none", media |-> "", btype |-> "string", preload |-> "property", params |-> "email", ro |-> "", cons |-> "", action |-> "", aevent |-> "", hint |-> ""]) @@
  ("uri:email" :> [tag |-> "none", media |-> "", btype |-> "string", preload |-> "property", params |-> "uri:email", ro |-> "", cons |-> "", action |-> "", aevent |-> "", hint |-> ""]) @@
  ("osm" :> [tag |-> "upload", media |-> "osm/*", btype |-> "binary", preload |-> "", params |-> "", ro |-> "", cons |-> "", action |-> "", aevent |-> "", hint |-> ""]) @@
  ("file" :> [tag |-> "upload", media |-> "application/*", btype |-> "binary", preload |-> "", params |-> "", ro |-> "", cons |-> "", action |-> "", aevent |-> "", hint |-> ""]) @@
  ("add file prompt" :> [tag |-> "upload", media |-> "application/*", btype |-> "binary", preload |-> "", params |-> "", ro |-> "", cons |-> "", action |-> "", aevent |-> "", hint |-> ""]) @@
  ("range" :> [tag |-> "range", media |-> "", btype |-> "int", preload |-> "", params |-> "", ro |-> "", cons |-> "", action |-> "", aevent |-> "", hint |-> ""]) @@
  ("audit" :> [tag |-> "none", media |-> "", btype |-> "binary", preload |-> "", params |-> "", ro |-> "", cons |-> "", action |-> "", aevent |-> "", hint |-> ""]) @@
  ("xml-external" :> [tag |-> "none", media |-> "", btype |-> "", preload |-> "", params |-> "", ro |-> "", cons |-> "", action |-> "", aevent |-> "", hint |-> ""]) @@
  ("csv-external" :> [tag |-> "none", media |-> "", btype |-> "", preload |-> "", params |-> "", ro |-> "", cons |-> "", action |-> "", aevent |-> "", hint |-> ""]) @@
  ("start-geopoint" :> [tag |-> "none", media |-> "", btype |-> "geopoint", preload |-> "", params |-> "", ro |-> "", cons |-> "", action |-> "odk:setgeopoint", aevent |-> "odk-instance-first-load", hint |-> ""]) @@
  ("background-audio" :> [tag |-> "none", media |-> "", btype |-> "binary", preload |-> "", params |-> "", ro |-> "", cons |-> "", action |-> "odk:recordaudio", aevent |-> "odk-instance-load", hint |-> ""]) @@
  ("background-geopoint" :> [tag |-> "trigger", media |-> "", btype |-> "geopoint", preload |-> "", params |-> "", ro |-> "", cons |-> "", action |-> "", aevent |-> "", hint |-> ""])

Types == DOMAIN TypeTable
TypeKnown(t) == t \in Types
TagOf(t) == IF t \in Types THEN TypeTable[t].tag ELSE "none"
=============================================================================
