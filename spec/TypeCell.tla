------------------------------ MODULE TypeCell ------------------------------
(***************************************************************************)
(* The grammar of the survey sheet's `type` cell (C13 spellings, C17       *)
(* unknown types; underlies C04).                                          *)
(*                                                                         *)
(* After whitespace cleaning a type cell is a sequence of blank-free WORDS *)
(* joined by single blanks.  Besides the plain question types (TypeTable)  *)
(* there are four structured forms, each with alias spellings:             *)
(*    begin<sep>CONTROL [ [over] LIST ]        <sep> is a blank or "_"     *)
(*    end<sep>CONTROL                                                      *)
(*    SELECT LIST [ OTHER ]                                                *)
(*    osm LIST                                                             *)
(* This module holds                                                       *)
(*   - the alias tables (the specification's own frozen copy of            *)
(*     pyxform/aliases.py at the pinned commit, in regex alternation order)*)
(*   - Parse(ws): a TRANSCRIPTION of the cascade in workbook_to_json       *)
(*     (settings-type rows, RE_END_CONTROL, RE_BEGIN_CONTROL, RE_SELECT,   *)
(*     RE_OSM, type table) on word sequences;                              *)
(*   - Meaning(c) / InDomain(c): the ENVELOPE - what a cell written in a   *)
(*     documented spelling means, independent of alias and separator;      *)
(*   - a generator of cells: every alias x separator x tail, and near      *)
(*     misses (extra words, missing list, wrong case, glued prefixes).     *)
(* TLC checks that the transcription meets the envelope, that the          *)
(* separators agree everywhere, and lists the cells whose reading depends  *)
(* on the order of the regex alternatives.                                 *)
(***************************************************************************)
EXTENDS Naturals, Sequences, FiniteSets, TLC, TypeTable

A(w, t) == [w |-> w, t |-> t]
ControlAliases == <<
  A(<<"group">>, "group"), A(<<"lgroup">>, "repeat"), A(<<"repeat">>, "repeat"), A(<<"loop">>, "loop"), A(<<"looped", "group">>, "repeat") >>
\* t: the JSON question type; ff: the list is a file name (select from file)
S(w, t, ff) == [w |-> w, t |-> t, ff |-> ff]
SelectAliases == <<
  S(<<"add", "select", "one", "prompt", "using">>, "select one", FALSE),
  S(<<"add", "select", "multiple", "prompt", "using">>, "select all that apply", FALSE),
  S(<<"select", "all", "that", "apply", "from">>, "select all that apply", FALSE),
  S(<<"select", "one", "from">>, "select one", FALSE),
  S(<<"select1">>, "select one", FALSE),
  S(<<"select_one">>, "select one", FALSE),
  S(<<"select", "one">>, "select one", FALSE),
  S(<<"select_multiple">>, "select all that apply", FALSE),
  S(<<"select", "all", "that", "apply">>, "select all that apply", FALSE),
  S(<<"select_one_external">>, "select one external", FALSE),
  S(<<"select_one_from_file">>, "select one", TRUE),
  S(<<"select_multiple_from_file">>, "select all that apply", TRUE),
  S(<<"select", "one", "from", "file">>, "select one", TRUE),
  S(<<"select", "multiple", "from", "file">>, "select all that apply", TRUE),
  S(<<"rank">>, "rank", FALSE) >>
OtherSpellings == {<<"or", "specify", "other">>, <<"or_other">>, <<"or", "other">>}
SettingsTypes == {"form_title", "set_form_title", "form_id", "set_form_id", "prefix"}   \* legacy: a survey row that sets a form setting
ListNames == {"L"}                 \* a list the choices sheet defines
FileNames == {"f.csv"}
NC == Len(ControlAliases)
NS == Len(SelectAliases)

RECURSIVE Join(_)
Join(ws) == IF ws = <<>> THEN "" ELSE IF Len(ws) = 1 THEN ws[1] ELSE ws[1] \o " " \o Join(Tail(ws))
StartsWith(ws, p) == Len(ws) >= Len(p) /\ SubSeq(ws, 1, Len(p)) = p
Rest(ws, p) == SubSeq(ws, Len(p) + 1, Len(ws))
\* keyword and alias joined by a blank (two words) or by "_" (one word)
Heads(kw, a) == {<<kw>> \o a.w, <<kw \o "_" \o a.w[1]>> \o Tail(a.w)}
Min(S_) == CHOOSE x \in S_ : \A y \in S_ : x <= y

(* ------------------------------------------------------------------ transcription of the cascade *)
EndParses(ws) == {i \in 1..NC : ws \in Heads("end", ControlAliases[i])}
\* ^begin(\s|_)ALIAS( (over )?(\S+))?$
BeginTail(r) == IF r = <<>> THEN {""} ELSE IF Len(r) = 1 THEN {r[1]} ELSE IF Len(r) = 2 /\ r[1] = "over" THEN {r[2]} ELSE {}
BeginParses(ws) ==
  UNION {UNION {{[i |-> i, list |-> l] : l \in BeginTail(Rest(ws, h))} : h \in {g \in Heads("begin", ControlAliases[i]) : StartsWith(ws, g)}} : i \in 1..NC}
\* ^ALIAS (\S+)( (or specify other|or_other|or other))?$
SelectParses(ws) ==
  {p \in {[i |-> i, list |-> Rest(ws, SelectAliases[i].w)[1], other |-> Len(Rest(ws, SelectAliases[i].w)) > 1] :
            i \in {j \in 1..NS : StartsWith(ws, SelectAliases[j].w) /\ Len(ws) > Len(SelectAliases[j].w)}} :
       LET r == Rest(ws, SelectAliases[p.i].w) IN Len(r) = 1 \/ SubSeq(r, 2, Len(r)) \in OtherSpellings}
OsmParse(ws) == Len(ws) = 2 /\ ws[1] = "osm"        \* ^osm (\S+)$
NoParse == [k |-> "unknown", t |-> "", list |-> "", other |-> FALSE, ff |-> FALSE]
Parse(ws) ==
  IF Len(ws) = 1 /\ ws[1] \in SettingsTypes THEN [NoParse EXCEPT !.k = "setting", !.t = ws[1]]
  ELSE IF EndParses(ws) # {} THEN [NoParse EXCEPT !.k = "end", !.t = ControlAliases[Min(EndParses(ws))].t]
  ELSE IF BeginParses(ws) # {} THEN
         LET i == Min({p.i : p \in BeginParses(ws)})
             p == CHOOSE q \in BeginParses(ws) : q.i = i
         IN [NoParse EXCEPT !.k = "begin", !.t = ControlAliases[i].t, !.list = p.list]
  ELSE IF SelectParses(ws) # {} THEN
         LET i == Min({p.i : p \in SelectParses(ws)})        \* the first alternative of the regex that matches
             p == CHOOSE q \in SelectParses(ws) : q.i = i
         IN [k |-> "select", t |-> SelectAliases[i].t, list |-> p.list, other |-> p.other, ff |-> SelectAliases[i].ff \/ p.list \in FileNames]   \* (a list with a file extension is a file, whatever the alias)
  ELSE IF OsmParse(ws) THEN [NoParse EXCEPT !.k = "osm", !.t = "osm", !.list = ws[2]]
  ELSE IF Join(ws) \in Types THEN [NoParse EXCEPT !.k = "plain", !.t = Join(ws)]
  ELSE NoParse
\* cells whose reading depends on the order of the alternatives in RE_SELECT
OrderDependent(ws) == Cardinality({<<p.list, p.other, SelectAliases[p.i].t>> : p \in SelectParses(ws)}) > 1

(* ------------------------------------------------------------------ cells (generator side) *)
\* c: [k, ai, sep, tail, head]   k in begin/end/select/osm/raw;  ai alias index;  sep " " or "_";  tail: the words after the alias;
\*                               head (raw only): the whole cell
Cell(k, ai, sep, tail) == [k |-> k, ai |-> ai, sep |-> sep, tail |-> tail]
Words(c) ==
  CASE c.k \in {"begin", "end"} ->
         LET a == ControlAliases[c.ai] IN
         (IF c.sep = "_" THEN <<c.k \o "_" \o a.w[1]>> \o Tail(a.w) ELSE <<c.k>> \o a.w) \o c.tail
    [] c.k = "select" -> SelectAliases[c.ai].w \o c.tail
    [] c.k = "osm" -> <<"osm">> \o c.tail
    [] OTHER -> c.tail

(* ------------------------------------------------------------------ envelope *)
InDomain(c) ==
  CASE c.k = "begin" -> IF ControlAliases[c.ai].t = "loop" THEN c.tail \in {<<l>> : l \in ListNames} \cup {<<"over", l>> : l \in ListNames} ELSE c.tail = <<>>
    [] c.k = "end" -> c.tail = <<>>
    [] c.k = "select" -> LET a == SelectAliases[c.ai] IN
                         /\ c.tail # <<>> /\ c.tail[1] \in (IF a.ff THEN FileNames ELSE ListNames)
                         /\ (Len(c.tail) = 1 \/ (Tail(c.tail) \in OtherSpellings /\ ~a.ff /\ a.t # "select one external"))
    [] c.k = "osm" -> Len(c.tail) = 1 /\ c.tail[1] \in ListNames
    [] OTHER -> FALSE
Meaning(c) ==
  CASE c.k \in {"begin", "end"} -> [NoParse EXCEPT !.k = c.k, !.t = ControlAliases[c.ai].t, !.list = IF c.tail = <<>> THEN "" ELSE c.tail[Len(c.tail)]]
    [] c.k = "select" -> [k |-> "select", t |-> SelectAliases[c.ai].t, list |-> c.tail[1], other |-> Len(c.tail) > 1, ff |-> SelectAliases[c.ai].ff]
    [] OTHER -> [NoParse EXCEPT !.k = "osm", !.t = "osm", !.list = c.tail[1]]
\* the spelling the documentation uses for a meaning
CanonWords(m) ==
  CASE m.k = "begin" -> <<"begin", m.t>> \o (IF m.list = "" THEN <<>> ELSE <<"over", m.list>>)
    [] m.k = "end" -> <<"end", m.t>>
    [] m.k = "select" -> <<(CASE m.ff /\ m.t = "select one" -> "select_one_from_file"
                              [] m.ff -> "select_multiple_from_file"
                              [] m.t = "select one" -> "select_one"
                              [] m.t = "select all that apply" -> "select_multiple"
                              [] m.t = "select one external" -> "select_one_external"
                              [] OTHER -> "rank")>> \o <<m.list>> \o (IF m.other THEN <<"or_other">> ELSE <<>>)
    [] OTHER -> <<"osm", m.list>>

(* ------------------------------------------------------------------ the generator *)
CONSTANTS Wide
TailWords == IF Wide THEN {"L", "f.csv", "over", "or_other", "from", "file", "other", "group", "M"} ELSE {"L", "f.csv", "over", "or_other", "from"}
Tails == {<<>>} \cup {<<a>> : a \in TailWords} \cup {<<a, b>> : a \in TailWords, b \in TailWords}
         \cup {<<l>> \o o : l \in {"L", "f.csv", "from"}, o \in OtherSpellings} \cup {<<"L", "L">> \o o : o \in OtherSpellings}
RawCells == {<<"begin">>, <<"end">>, <<"Begin", "group">>, <<"begin", "Group">>, <<"End", "group">>, <<"Select_one", "L">>, <<"select_one">>, <<"rank">>,
             <<"xosm", "L">>, <<"osm">>, <<"osm", "L", "M">>, <<"gosm", "L">>, <<"begingroup">>, <<"begin_", "group">>, <<"begin", "_group">>, <<"begin__group">>,
             <<"endgroup">>, <<"end", "of", "group">>, <<"texto">>, <<"Text">>, <<"text", "L">>, <<"select", "L">>, <<"select_one_L">>, <<"select_multiple", "L", "or", "others">>,
             <<"selectone", "L">>, <<"select", "one", "from", "or_other">>, <<"form_title">>, <<"prefix">>, <<"text">>, <<"integer">>, <<"add", "select", "one", "prompt", "using">>}
Cells == {Cell(k, i, s, t) : k \in {"begin", "end"}, i \in 1..NC, s \in {" ", "_"}, t \in Tails}
         \cup {Cell("select", i, " ", t) : i \in 1..NS, t \in Tails}
         \cup {Cell("osm", 0, " ", t) : t \in Tails}
         \cup {Cell("raw", 0, " ", t) : t \in RawCells}
Pads == {"none", "lead", "trail", "double"}

VARIABLES c, pad, phase
tvars == <<c, pad, phase>>
TInit0 == phase = "pick" /\ c = Cell("raw", 0, " ", <<"text">>) /\ pad = "none"
\* blank padding is tried on the documented cells (it is cleaned away before the cell is read)
TPick == phase = "pick" /\ phase' = "done" /\ c' \in Cells /\ pad' \in (IF InDomain(c') THEN Pads ELSE {"none"})
GNext == TPick
GSpec == TInit0 /\ [][GNext]_tvars

(* design checks on every generated cell *)
TranscriptionMeetsEnvelope == (phase = "done" /\ InDomain(c)) => Parse(Words(c)) = Meaning(c)
CanonicalSpellingMeansTheSame == (phase = "done" /\ InDomain(c)) => Parse(CanonWords(Meaning(c))) = Meaning(c)
SeparatorsAgree == (phase = "done" /\ c.k \in {"begin", "end"}) => Parse(Words([c EXCEPT !.sep = " "])) = Parse(Words([c EXCEPT !.sep = "_"]))
DocumentedCellsAreOrderIndependent == (phase = "done" /\ InDomain(c)) => ~OrderDependent(Words(c))
SeqToSet(s) == {s[i] : i \in 1..Len(s)}
=============================================================================
