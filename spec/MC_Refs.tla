------------------------------ MODULE MC_Refs ------------------------------
(* Design-level check of the C03 envelope (Refs.tla) and generator of referrer/target placements. *)
(* A layout is a chain of common ancestors, then a referrer branch and a target branch, every      *)
(* step a group ("g") or a repeat ("r").  For every layout TLC checks that the envelope is         *)
(* satisfiable, that the canonical relative path (up to the deepest common ancestor, then down)    *)
(* satisfies it, and that an absolute path satisfies it exactly when MustBeRelative is false.      *)
EXTENDS Refs, TLC, Json
CONSTANTS MaxCommon, MaxBranch

VARIABLES lay, phase
mvars == <<lay, phase>>

Kinds == {"g", "r"}
SeqsUpTo(n) == UNION {[1..k -> Kinds] : k \in 0..n}
Layouts == {[c |-> c, rb |-> a, tb |-> b] : c \in SeqsUpTo(MaxCommon), a \in SeqsUpTo(MaxBranch), b \in SeqsUpTo(MaxBranch)}

K(x) == IF x = "g" THEN "group" ELSE "repeat"
Nm(prefix, i) == prefix \o ToString(i)
ChainPath(prefix, n) == [i \in 1..n |-> Nm(prefix, i)]
CommonPath(L) == ChainPath("c", Len(L.c))
RefPath(L) == CommonPath(L) \o ChainPath("a", Len(L.rb)) \o <<"referrer">>
TgtPath(L) == CommonPath(L) \o ChainPath("b", Len(L.tb)) \o <<"target">>
Tree(L) ==
     [i \in 1..Len(L.c)  |-> [p |-> SubSeq(CommonPath(L), 1, i), kind |-> K(L.c[i])]]
  \o [i \in 1..Len(L.rb) |-> [p |-> CommonPath(L) \o SubSeq(ChainPath("a", Len(L.rb)), 1, i), kind |-> K(L.rb[i])]]
  \o <<[p |-> RefPath(L), kind |-> "q"]>>
  \o [i \in 1..Len(L.tb) |-> [p |-> CommonPath(L) \o SubSeq(ChainPath("b", Len(L.tb)), 1, i), kind |-> K(L.tb[i])]]
  \o <<[p |-> TgtPath(L), kind |-> "q"]>>

Abs(L) == [abs |-> TRUE, up |-> 0, path |-> TgtPath(L), cur |-> FALSE, inst |-> ""]
Canon(L) == [abs |-> FALSE, up |-> Len(L.rb) + 1, path |-> ChainPath("b", Len(L.tb)) \o <<"target">>, cur |-> FALSE, inst |-> ""]
EnvOK(L, e) == /\ (e.abs \/ e.up <= Len(RefPath(L)))
               /\ Resolve(RefPath(L), e) = TgtPath(L)
               /\ (MustBeRelative(Tree(L), RefPath(L), TgtPath(L)) => ~e.abs)

Init == lay \in Layouts /\ phase = "new"
Next == phase = "new" /\ phase' = "checked" /\ UNCHANGED lay
Spec == Init /\ [][Next]_mvars

CanonicalAlwaysOK == EnvOK(lay, Canon(lay))
AbsoluteOKIffFree == EnvOK(lay, Abs(lay)) <=> ~MustBeRelative(Tree(lay), RefPath(lay), TgtPath(lay))
MustBeRelativeIffCommonRepeat ==
   MustBeRelative(Tree(lay), RefPath(lay), TgtPath(lay))
     <=> ((\E i \in 1..Len(lay.c) : lay.c[i] = "r") /\ (\A i \in 1..Len(lay.tb) : lay.tb[i] = "g"))
NamesUnique == NameKnown(Tree(lay), "target") /\ NameKnown(Tree(lay), "referrer")
Emit == (phase = "checked") => PrintT(ToJson([c |-> lay.c, rb |-> lay.rb, tb |-> lay.tb,
                                              must |-> MustBeRelative(Tree(lay), RefPath(lay), TgtPath(lay))]))
=============================================================================
