-------------------------- MODULE Trace_RowParser --------------------------
(* Trace validation for RowParser: every recorded execution of the real row loop must be a       *)
(* behaviour of the specification, and the XForm it emitted must lie inside the envelopes of     *)
(* C04 (rows map one-to-one onto instance and body), C02 (closure and uniqueness) and the        *)
(* structural part of C17 (predicted rejections happen; never an internal exception).            *)
(* A batch file holds many traces; one initial state per trace (tid).                            *)
EXTENDS RowParser, Refs, Json, IOUtils

VARIABLES tid, l
tvars == <<rpvars, tid, l>>

Traces == JsonDeserialize(IOEnv.TRACE_FILE)
Prop == IOEnv.PROP                      \* which property's envelope is being decided
Source == IOEnv.VERIF_SRC                \* "gen" (generated forms) | "suite" (recorded from the repository's tests)
T == Traces[tid]
Ev == T[l]

Check(name, cond) == IF cond THEN TRUE ELSE (PrintT(<<"AT", tid, l, name>>) /\ FALSE)

ConvCfg(c) == [lists |-> ToSet(c.lists), formname |-> c.formname, omitid |-> c.omitid,
               iname |-> c.iname, entity |-> c.entity, entlabel |-> c.entlabel]

TInit == /\ tid \in 1..Len(Traces)
         /\ l = 2
         /\ RPInit(ConvCfg(Traces[tid][1].cfg))

Snap(e) == /\ Len(stack) = Len(e.kinds)
           /\ \A i \in 1..Len(stack) : stack[i].ct = e.kinds[i] /\ stack[i].name = e.names[i]
           /\ Len(nodes) = e.nchildren
           /\ tableList = e.table_list
           /\ Len(meta) = e.nmeta
           /\ nwarn = e.nwarn - T[1].nwarn0

TRow == /\ l <= Len(T) /\ Ev.ev = "row"
        /\ Check("row_after_error", outcome.status = "open")
        /\ Check("rowno", Ev.n = rowno)
        /\ Check("snapshot", Snap(Ev))
        /\ RowStep(Ev.r)
        /\ l' = l + 1 /\ UNCHANGED tid

TRowsDone == /\ l <= Len(T) /\ Ev.ev = "rows_done"
             /\ Check("rows_done_after_error", outcome.status = "open")
             /\ Check("snapshot_done", Snap(Ev))
             /\ Finish
             /\ l' = l + 1 /\ UNCHANGED tid

(* ------------------------------------------------------------------ observed output *)
Obs == Ev.obs
Plain == SelectSeq(Obs.inst, LAMBDA n : n.t = "no")
PlainPaths == [i \in 1..Len(Plain) |-> Plain[i].p]
SeqSet(s) == {s[i] : i \in 1..Len(s)}
NoDup(s) == \A i, j \in 1..Len(s) : i # j => s[i] # s[j]
UserPathSet == {UserNodes[i].p : i \in 1..Len(UserNodes)}

\* C04 (instance): same node set as prescribed, no extra, no missing; user rows in sheet order and nesting
C04Instance ==
  /\ Check("inst_node_set", SeqSet(PlainPaths) = SeqSet(ExpInstance))
  /\ Check("inst_no_dup", Len(PlainPaths) = Len(ExpInstance))
  /\ Check("inst_user_order",
           SelectSeq(PlainPaths, LAMBDA p : p \in UserPathSet) = [i \in 1..Len(UserNodes) |-> UserNodes[i].p])
  /\ Check("inst_full_order", PlainPaths = ExpInstance)
\* C04 (templates): exactly one jr:template copy of each repeat; a template region holds exactly the
\* nodes of that repeat's subtree, in sheet order (a nested repeat may appear there as template and as copy)
TAttr == {i \in 1..Len(Obs.inst) : Obs.inst[i].ta}
TRoots == {i \in TAttr : Obs.inst[i].tr = i}
RECURSIVE Dedup(_, _)
Dedup(s, seen) == IF s = <<>> THEN <<>>
                  ELSE IF Head(s) \in seen THEN Dedup(Tail(s), seen)
                  ELSE <<Head(s)>> \o Dedup(Tail(s), seen \cup {Head(s)})
C04Templates ==
  /\ Check("tmpl_only_repeats", \A i \in TAttr : Obs.inst[i].p \in RepeatPaths)
  /\ Check("tmpl_one_per_repeat", \A p \in RepeatPaths : Cardinality({i \in TAttr : Obs.inst[i].p = p}) = 1)
  /\ Check("tmpl_subtree",
           \A i \in TRoots :
              LET sub == SelectSeq(Obs.inst, LAMBDA n : n.tr = i)
              IN Dedup([j \in 1..Len(sub) |-> sub[j].p], {}) = SubtreeOf(Obs.inst[i].p))
\* C04 (body): the user-visible rows in the same order and nesting, each with the prescribed control
C04Body ==
  /\ Check("body_sequence", [i \in 1..Len(Obs.body) |-> <<Obs.body[i].tag, Obs.body[i].ref>>]
                             = [i \in 1..Len(ExpBody) |-> <<ExpBody[i].tag, ExpBody[i].ref>>])
  /\ Check("body_attrs",
           \A i \in 1..Len(ExpBody) :
              LET oa == ToSet(Obs.body[i].attrs)   \* <<name, value>>
                  ea == ToSet(ExpBody[i].attrs)    \* <<name, value, literal>>
              IN /\ {a[1] : a \in oa} = {a[1] : a \in ea}
                 /\ \A a \in ea : a[3] => <<a[1], a[2]>> \in oa)
  /\ Check("body_nesting",
           \A i \in 1..Len(Obs.body) :
              LET par == Obs.body[i].par
              IN IF par = 0 THEN Len(Obs.body[i].ref) = 1
                 ELSE \/ (Obs.body[par].tag = "group" /\ Obs.body[i].tag = "repeat" /\ Obs.body[par].ref = Obs.body[i].ref)
                      \/ Parent(Obs.body[i].ref) = Obs.body[par].ref)
C04Env == C04Instance /\ C04Templates /\ C04Body

\* C02: closure and uniqueness on what was emitted
AllInstPaths == {Obs.inst[i].p : i \in 1..Len(Obs.inst)}
C02Env ==
  /\ Check("bind_abs", \A i \in 1..Len(Obs.binds) : Obs.binds[i].abs)
  /\ Check("bind_closure", \A i \in 1..Len(Obs.binds) :
              IF Obs.binds[i].attr = "" THEN Obs.binds[i].p \in SeqSet(PlainPaths)
              ELSE \E j \in 1..Len(Plain) : Plain[j].p = Obs.binds[i].p /\ Obs.binds[i].attr \in ToSet(Plain[j].attrs))
  /\ Check("bind_once", NoDup([i \in 1..Len(Obs.binds) |-> <<Obs.binds[i].p, Obs.binds[i].attr>>]))
  /\ Check("body_ref_abs", \A i \in 1..Len(Obs.body) : Obs.body[i].abs)
  /\ Check("body_closure", \A i \in 1..Len(Obs.body) : Obs.body[i].ref \in SeqSet(PlainPaths))
  /\ Check("repeat_count_closure", \A i \in 1..Len(Obs.body) : Obs.body[i].count.has => Obs.body[i].count.p \in SeqSet(PlainPaths))
  /\ Check("body_ref_once",
           \A i, j \in 1..Len(Obs.body) :
              (i < j /\ Obs.body[i].ref = Obs.body[j].ref) =>
                 (Obs.body[i].tag = "group" /\ Obs.body[j].tag = "repeat" /\ Obs.body[j].par = i))
  /\ Check("action_closure", \A i \in 1..Len(Obs.actions) :
              Obs.actions[i].abs /\ Obs.actions[i].p \in SeqSet(PlainPaths))
  /\ Check("sibling_unique", NoDup(PlainPaths))
  /\ Check("tmpl_sibling_unique",
           \A i \in TRoots : LET sub == SelectSeq(Obs.inst, LAMBDA n : n.tr = i /\ ~n.ta)
                             IN \A a, b \in 1..Len(sub) : (a < b /\ sub[a].p = sub[b].p) =>
                                   \E c \in a..b : Len(sub[c].p) < Len(sub[a].p))

(* ------------------------------------------------------------------ C03: one ${name} substitution *)
\* (hook on Survey._var_repl_function; the tree is the specification's own `nodes`, rebuilt from the row events)
RefOK(ev) ==
  IF ev.err THEN Check("ref_error_only_if_unresolvable", ~NameKnown(nodes, ev.name))
  ELSE /\ Check("ref_name_resolvable", NameKnown(nodes, ev.name))
       /\ Check("ref_output_parses", ev.parse_ok)
       \* the path is evaluated from the node the cell belongs to: when the cell text identifies its row uniquely, the context
       \* the substitution used must be that row's node
       /\ Check("ref_context_is_the_owning_row", (ev.owner # <<>> /\ ev.ctxok) => ev.ctx = ev.owner)
       /\ Check("ref_up_within_context", ev.e.abs \/ ev.e.up <= Len(ev.ctx))
       /\ Check("ref_reaches_target", Resolve(ev.ctx, ev.e) = XPathOf(nodes, ev.name))
       /\ Check("ref_relative_inside_shared_repeat",
                (MustBeRelative(nodes, ev.ctx, XPathOf(nodes, ev.name)) /\ ~ev.ls /\ ~ev.in_ir /\ ev.ctxok) => ~ev.e.abs)
       /\ Check("ref_last_saved_instance", ev.ls <=> (ev.e.inst = "__last-saved"))
       /\ Check("ref_last_saved_absolute", ev.ls => ev.e.abs)
       /\ Check("ref_current_in_predicate", (ev.in_pred /\ ~ev.e.abs) => ev.e.cur)

TRef == /\ l <= Len(T) /\ Ev.ev = "ref"
        /\ Check("ref_before_tree_done", outcome.status = "done" \/ (outcome.status = "error" /\ outcome.kind = "bad_ref"))
        /\ (Prop = "C03" => RefOK(Ev))
        /\ l' = l + 1 /\ UNCHANGED <<rpvars, tid>>

\* Output-side cross-check, independent of the hook: every node path found in the emitted expressions and texts,
\* evaluated from the node it belongs to, reaches an existing node, and -- when that node is a user row whose cells carry
\* ${references} -- a node the row actually referenced.
NodeAt(p) == {i \in 1..Len(nodes) : nodes[i].p = p}
OutRefOK(o) ==
  LET tgt == Resolve(o.ctx, o.e)
      C == NodeAt(o.ctx)
  IN /\ (o.e.abs \/ o.e.up <= Len(o.ctx))
     /\ NodeAt(tgt) # {}
     /\ \A i \in C : (nodes[i].gen \in {"", "note"} /\ nodes[i].refs # <<>>) => Last(tgt) \in ToSet(nodes[i].refs)
\* (forms that are not the generator's own may contain XPath typed by the author: the output-side clauses are for Source # "suite")
C03Env == /\ Check("no_residual_reference", Ev.residual = 0)
          /\ Check("emitted_paths_reach_referenced_nodes", Source # "suite" => \A k \in 1..Len(Ev.outrefs) : OutRefOK(Ev.outrefs[k]))
          \* the same rule as for the hooked substitutions, read from the output alone: a path to a node whose innermost repeat
          \* also encloses the node the expression belongs to is relative (outside indexed-repeat() arguments)
          /\ Check("emitted_paths_relative_inside_shared_repeat",
                   Source # "suite" => \A k \in 1..Len(Ev.outrefs) :
                      LET o == Ev.outrefs[k] IN
                      (o.e.inst = "" /\ ~o.in_ir /\ (o.e.abs \/ o.e.up <= Len(o.ctx)) /\ MustBeRelative(nodes, o.ctx, Resolve(o.ctx, o.e))) => ~o.e.abs)
          \* inside the predicate of a secondary-instance expression a relative path is anchored with current()
          /\ Check("emitted_relative_paths_in_instance_predicates_are_anchored",
                   Source # "suite" => \A k \in 1..Len(Ev.outrefs) : (Ev.outrefs[k].in_pred /\ ~Ev.outrefs[k].e.abs) => Ev.outrefs[k].e.cur)
          /\ Check("every_source_reference_substituted",
                   \A i \in 1..Len(nodes) : \A k \in 1..Len(nodes[i].refs) :
                      \E j \in 2..(l - 1) : T[j].ev = "ref" /\ T[j].name = nodes[i].refs[k])

(* ------------------------------------------------------------------ C05: binds *)
\* Source side: Ev.src.binds = <<  <<path, << <<name, value, kind>>, ... >> >>, ... >> for user rows, where kind is
\*   "lit"  - the attribute value must equal `value` exactly
\*   "conv" - yes/no spelling of a convertible attribute: must come out as true()/false()
\*   "norm" - cell contains references: compared after both sides are normalised by the projection
\*   "any"  - presence only
Conv(v) == IF v \in {"yes", "Yes", "YES", "true", "True", "TRUE", "true()"} THEN "true()" ELSE "false()"
TypeBind(t) ==
  IF ~TypeKnown(t) THEN <<>> ELSE
     (IF TypeTable[t].btype # "" THEN <<<<"type", TypeTable[t].btype, "lit">>>> ELSE <<>>)
  \o (IF TypeTable[t].preload # "" THEN <<<<"jr:preload", TypeTable[t].preload, "lit">>>> ELSE <<>>)
  \o (IF TypeTable[t].params # "" THEN <<<<"jr:preloadParams", TypeTable[t].params, "lit">>>> ELSE <<>>)
  \o (IF TypeTable[t].ro # "" THEN <<<<"readonly", TypeTable[t].ro, "lit">>>> ELSE <<>>)
  \o (IF TypeTable[t].cons # "" THEN <<<<"constraint", TypeTable[t].cons, "lit">>>> ELSE <<>>)
SrcBind(p) == LET S == {i \in 1..Len(Ev.src.binds) : Ev.src.binds[i][1] = p}
              IN IF S = {} THEN <<>> ELSE Ev.src.binds[CHOOSE i \in S : TRUE][2]
Merge(a, b) == SelectSeq(a, LAMBDA x : \A j \in 1..Len(b) : b[j][1] # x[1]) \o b
GenBind(n) ==
  CASE n.gen = "count"     -> <<<<"type", "string", "lit">>, <<"readonly", "true()", "lit">>, <<"calculate", "", "any">>>>
    [] n.gen = "other"     -> <<<<"type", "string", "lit">>, <<"relevant", "", "any">>>>
    [] n.gen = "tl_label"  -> <<<<"type", "string", "lit">>, <<"readonly", "true()", "lit">>>>
    [] n.gen = "tl_header" -> TypeBind(n.type)      \* a label-only copy of the first select: same bind type
    [] OTHER               -> <<>>
ExpBind(n) == IF n.gen \in {"", "note"}
                THEN (IF IsSection(n) THEN SrcBind(n.p) ELSE Merge(TypeBind(n.type), SrcBind(n.p)))
                ELSE GenBind(n)
BindMatches(oa, ea) ==     \* oa: << <<name, value, normvalue>> >>, ea: << <<name, value, kind>> >>
  /\ {oa[j][1] : j \in 1..Len(oa)} = {ea[j][1] : j \in 1..Len(ea)}
  /\ \A k \in 1..Len(ea) : \E j \in 1..Len(oa) :
        /\ oa[j][1] = ea[k][1]
        /\ CASE ea[k][3] = "lit"  -> oa[j][2] = ea[k][2]
             [] ea[k][3] = "conv" -> oa[j][2] = Conv(ea[k][2])
             [] ea[k][3] = "norm" -> oa[j][3] = ea[k][2]
             [] OTHER             -> TRUE
C05Env ==
  /\ Check("bind_per_row",
           \A i \in 1..Len(nodes) :
              nodes[i].gen # "meta" =>
                 LET S == {j \in 1..Len(Obs.binds) : Obs.binds[j].p = nodes[i].p /\ Obs.binds[j].attr = ""}
                 IN IF ExpBind(nodes[i]) = <<>> THEN S = {} ELSE Cardinality(S) = 1)
  /\ Check("bind_attributes",
           \A i \in 1..Len(nodes) :
              (nodes[i].gen # "meta" /\ ExpBind(nodes[i]) # <<>>) =>
                 \A j \in 1..Len(Obs.binds) :
                    (Obs.binds[j].p = nodes[i].p /\ Obs.binds[j].attr = "") => BindMatches(Obs.binds[j].attrs, ExpBind(nodes[i])))
  \* the audit row's parameters become attributes of the bind of meta/audit, next to its type-table bind
  /\ Check("audit_bind_attributes",
           SrcBind(<<"meta", "audit">>) # <<>> =>
              LET S == {j \in 1..Len(Obs.binds) : Obs.binds[j].p = <<"meta", "audit">> /\ Obs.binds[j].attr = ""}
              IN /\ Cardinality(S) = 1
                 /\ \A j \in S : BindMatches(Obs.binds[j].attrs, Merge(TypeBind("audit"), SrcBind(<<"meta", "audit">>))))
  /\ Check("bind_only_for_nodes",
           \A j \in 1..Len(Obs.binds) : \E i \in 1..Len(nodes) : nodes[i].p = Obs.binds[j].p)

(* ------------------------------------------------------------------ C10: defaults and triggered calculations *)
\* Ev.src.defaults = << <<path, class, text>> >>, class in {"static","dynamic","either"};
\* Ev.src.triggers = << <<target path, trigger node path, geo?, has calculation?, normalised calculation>> >>;  Obs.setv = every setvalue/setgeopoint observed
LoadEvents == {"odk-instance-first-load", "odk-new-repeat"}
IsLoad(a) == ToSet(a.events) \subseteq LoadEvents /\ a.events # <<>>
IsChanged(a) == ToSet(a.events) = {"xforms-value-changed"}
Copies(p) == {i \in 1..Len(Obs.inst) : Obs.inst[i].p = p}
LoadActs(p) == {j \in 1..Len(Obs.setv) : Obs.setv[j].p = p /\ IsLoad(Obs.setv[j])}
StaticOK(d) == (\A i \in Copies(d[1]) : Obs.inst[i].text = d[3]) /\ LoadActs(d[1]) = {}
Placed(j, p) == LET r == InnermostRepeat(nodes, p)
                IN IF r = <<>> THEN Obs.setv[j].where = "model" /\ ToSet(Obs.setv[j].events) = {"odk-instance-first-load"}
                   ELSE Obs.setv[j].where = "body" /\ Obs.setv[j].rep = r /\ ToSet(Obs.setv[j].events) = LoadEvents
DynamicOK(d) == /\ \A i \in Copies(d[1]) : Obs.inst[i].text = ""
                /\ Cardinality(LoadActs(d[1])) = 1
                /\ \A j \in LoadActs(d[1]) : Placed(j, d[1]) /\ Obs.setv[j].tag = "setvalue" /\ Obs.setv[j].hasvalue
DefaultPaths == {Ev.src.defaults[i][1] : i \in 1..Len(Ev.src.defaults)}
C10Env ==
  /\ Check("default_static", \A i \in 1..Len(Ev.src.defaults) : Ev.src.defaults[i][2] = "static" => StaticOK(Ev.src.defaults[i]))
  /\ Check("default_dynamic", \A i \in 1..Len(Ev.src.defaults) : Ev.src.defaults[i][2] = "dynamic" => DynamicOK(Ev.src.defaults[i]))
  /\ Check("default_either", \A i \in 1..Len(Ev.src.defaults) :
              Ev.src.defaults[i][2] = "either" => (StaticOK(Ev.src.defaults[i]) \/ DynamicOK(Ev.src.defaults[i])))
  /\ Check("no_default_no_action",
           \A j \in 1..Len(Obs.setv) : (IsLoad(Obs.setv[j]) /\ Obs.setv[j].tag = "setvalue") => Obs.setv[j].p \in DefaultPaths)
  /\ Check("no_default_empty_node",
           \A i \in 1..Len(nodes) : (nodes[i].kind = "q" /\ nodes[i].gen \in {"", "note"} /\ nodes[i].p \notin DefaultPaths) =>
              \A k \in Copies(nodes[i].p) : Obs.inst[k].text = "")
  /\ Check("trigger_action",
           \A i \in 1..Len(Ev.src.triggers) :
              LET tg == Ev.src.triggers[i]
                  A == {j \in 1..Len(Obs.setv) : Obs.setv[j].p = tg[1] /\ IsChanged(Obs.setv[j])}
              IN /\ Cardinality(A) = 1
                 /\ \A j \in A : /\ Obs.setv[j].where = "body" /\ Obs.setv[j].parent = tg[2]
                                   /\ Obs.setv[j].tag = (IF tg[3] THEN "odk:setgeopoint" ELSE "setvalue")
                                   \* the action carries this row's own calculation, or no value at all
                                   /\ Obs.setv[j].hasvalue = tg[4]
                                   /\ (tg[4] => Obs.setv[j].value = tg[5]))
  /\ Check("trigger_not_also_calculate",
           \A i \in 1..Len(Ev.src.triggers) :
              \A j \in 1..Len(Obs.binds) : Obs.binds[j].p = Ev.src.triggers[i][1] =>
                 \A k \in 1..Len(Obs.binds[j].attrs) : Obs.binds[j].attrs[k][1] # "calculate")
  /\ Check("only_declared_triggers",
           \A j \in 1..Len(Obs.setv) : IsChanged(Obs.setv[j]) =>
              \E i \in 1..Len(Ev.src.triggers) : Ev.src.triggers[i][1] = Obs.setv[j].p)

(* ------------------------------------------------------------------ C17: located diagnosis *)
\* Ev.cited = row numbers the message cites as [row : n]; Ev.mentions = identifiers of the form (names, types,
\* list names, referenced names; also lower-cased) that occur in the message as whole words
C17Env ==
  /\ Check("error_cites_row",
           (outcome.status = "error" /\ outcome.kind \in RowLevelErrors) => outcome.row \in ToSet(Ev.cited))
  /\ Check("error_names_identifier",
           (outcome.status = "error" /\ outcome.kind \in IdentErrors) =>
              (IF outcome.kind = "unclosed" THEN UnclosedIdents ELSE TreeErrIdents(nodes)) \cap ToSet(Ev.mentions) # {})
  /\ Check("no_xform_with_error", Ev.status # "ok" => ~Ev.has_xform)

TEnd == /\ l <= Len(T) /\ Ev.ev = "end"
        /\ Check("no_crash", Ev.status \in {"ok", "pyxform_error"})
        /\ Check("predicted_rejection", outcome.status = "error" => Ev.status = "pyxform_error")
        /\ Check("accepted_means_spec_done", (Ev.status = "ok" /\ Prop # "C17fuzz") => outcome.status = "done")
        \* a form the specification accepts must not be refused (the generated forms stay inside the modelled fragment)
        \* (only for the goal-directed generators of valid forms; the collision and error alphabets of C02 / C17 contain
        \*  refusals the specification does not transcribe, e.g. a question named like the form)
        \*  Source = "suite": executions recorded from the repository's own tests, which include refusals outside the model)
        \*  Source = "ok": C02's run over the generator of accepted forms (its collision forms run with Source = "gen")
        /\ Check("valid_form_accepted", (outcome.status = "done" /\ (Prop \in {"C03", "C04", "C05", "C10"} \/ (Prop = "C02" /\ Source = "ok")) /\ Source # "suite")
                                         => Ev.status = "ok")
        /\ (Prop = "C17" => C17Env)
        /\ (Ev.status = "ok" =>
              /\ (Prop = "C04" => C04Env)
              /\ (Prop = "C02" => C02Env)
              /\ (Prop = "C03" => C03Env)
              /\ (Prop = "C05" => C05Env)
              /\ (Prop = "C10" => C10Env))
        /\ l' = l + 1 /\ UNCHANGED <<rpvars, tid>>

\* The same form built in two parts through the builder's `include` mechanism (the JSON form cut at a top-level position, the
\* tail supplied as an included section): the splice must yield the same actions (setvalue / setgeopoint with ref, event, value
\* and place) and the same literal instance values as the direct conversion.
TSectioned == /\ l <= Len(T) /\ Ev.ev = "sectioned"
              /\ Check("sectioned_build_succeeds", Ev.status = "ok")
              /\ Check("include_splices_the_same_actions", Ev.same_actions)
              /\ Check("include_splices_the_same_instance_values", Ev.same_values)
              /\ l' = l + 1 /\ UNCHANGED <<rpvars, tid>>
\* A form outside the modelled row fragment (loops, ...): no model state to compare with, but what C02 demands of the emitted
\* document is stated on the document alone - closure, uniqueness, one bind and one control per node - and is decided here.
TFree == /\ l <= Len(T) /\ Ev.ev = "free"
         /\ Check("free_form_no_crash", Ev.status \in {"ok", "pyxform_error"})
         /\ ((Prop = "C02" /\ Ev.status = "ok") => C02Env)
         /\ l' = l + 1 /\ UNCHANGED <<rpvars, tid>>
TNext == TRow \/ TRowsDone \/ TRef \/ TEnd \/ TSectioned \/ TFree
TSpec == TInit /\ [][TNext]_tvars

Accepted == (l = Len(T) + 1) => PrintT(<<"ACCEPT", tid>>)
=============================================================================
