--------------------------- MODULE Gen_RowParser ---------------------------
(* Goal-directed generation of survey-row sequences from RowParser's own Next relation           *)
(* (DESIGN 2.5 "GenOk"): names distinct by construction, error states pruned, and prefixes that   *)
(* can no longer be closed within the bound pruned.  Every terminal (accepted) behaviour is       *)
(* printed as JSON: the history IS the abstract form; the harness decorates and renders it.       *)
EXTENDS RowParser, Json
CONSTANTS MaxRows, Mode     \* Mode: "ok" (distinct names, errors pruned) | "clash" (collision-prone name pool)
                            \*       "all" (no pruning; alphabet includes every row-level and tree-level error shape: C17)
VARIABLE hist
gvars == <<rpvars, hist>>

Base == [k |-> "q", ct |-> "", name |-> "", lname |-> "", hasname |-> TRUE, nameok |-> TRUE,
         type |-> "text", count |-> "none", tl |-> FALSE, lh |-> TRUE, media |-> FALSE, list |-> "",
         listkind |-> "", other |-> FALSE, filt |-> FALSE, hascalc |-> FALSE, dyn |-> "none",
         trig |-> FALSE, refs |-> <<>>, cattrs |-> <<>>, tlapp |-> "field-list", warns |-> <<>>, shape |-> "text"]
With(f) == f @@ Base
Nm == "n" \o ToString(rowno)
Pool == IF Mode = "ok" THEN {Nm} ELSE IF Mode = "all" THEN {Nm, "dq"} ELSE {"a", "A", "b", "a_count", "a_other", "meta", "data"}
Low(n) == IF n = "A" THEN "a" ELSE n
NamedShapes(nm) == LET N(f) == With(f @@ [name |-> nm, lname |-> Low(nm)]) IN {
   N([shape |-> "text"]),
   N([shape |-> "typed", type |-> "integer"]),
   N([shape |-> "calc", type |-> "calculate", hascalc |-> TRUE, lh |-> FALSE]),
   N([shape |-> "hidden", type |-> "start", lh |-> FALSE]),
   N([shape |-> "sel1", k |-> "select", type |-> "select one", list |-> "L", listkind |-> "plain"]),
   N([shape |-> "sel1_other", k |-> "select", type |-> "select one", list |-> "L", listkind |-> "plain", other |-> TRUE]),
   N([shape |-> "selm", k |-> "select", type |-> "select all that apply", list |-> "M", listkind |-> "plain"]),
   N([shape |-> "upload", type |-> "photo"]),
   N([shape |-> "trigger", type |-> "acknowledge"]),
   N([shape |-> "range", type |-> "range"]),
   N([shape |-> "begin_group", k |-> "begin", ct |-> "group", type |-> "group"]),
   N([shape |-> "begin_group_tl", k |-> "begin", ct |-> "group", type |-> "group", tl |-> TRUE]),
   N([shape |-> "begin_repeat", k |-> "begin", ct |-> "repeat", type |-> "repeat"]),
   N([shape |-> "begin_repeat_count", k |-> "begin", ct |-> "repeat", type |-> "repeat", count |-> "expr"]) }
UnnamedShapes == {
   With([shape |-> "note_noname", type |-> "note", hasname |-> FALSE]),
   With([shape |-> "end_group", k |-> "end", ct |-> "group", hasname |-> FALSE]),
   With([shape |-> "end_repeat", k |-> "end", ct |-> "repeat", hasname |-> FALSE]),
   With([shape |-> "blank", k |-> "skip", hasname |-> FALSE]),
   With([shape |-> "audit", k |-> "audit", hasname |-> FALSE, type |-> "audit"]) }

\* shapes that carry a structural error (the C17 catalogue, row-loop and tree level); used only in Mode "all"
ErrShapes(nm) == LET N(f) == With(f @@ [name |-> nm, lname |-> Low(nm)]) IN {
   With([shape |-> "e_notype", k |-> "notype", hasname |-> TRUE, name |-> nm, lname |-> Low(nm)]),
   With([shape |-> "e_noname", hasname |-> FALSE]),
   N([shape |-> "e_badname", nameok |-> FALSE]),
   With([shape |-> "e_badname_group", k |-> "begin", ct |-> "group", type |-> "group", nameok |-> FALSE, name |-> nm, lname |-> Low(nm)]),
   With([shape |-> "e_noname_repeat", k |-> "begin", ct |-> "repeat", type |-> "repeat", hasname |-> FALSE]),
   N([shape |-> "e_calc_nocalc", type |-> "calculate", lh |-> FALSE]),
   N([shape |-> "e_sel_nolist", k |-> "select", type |-> "select one", list |-> "Z", listkind |-> "plain"]),
   N([shape |-> "e_sel_other_filter", k |-> "select", type |-> "select one", list |-> "L", listkind |-> "plain", other |-> TRUE, filt |-> TRUE]),
   With([shape |-> "e_audit_named", k |-> "audit", type |-> "audit", name |-> "aud", lname |-> "aud"]),
   N([shape |-> "e_unknown_type", type |-> "no such type"]),
   N([shape |-> "e_nolabel", lh |-> FALSE]),
   N([shape |-> "e_badref", refs |-> <<"nowhere">>]),
   N([shape |-> "e_selfdup_ref", refs |-> <<"dq">>]) }
Shapes == UNION {NamedShapes(nm) : nm \in Pool} \cup UnnamedShapes
          \cup (IF Mode = "all" THEN UNION {ErrShapes(nm) : nm \in Pool} ELSE {})

Cfg0 == [lists |-> {"L", "M"}, formname |-> "data", omitid |-> FALSE, iname |-> FALSE, entity |-> FALSE, entlabel |-> FALSE]

GInit == RPInit(Cfg0) /\ hist = <<>>
GNext == \/ (Len(hist) < MaxRows /\ \E r \in Shapes : RowStep(r) /\ hist' = Append(hist, r))
         \/ (Len(hist) > 0 /\ Finish /\ UNCHANGED hist)
GSpec == GInit /\ [][GNext]_gvars

\* pruning: no error states; what is open can still be closed within the bound; at most one audit;
\* a table-list group holds only selects of one list (anything else is an error or out of interest)
Closable == Len(hist) + Len(stack) <= MaxRows
NoErr == outcome.status # "error"
OneAudit == Len(meta) <= 1
Out == [rows |-> [i \in 1..Len(hist) |-> <<hist[i].shape, hist[i].name>>], status |-> outcome.status, kind |-> outcome.kind, row |-> outcome.row]
Emit == (outcome.status = "done") => PrintT(ToJson(Out))
EmitAll == (outcome.status \in {"done", "error"}) => PrintT(ToJson(Out))
GenClash == Closable /\ OneAudit /\ EmitAll
GenAll == OneAudit /\ EmitAll
GenOk == NoErr /\ Closable /\ OneAudit /\ Emit
=============================================================================
