--------------------------- MODULE Gen_RowParser ---------------------------
(* Goal-directed generation of survey-row sequences from RowParser's own Next relation           *)
(* (DESIGN 2.5 "GenOk"): names distinct by construction, error states pruned, and prefixes that   *)
(* can no longer be closed within the bound pruned.  Every terminal (accepted) behaviour is       *)
(* printed as JSON: the history IS the abstract form; the harness decorates and renders it.       *)
EXTENDS RowParser, Json
CONSTANTS MaxRows, Mode     \* Mode: "ok" (distinct names, errors pruned) | "clash" (collision-prone name pool)
VARIABLE hist
gvars == <<rpvars, hist>>

Base == [k |-> "q", ct |-> "", name |-> "", lname |-> "", hasname |-> TRUE, nameok |-> TRUE,
         type |-> "text", count |-> "none", tl |-> FALSE, lh |-> TRUE, media |-> FALSE, list |-> "",
         listkind |-> "", other |-> FALSE, filt |-> FALSE, hascalc |-> FALSE, dyn |-> "none",
         trig |-> FALSE, refs |-> <<>>, cattrs |-> <<>>, tlapp |-> "field-list", warns |-> <<>>, shape |-> "text"]
With(f) == f @@ Base
Nm == "n" \o ToString(rowno)
Pool == IF Mode = "ok" THEN {Nm} ELSE {"a", "A", "b", "a_count", "a_other", "meta", "data"}
Low(n) == IF n = "A" THEN "a" ELSE n
NamedShapes(nm) == LET N(f) == With(f @@ [name |-> nm, lname |-> Low(nm)]) IN {
   N([shape |-> "text"]),
   N([shape |-> "typed", type |-> "integer"]),
   N([shape |-> "calc", type |-> "calculate", hascalc |-> TRUE, lh |-> FALSE]),
   N([shape |-> "hidden", type |-> "start", lh |-> FALSE]),
   N([shape |-> "sel1", k |-> "select", type |-> "select one", list |-> "L", listkind |-> "plain"]),
   N([shape |-> "sel1_other", k |-> "select", type |-> "select one", list |-> "L", listkind |-> "plain", other |-> TRUE]),
   N([shape |-> "selm", k |-> "select", type |-> "select all that apply", list |-> "M", listkind |-> "plain"]),
   N([shape |-> "upload", type |-> "photo"]),
   N([shape |-> "trigger", type |-> "acknowledge"]),
   N([shape |-> "range", type |-> "range"]),
   N([shape |-> "begin_group", k |-> "begin", ct |-> "group", type |-> "group"]),
   N([shape |-> "begin_group_tl", k |-> "begin", ct |-> "group", type |-> "group", tl |-> TRUE]),
   N([shape |-> "begin_repeat", k |-> "begin", ct |-> "repeat", type |-> "repeat"]),
   N([shape |-> "begin_repeat_count", k |-> "begin", ct |-> "repeat", type |-> "repeat", count |-> "expr"]) }
UnnamedShapes == {
   With([shape |-> "note_noname", type |-> "note", hasname |-> FALSE]),
   With([shape |-> "end_group", k |-> "end", ct |-> "group", hasname |-> FALSE]),
   With([shape |-> "end_repeat", k |-> "end", ct |-> "repeat", hasname |-> FALSE]),
   With([shape |-> "blank", k |-> "skip", hasname |-> FALSE]),
   With([shape |-> "audit", k |-> "audit", hasname |-> FALSE, type |-> "audit"]) }

Shapes == UNION {NamedShapes(nm) : nm \in Pool} \cup UnnamedShapes

Cfg0 == [lists |-> {"L", "M"}, formname |-> "data", omitid |-> FALSE, iname |-> FALSE, entity |-> FALSE]

GInit == RPInit(Cfg0) /\ hist = <<>>
GNext == \/ (Len(hist) < MaxRows /\ \E r \in Shapes : RowStep(r) /\ hist' = Append(hist, r))
         \/ (Len(hist) > 0 /\ Finish /\ UNCHANGED hist)
GSpec == GInit /\ [][GNext]_gvars

\* pruning: no error states; what is open can still be closed within the bound; at most one audit;
\* a table-list group holds only selects of one list (anything else is an error or out of interest)
Closable == Len(hist) + Len(stack) <= MaxRows
NoErr == outcome.status # "error"
OneAudit == Len(meta) <= 1
Out == [rows |-> [i \in 1..Len(hist) |-> <<hist[i].shape, hist[i].name>>], status |-> outcome.status, kind |-> outcome.kind]
Emit == (outcome.status = "done") => PrintT(ToJson(Out))
EmitAll == (outcome.status \in {"done", "error"}) => PrintT(ToJson(Out))
GenClash == Closable /\ OneAudit /\ EmitAll
GenOk == NoErr /\ Closable /\ OneAudit /\ Emit
=============================================================================
