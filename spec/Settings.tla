----------------------------- MODULE Settings ------------------------------
(***************************************************************************)
(* C11: the settings sheet and the equivalent convert() arguments          *)
(* determine the form header.                                              *)
(* Generator: a subset of settings columns (bounded size, or the           *)
(* complement of a bounded subset), the delivery channel (path input with  *)
(* a file stem / in-memory input) and whether form_name is passed.         *)
(* Envelope: the documented mapping with its defaults; every value written *)
(* by the harness is a distinct atom, so a value in the wrong place is a   *)
(* mismatch (no leak).                                                     *)
(***************************************************************************)
EXTENDS Naturals, Sequences, FiniteSets, TLC
CONSTANTS MaxOn

Keys == {"title", "id", "version", "name", "instance_name", "submission_url", "public_key", "auto_send", "auto_delete",
         "style", "namespaces", "attr_plain", "attr_ns", "omit_id", "instance_xmlns", "prefix", "delimiter",
         "attr_id", "attr_version"}     \* attribute::id / attribute::version: custom attributes named like the built-in ones
Valid(S) == /\ ~({"omit_id", "public_key"} \subseteq S)        \* refused by the converter: instanceID is required for encryption
            /\ ("attr_ns" \in S => "namespaces" \in S)          \* a prefixed attribute needs its prefix declared
VARIABLES on, chan, fname, ent, phase
svars == <<on, chan, fname, ent, phase>>
\* chan: in-memory | a path with a recognised suffix | a path whose suffix gives no hint (upper case, .txt, none)
\* ent: the workbook also has an entities sheet (the entities namespace joins the declared ones)
SInit == on = {} /\ chan \in {"mem", "path", "path_odd"} /\ fname \in BOOLEAN /\ ent \in BOOLEAN /\ phase \in {"few", "most"}
\* "few": at most MaxOn settings present;  "most": all but at most MaxOn present
Toggle(k) == /\ Cardinality(on) < MaxOn /\ k \notin on /\ \A j \in on : j \in Keys   \* canonical order not needed: sets
             /\ on' = on \cup {k} /\ UNCHANGED <<chan, fname, ent, phase>>
SNext == \E k \in Keys : Toggle(k)
SSpec == SInit /\ [][SNext]_svars
Present == IF phase = "few" THEN on ELSE Keys \ on
CaseOK == Valid(Present)

(* ------------------------------------------------------------------ envelope *)
\* src: [present: set of keys as sequence, val: key -> atom (function as sequence of pairs), chan, stem, fname (""|name)]
Val(src, k) == LET S == {i \in 1..Len(src.vals) : src.vals[i][1] = k} IN IF S = {} THEN "" ELSE src.vals[CHOOSE i \in S : TRUE][2]
Has(src, k) == \E i \in 1..Len(src.vals) : src.vals[i][1] = k
ExpId(src) == IF Has(src, "id") THEN Val(src, "id") ELSE IF src.chan \in {"path", "path_odd"} THEN src.stem ELSE "data"
ExpTitle(src) == IF Has(src, "title") THEN Val(src, "title") ELSE ExpId(src)
ExpRoot(src) == IF Has(src, "name") THEN Val(src, "name") ELSE IF src.fname # "" THEN src.fname ELSE "data"
Opt(src, k) == IF Has(src, k) THEN Val(src, k) ELSE ""      \* "" = attribute / element absent
SeqToSet(s) == {s[i] : i \in 1..Len(s)}
=============================================================================
