--------------------------- MODULE Trace_Workbook ---------------------------
EXTENDS Workbook, Json, IOUtils
VARIABLES tid, l
Traces == JsonDeserialize(IOEnv.TRACE_FILE)
T == Traces[tid]
Ev == T[l]
Check(name, cond) == IF cond THEN TRUE ELSE (PrintT(<<"AT", tid, l, name>>) /\ FALSE)
\* "runs": a real sheet whose emptiness pattern is Ev.pattern (sequence of booleans) was read by the real reader;
\*         Ev.kept_data = indices (1-based, data rows only) of the data entries that survived, Ev.positions = the position
\*         (row number - 1, or column index) at which each surviving entry was reported
ExpectedKeptData(s) == SelectSeq(KeptRows(s), LAMBDA k : s[k])
RunsEnv ==
  /\ Check("converted", Ev.status = "ok")
  /\ Check("surviving_entries_as_specified", Ev.kept = ExpectedKeptData(Ev.pattern))
  /\ Check("runs_within_limit_never_truncate",
           MaxInnerRun(Ev.pattern) <= MaxEmpty => Ev.kept = SelectSeq([k \in 1..Len(Ev.pattern) |-> k], LAMBDA k : Ev.pattern[k]))
  /\ Check("positions_accurate", Ev.positions = Ev.kept)
\* "cells": typed cells read back as text
CellsEnv ==
  /\ Check("converted", Ev.status = "ok")
  /\ Check("typed_cells_canonical", \A k \in 1..Len(Ev.cells) : Ev.cells[k].seen = Canon(Ev.cells[k].cell))
\* "matrix": one workbook content through every format x delivery x file_type
Ordered(r) == r.f # "dict_rows"
MatrixEnv ==
  /\ Check("every_channel_in_matrix", \A k \in 1..Len(Ev.results) : <<Ev.results[k].f, Ev.results[k].d, Ev.results[k].ft>> \in Matrix)
  /\ Check("matrix_covered", Len(Ev.results) >= 2)
  /\ Check("all_channels_converted_alike", \A j, k \in 1..Len(Ev.results) : Ev.results[j].status = Ev.results[k].status)
  \* (channels that carry the column order agree byte for byte; the rows-only dict agrees up to the order of choice columns)
  /\ Check("same_xform_everywhere", \A j, k \in 1..Len(Ev.results) :
              (Ordered(Ev.results[j]) /\ Ordered(Ev.results[k])) => Ev.results[j].xform = Ev.results[k].xform)
  /\ Check("same_xform_up_to_choice_column_order", \A j, k \in 1..Len(Ev.results) : Ev.results[j].xform_canon = Ev.results[k].xform_canon)
  /\ Check("same_warnings_everywhere", \A j, k \in 1..Len(Ev.results) : Ev.results[j].warnings = Ev.results[k].warnings)
  /\ Check("same_itemsets_everywhere", \A j, k \in 1..Len(Ev.results) :
              (Ordered(Ev.results[j]) /\ Ordered(Ev.results[k])) => Ev.results[j].itemsets = Ev.results[k].itemsets)
  /\ Check("same_itemsets_up_to_column_order", \A j, k \in 1..Len(Ev.results) : Ev.results[j].itemsets_canon = Ev.results[k].itemsets_canon)
TInit == tid \in 1..Len(Traces) /\ l = 1 /\ sheet = <<>> /\ i = 1 /\ adj = 0 /\ kept = <<>> /\ stopped = TRUE
TStep == /\ l <= Len(T)
         /\ CASE Ev.ev = "runs" -> RunsEnv [] Ev.ev = "cells" -> CellsEnv [] Ev.ev = "matrix" -> MatrixEnv [] OTHER -> FALSE
         /\ l' = l + 1 /\ UNCHANGED <<tid, mvars>>
TSpec == TInit /\ [][TStep]_<<mvars, tid, l>>
Accepted == (l = Len(T) + 1) => PrintT(<<"ACCEPT", tid>>)
=============================================================================
