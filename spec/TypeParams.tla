----------------------------- MODULE TypeParams -----------------------------
(***************************************************************************)
(* What the `parameters` cell MEANS for each question type that reads it   *)
(* (C05 parameter-derived bind attributes and the range bind type, C04     *)
(* parameter-derived control attributes, C17 rejected parameter sets,      *)
(* C20 the max-pixels advice).  Parameters.tla specifies how the cell is   *)
(* split into key=value items; this module specifies the decision table    *)
(* that xls2json.workbook_to_json applies to the resulting map, one block  *)
(* per question type (xls2json.py: audit 600-765, select 1118-1166,        *)
(* range 176-214, text 1253-1270, image 1272-1314, audio 1316-1333,        *)
(* background-audio 1335-1351, geo 1353-1400).                             *)
(*                                                                         *)
(*   Expect(c)     - TRANSCRIPTION: accepted or refused, and for an        *)
(*                   accepted cell the exact set of attribute facts        *)
(*                   <<place, attribute, value>> the parameters put on the *)
(*                   question's bind / body control / load action.         *)
(*   Env*          - ENVELOPE: the same, except where the documentation    *)
(*                   leaves the code free (a range parameter written 0.0:  *)
(*                   the bind type may be int or decimal).                 *)
(***************************************************************************)
EXTENDS Naturals, Integers, Sequences, FiniteSets, TLC

(* ---- value tokens: text as written (lower case), with the classifications the table needs *)
\* int: Python int() accepts it; iv: its value; num: float() accepts it; dec: has a '.' and is not zero; dot: has a '.'
Val(t, int, iv, num, dot, dec) == [t |-> t, int |-> int, iv |-> iv, num |-> num, dot |-> dot, dec |-> dec]
Word(t) == Val(t, FALSE, 0, FALSE, FALSE, FALSE)
Values == {Word("true"), Word("false"), Word("yes"), Word("on-form-edit"), Word("always"),
           Word("balanced"), Word("no-power"), Word("fast"),
           Val("0", TRUE, 0, TRUE, FALSE, FALSE), Val("5", TRUE, 5, TRUE, FALSE, FALSE), Val("60", TRUE, 60, TRUE, FALSE, FALSE),
           Val("640", TRUE, 640, TRUE, FALSE, FALSE), Val("-1", TRUE, -1, TRUE, FALSE, FALSE),
           Val("2.5", FALSE, 0, TRUE, TRUE, TRUE), Val("0.0", FALSE, 0, TRUE, TRUE, FALSE), Word("abc"),
           Word("voice-only"), Word("low"), Word("normal"), Word("external"), Word("loud"),
           Word("com.example.app"), Word("noseparator"), Word("com.example."), Word("com..app"), Word("com._x"), Word("com.1x"), Word("com.ex-ample"),
           Word("${q0}"), Val("1", TRUE, 1, TRUE, FALSE, FALSE)}
V(t) == CHOOSE v \in Values : v.t = t
AppOk(t) == t = "com.example.app"
IsRef(t) == t = "${q0}"

(* ---- the table: keys each type accepts *)
Types == {"audit", "range", "text", "image", "audio", "background-audio", "geopoint", "geoshape", "geotrace", "select_one", "select_multiple", "integer"}
Allowed(ty) == CASE ty = "audit" -> {"location-priority", "location-min-interval", "location-max-age", "track-changes", "identify-user", "track-changes-reasons"}
                 [] ty = "range" -> {"start", "end", "step"}
                 [] ty = "text" -> {"rows"}
                 [] ty = "image" -> {"max-pixels", "app"}
                 [] ty \in {"audio", "background-audio"} -> {"quality"}
                 [] ty = "geopoint" -> {"allow-mock-accuracy", "capture-accuracy", "warning-accuracy"}
                 [] ty \in {"geoshape", "geotrace"} -> {"allow-mock-accuracy"}
                 [] ty \in {"select_one", "select_multiple"} -> {"randomize", "seed"}
                 [] OTHER -> {}
\* types whose rows are copied as they are: the cell is split (Parameters.tla) but its keys are not read
Unchecked(ty) == ty = "integer"

\* a case: [type, app (appearance of an image row: "none" | "annotate" | "draw"), params: sequence of <<key, value text>> with distinct keys]
Keys(c) == {c.params[n][1] : n \in 1..Len(c.params)}
Has(c, k) == k \in Keys(c)
Get(c, k) == LET n == CHOOSE m \in 1..Len(c.params) : c.params[m][1] = k IN V(c.params[n][2])
Txt(c, k) == Get(c, k).t
Bool(c, k) == Txt(c, k) \in {"true", "false"}
Trio == {"location-priority", "location-min-interval", "location-max-age"}
Priorities == {"no-power", "low-power", "balanced", "high-accuracy"}
AudioQ == {"voice-only", "low", "normal", "external"}
BgAudioQ == {"voice-only", "low", "normal"}

(* ---- which keys make the cell unacceptable (empty set = accepted) *)
Foreign(c) == IF Unchecked(c.type) THEN {} ELSE Keys(c) \ Allowed(c.type)
BadAudit(c) ==
  {k \in {"track-changes", "identify-user"} \cap Keys(c) : ~Bool(c, k)}
  \cup {k \in {"track-changes-reasons"} \cap Keys(c) : Txt(c, k) # "on-form-edit"}
  \cup (IF Trio \cap Keys(c) = {} THEN {}
        ELSE IF ~(Trio \subseteq Keys(c)) THEN Trio       \* all three or none
        ELSE {k \in {"location-priority"} : Txt(c, k) \notin Priorities}
             \cup {k \in {"location-min-interval", "location-max-age"} : ~Get(c, k).int \/ Get(c, k).iv < 0}
             \cup (IF Get(c, "location-min-interval").int /\ Get(c, "location-max-age").int
                      /\ Get(c, "location-max-age").iv < Get(c, "location-min-interval").iv THEN {"location-max-age"} ELSE {}))
BadRange(c) == {k \in {"start", "end", "step"} \cap Keys(c) : ~Get(c, k).num}
BadText(c) == {k \in {"rows"} \cap Keys(c) : ~Get(c, k).int}
AppRead(c) == c.app \in {"none", "annotate"}
BadImage(c) == {k \in {"max-pixels"} \cap Keys(c) : ~Get(c, k).int}
               \cup {k \in {"app"} \cap Keys(c) : AppRead(c) /\ ~AppOk(Txt(c, k))}
BadAudio(c) == {k \in {"quality"} \cap Keys(c) : Txt(c, k) \notin (IF c.type = "audio" THEN AudioQ ELSE BgAudioQ)}
BadGeo(c) == {k \in {"allow-mock-accuracy"} \cap Keys(c) : ~Bool(c, k)}
             \cup {k \in {"capture-accuracy", "warning-accuracy"} \cap Keys(c) : ~Get(c, k).num}
BadSelect(c) == {k \in {"randomize"} \cap Keys(c) : ~Bool(c, k)}
                \cup {k \in {"seed"} \cap Keys(c) : ~Has(c, "randomize") \/ (~IsRef(Txt(c, k)) /\ ~Get(c, k).num)}
Bad(c) == Foreign(c) \cup
          (CASE c.type = "audit" -> BadAudit(c) [] c.type = "range" -> BadRange(c) [] c.type = "text" -> BadText(c)
             [] c.type = "image" -> BadImage(c) [] c.type \in {"audio", "background-audio"} -> BadAudio(c)
             [] c.type \in {"geopoint", "geoshape", "geotrace"} -> BadGeo(c)
             [] c.type \in {"select_one", "select_multiple"} -> BadSelect(c) [] OTHER -> {})
Accepted(c) == Bad(c) = {}

(* ---- what an accepted cell puts on the form: facts <<place, attribute, value>> *)
Copy(c, keys, place, pre) == {<<place, pre \o k, Txt(c, k)>> : k \in keys \cap Keys(c)}
RangeVal(c, k) == IF Has(c, k) THEN Txt(c, k) ELSE (CASE k = "start" -> "1" [] k = "end" -> "10" [] OTHER -> "1")
\* ImplQuirk_RangeZeroDot: `float(x) and "." in x` - a value written 0.0 does not make the range decimal
RangeDecimalImpl(c) == \E k \in {"start", "end", "step"} \cap Keys(c) : Get(c, k).dec
RangeDecimalMust(c) == RangeDecimalImpl(c)
RangeIntMust(c) == \A k \in {"start", "end", "step"} \cap Keys(c) : ~Get(c, k).dot
Facts(c) ==
  CASE c.type = "audit" -> Copy(c, {"track-changes", "identify-user", "track-changes-reasons"} \cup Trio, "bind", "odk:")
    [] c.type = "range" -> {<<"control", k, RangeVal(c, k)>> : k \in {"start", "end", "step"}}
    [] c.type = "text" -> Copy(c, {"rows"}, "control", "")
    [] c.type = "image" -> {<<"bind", "orx:max-pixels", Txt(c, k)>> : k \in {"max-pixels"} \cap Keys(c)}
                           \cup {<<"control", "intent", Txt(c, k)>> : k \in {kk \in {"app"} \cap Keys(c) : AppRead(c)}}
    [] c.type = "audio" -> {<<"bind", "odk:quality", Txt(c, k)>> : k \in {"quality"} \cap Keys(c)}
    [] c.type = "background-audio" -> {<<"action", "odk:quality", Txt(c, k)>> : k \in {"quality"} \cap Keys(c)}
    [] c.type \in {"geopoint", "geoshape", "geotrace"} ->
         Copy(c, {"allow-mock-accuracy"}, "bind", "odk:")
         \cup {<<"control", "accuracyThreshold", Txt(c, k)>> : k \in {"capture-accuracy"} \cap Keys(c)}
         \cup {<<"control", "unacceptableAccuracyThreshold", Txt(c, k)>> : k \in {"warning-accuracy"} \cap Keys(c)}
    [] OTHER -> {}
\* the attribute names this table owns: an output carries one of them only when the table says so
Owned == {<<"bind", "odk:track-changes">>, <<"bind", "odk:identify-user">>, <<"bind", "odk:track-changes-reasons">>,
          <<"bind", "odk:location-priority">>, <<"bind", "odk:location-min-interval">>, <<"bind", "odk:location-max-age">>,
          <<"control", "start">>, <<"control", "end">>, <<"control", "step">>, <<"control", "rows">>, <<"bind", "orx:max-pixels">>,
          <<"control", "intent">>, <<"bind", "odk:quality">>, <<"action", "odk:quality">>, <<"bind", "odk:allow-mock-accuracy">>,
          <<"control", "accuracyThreshold">>, <<"control", "unacceptableAccuracyThreshold">>}
\* the select parameters reach the itemset expression: randomize(..) wrapper iff randomize=true, with the seed as second argument
Randomized(c) == c.type \in {"select_one", "select_multiple"} /\ Has(c, "randomize") /\ Txt(c, "randomize") = "true"
SeedShown(c) == IF Randomized(c) /\ Has(c, "seed") THEN (IF IsRef(Txt(c, "seed")) THEN "ref" ELSE Txt(c, "seed")) ELSE "none"
\* the advice to use max-pixels is given exactly for an image row without it
WarnMaxPixels(c) == c.type = "image" /\ ~Has(c, "max-pixels")

Expect(c) == [ok |-> Accepted(c), bad |-> Bad(c), facts |-> Facts(c),
              rtype |-> IF c.type # "range" THEN "na" ELSE IF RangeDecimalImpl(c) THEN "decimal" ELSE "int",
              randomized |-> Randomized(c), seed |-> SeedShown(c), warn |-> WarnMaxPixels(c)]

(* ---- generator: one type, an appearance (image rows only), parameters with distinct keys in a fixed key order *)
CONSTANTS MaxParams,     \* how many parameters a cell carries at most (an audit row: one more)
          OnlyAccepted   \* TRUE: only cells that can still become acceptable are extended (the accepted cells at full depth)
KeyOrder == <<"track-changes", "identify-user", "track-changes-reasons", "location-priority", "location-min-interval", "location-max-age",
              "start", "end", "step", "rows", "max-pixels", "app", "quality", "allow-mock-accuracy", "capture-accuracy", "warning-accuracy",
              "randomize", "seed", "bogus">>
KeyIdx(k) == CHOOSE n \in 1..Len(KeyOrder) : KeyOrder[n] = k
ValuesFor(k) ==
  CASE k \in {"track-changes", "identify-user", "allow-mock-accuracy", "randomize"} -> {"true", "false", "yes"}
    [] k = "track-changes-reasons" -> {"on-form-edit", "always"}
    [] k = "location-priority" -> {"balanced", "no-power", "fast"}
    [] k = "location-min-interval" -> {"5", "60", "-1", "abc"}
    [] k = "location-max-age" -> {"5", "60", "-1", "2.5"}
    [] k \in {"start", "end", "step"} -> {"5", "2.5", "0.0", "abc"}
    [] k = "rows" -> {"5", "-1", "2.5", "abc"}
    [] k = "max-pixels" -> {"640", "2.5", "abc"}
    [] k = "app" -> {"com.example.app", "noseparator", "com.example.", "com..app", "com._x", "com.1x", "com.ex-ample"}
    [] k = "quality" -> {"voice-only", "low", "normal", "external", "loud"}
    [] k \in {"capture-accuracy", "warning-accuracy"} -> {"5", "2.5", "abc"}
    [] k = "seed" -> {"5", "2.5", "abc", "${q0}"}
    [] OTHER -> {"1"}
\* keys offered to a type: its own, one that belongs to a neighbouring type, and one nobody knows
Neighbour(ty) == CASE ty = "audit" -> "quality" [] ty = "range" -> "rows" [] ty = "text" -> "max-pixels" [] ty = "image" -> "rows"
                   [] ty = "audio" -> "rows" [] ty = "background-audio" -> "max-pixels" [] ty = "geopoint" -> "quality"
                   [] ty \in {"geoshape", "geotrace"} -> "capture-accuracy" [] ty \in {"select_one", "select_multiple"} -> "start" [] OTHER -> "rows"
Offered(ty) == Allowed(ty) \cup {Neighbour(ty), "bogus"}
Limit(ty) == IF ty = "audit" THEN MaxParams + 1 ELSE MaxParams

VARIABLES tcase, tdone
tpvars == <<tcase, tdone>>
TPInit == /\ tdone = FALSE
          /\ \E ty \in Types : \E a \in {"none", "annotate", "draw"} : (ty # "image" => a = "none") /\ tcase = [type |-> ty, app |-> a, params |-> <<>>]
LastIdx == IF Len(tcase.params) = 0 THEN 0 ELSE KeyIdx(tcase.params[Len(tcase.params)][1])
AddParam == /\ ~tdone /\ Len(tcase.params) < Limit(tcase.type)
            /\ \E k \in Offered(tcase.type) : KeyIdx(k) > LastIdx /\ \E v \in ValuesFor(k) :
                  tcase' = [tcase EXCEPT !.params = Append(@, <<k, v>>)]
            /\ UNCHANGED tdone
TPFinish == ~tdone /\ tdone' = TRUE /\ UNCHANGED tcase
TPNext == AddParam \/ TPFinish
\* generation constraint: with OnlyAccepted, a cell that is already beyond repair is not extended (an incomplete location trio can still be completed)
Promising == OnlyAccepted => (Bad(tcase) \ Trio = {})
Worth == OnlyAccepted => Accepted(tcase)
TPSpec == TPInit /\ [][TPNext]_tpvars

(* ---- design checks of the table itself *)
\* a key the type does not know is never accepted (except on the types that do not read the cell)
ForeignKeyRefused == (~Unchecked(tcase.type) /\ Keys(tcase) \ Allowed(tcase.type) # {}) => ~Accepted(tcase)
\* every fact comes from a parameter that was written (or is a range default), on an attribute the table owns
FactsAreOwnedAndSourced == \A f \in Facts(tcase) : <<f[1], f[2]>> \in Owned /\ (f[3] \in {tcase.params[n][2] : n \in 1..Len(tcase.params)} \/ tcase.type = "range")
\* one fact per attribute: no parameter is written to the same place twice with different values
FactsAreFunctional == \A f, g \in Facts(tcase) : (f[1] = g[1] /\ f[2] = g[2]) => f[3] = g[3]
\* location information is all or nothing
LocationAllOrNothing == (tcase.type = "audit" /\ Accepted(tcase)) => (Trio \cap Keys(tcase) = {} \/ Trio \subseteq Keys(tcase))
\* an accepted audit keeps max-age >= min-interval >= 0
LocationOrdered == (tcase.type = "audit" /\ Accepted(tcase) /\ Trio \subseteq Keys(tcase)) =>
                     (Get(tcase, "location-min-interval").iv >= 0 /\ Get(tcase, "location-max-age").iv >= Get(tcase, "location-min-interval").iv)
\* transcription inside the envelope: where decimal is demanded the code says decimal, where int is demanded it says int
RangeTypeInsideEnvelope == (tcase.type = "range" /\ Accepted(tcase)) =>
                             /\ (RangeDecimalMust(tcase) => Expect(tcase).rtype = "decimal")
                             /\ (RangeIntMust(tcase) => Expect(tcase).rtype = "int")
\* a seed is only ever shown inside a randomize() that is there
SeedOnlyWhenRandomized == (Expect(tcase).seed # "none") => Expect(tcase).randomized
=============================================================================
