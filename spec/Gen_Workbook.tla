---------------------------- MODULE Gen_Workbook ----------------------------
EXTENDS Workbook, Json
RECURSIVE SetToSeq(_)
SetToSeq(S) == IF S = {} THEN <<>> ELSE LET x == CHOOSE y \in S : TRUE IN <<x>> \o SetToSeq(S \ {x})
\* every emptiness pattern (initial states) and, once, the delivery matrix
Emit == (i = 1) => PrintT(ToJson([pattern |-> sheet]))
ASSUME PrintT(ToJson([matrix |-> SetToSeq(Matrix)]))
=============================================================================
