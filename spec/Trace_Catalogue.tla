-------------------------- MODULE Trace_Catalogue --------------------------
(* Each trace: <<[ev "case", base, blanks, mut, site], [ev "end", status, cited, ident_named, has_xform]>>.  *)
(* The case event must be a Pick the catalogue allows; the end event must be the rejection it prescribes.    *)
EXTENDS Catalogue, Json, IOUtils, SequencesExt
VARIABLES tid, l
Traces == JsonDeserialize(IOEnv.TRACE_FILE)
T == Traces[tid]
Ev == T[l]
Check(name, cond) == IF cond THEN TRUE ELSE (PrintT(<<"AT", tid, l, name>>) /\ FALSE)

TInit == tid \in 1..Len(Traces) /\ l = 1 /\ CInit
TCase == /\ l <= Len(T) /\ Ev.ev = "case"
         /\ Check("case_in_catalogue", Ev.mut \in Muts /\ Ev.base \in 1..Len(Bases) /\ Applicable(Ev.base, Ev.mut, Ev.site))
         /\ Pick(Ev.base, Ev.blanks, Ev.mut, Ev.site)
         /\ l' = l + 1 /\ UNCHANGED tid
TEnd == /\ l <= Len(T) /\ Ev.ev = "end" /\ phase = "mutated"
        /\ Check("no_crash", Ev.status \in {"ok", "pyxform_error"})
        /\ Check("mutation_rejected", Ev.status = "pyxform_error")
        /\ Check("no_xform_with_error", ~Ev.has_xform)
        /\ Check("error_cites_row", case.loc = "row" => case.row \in ToSet(Ev.cited))
        /\ Check("error_names_identifier", case.loc = "ident" => Ev.ident_named)
        /\ Reject
        /\ l' = l + 1 /\ UNCHANGED tid
TNext == TCase \/ TEnd
TSpec == TInit /\ [][TNext]_<<cvars, tid, l>>
Accepted == (l = Len(T) + 1) => PrintT(<<"ACCEPT", tid>>)
=============================================================================
