----------------------------- MODULE RowParser -----------------------------
(***************************************************************************)
(* The survey-sheet row loop of workbook_to_json (xls2json.py) as a        *)
(* pushdown transducer, followed by the Finish step (meta block) and the   *)
(* tree-level validation of Survey.validate.  One action per branch of the *)
(* loop body that has a distinct observable effect; error exits are        *)
(* actions that move `outcome` to an error state.                          *)
(*                                                                         *)
(* A row is the abstraction (harness/abstract.py, `alpha`) of one          *)
(* dealiased survey row:                                                   *)
(*  k        "skip" (disabled / blank / comment / settings-type row),      *)
(*           "notype", "audit", "end", "begin", "select", "q"              *)
(*  ct       control type of begin/end rows: "group" | "repeat"           *)
(*  name, lname (lower-cased), hasname, nameok (XML name)                  *)
(*  type     question type after type-aliasing                             *)
(*  count    "none" | "ref" | "expr"   (repeat_count cell)                 *)
(*  tl       appearance contains table-list;  lh: label or hint present;   *)
(*  media    media cell present                                            *)
(*  list, listkind ("plain"|"file"|"ref"|"external"), other, filt          *)
(*  hascalc, dyn ("none"|"static"|"dynamic"|"either"), trig                *)
(*  warns    sequence of warning kinds whose trigger the row contains      *)
(* Source lines refer to pyxform/xls2json.py at the pinned commit.         *)
(***************************************************************************)
EXTENDS Naturals, Sequences, FiniteSets, SequencesExt, TLC, TypeTable

VARIABLES cfgv,       \* form-level facts: [lists, formname, omitid, iname, entity, entlabel]
          stack,      \* Seq([ct, name, path])                      -- l.525
          tableList,  \* "none" | "armed" | <list name>             -- l.534
          nodes,      \* preorder sequence of created element records (all children arrays, flattened)
          meta,       \* sequence of meta children names            -- l.537
          nwarn,      \* number of warnings appended by the row loop
          outcome,    \* [status: "open"|"done"|"error", kind, row]
          rowno       \* spreadsheet row number of the next row (header is row 1)

rpvars == <<cfgv, stack, tableList, nodes, meta, nwarn, outcome, rowno>>

Open == [status |-> "open", kind |-> "", row |-> 0]
Done == [status |-> "done", kind |-> "", row |-> 0]
Err(kind, row) == [status |-> "error", kind |-> kind, row |-> row]

RowLevelErrors == {"notype", "audit_name", "calc_missing", "unmatched_end", "noname", "badname",
                   "list_missing", "other_filter", "tl_filter", "tl_mismatch"}
IdentErrors == {"unclosed", "dup_sibling", "dup_section", "section_is_form", "unknown_type", "nolabel", "bad_ref"}
KindErrors == {"no_choices"}

CurPath == IF Len(stack) = 0 THEN <<>> ELSE stack[Len(stack)].path

Node(p, kind, gen, row, type, hc, lh, lname, attrs) ==
  [p |-> p, kind |-> kind, gen |-> gen, row |-> row, type |-> type, hc |-> hc, lh |-> lh, lname |-> lname,
   attrs |-> attrs, refs |-> <<>>]
\* a node created from a user row also remembers the names its cells reference with ${...}  (C03)
UNode(p, kind, gen, row, type, hc, lh, lname, attrs, refs) ==
  [Node(p, kind, gen, row, type, hc, lh, lname, attrs) EXCEPT !.refs = refs]

\* Body-control attributes: a sequence of <<name, value, literal?>> triples.  `cattrs` of a row is what its
\* appearance / body:: / parameters cells dictate (alpha); the type table adds the media type.
WithMedia(t, a) == IF TypeKnown(t) /\ TypeTable[t].media # "" THEN <<<<"mediatype", TypeTable[t].media, TRUE>>>> \o a ELSE a
SetAttr(a, n, v) == SelectSeq(a, LAMBDA x : x[1] # n) \o <<<<n, v, TRUE>>>>
SetRef(a, n) == SelectSeq(a, LAMBDA x : x[1] # n) \o <<<<n, "", FALSE>>>>
AppearanceOf(a) == LET s == SelectSeq(a, LAMBDA x : x[1] = "appearance") IN IF s = <<>> THEN "" ELSE s[1][2]

RPInit(c) ==
  /\ cfgv = c
  /\ stack = <<>> /\ tableList = "none" /\ nodes = <<>> /\ meta = <<>>
  /\ nwarn = 0 /\ outcome = Open /\ rowno = 2

Adv(r) == rowno' = rowno + 1 /\ nwarn' = nwarn + Len(r.warns)
Fail(kind) == /\ outcome' = Err(kind, rowno)
              /\ UNCHANGED <<cfgv, stack, tableList, nodes, meta, nwarn, rowno>>

EffName(r)  == IF r.hasname THEN r.name  ELSE "generated_note_name_" \o ToString(rowno)   \* l.800-802
EffLname(r) == IF r.hasname THEN r.lname ELSE "generated_note_name_" \o ToString(rowno)
NameErr(r) == IF ~r.hasname /\ r.type # "note" THEN "noname"                               \* l.806
              ELSE IF r.hasname /\ ~r.nameok THEN "badname" ELSE ""                         \* l.811

\* A row has a body control iff its type has a control tag and it is not a label-less calculation/trigger row
\* (question.py xml_control): this is the specification's own rule, from the XLSForm reference.
HasControl(r) == /\ TagOf(r.type) # "none"
                 /\ ~((r.hascalc \/ r.trig) /\ ~r.lh)

(* ---------------------------------------------------------------- rows that produce nothing *)
RowSkip(r) ==                                   \* l.552-564, 570-579, 771-774
  /\ outcome.status = "open" /\ r.k = "skip"
  /\ Adv(r) /\ UNCHANGED <<cfgv, stack, tableList, nodes, meta, outcome>>

RowNoType(r) ==                                 \* l.580
  /\ outcome.status = "open" /\ r.k = "notype" /\ Fail("notype")

RowAudit(r) ==                                  \* l.587-750
  /\ outcome.status = "open" /\ r.k = "audit"
  /\ IF r.hasname /\ r.name # "audit"
       THEN Fail("audit_name")
       ELSE /\ meta' = Append(meta, "audit") /\ Adv(r)
            /\ UNCHANGED <<cfgv, stack, tableList, nodes, outcome>>

RowEnd(r) ==                                    \* l.778-796
  /\ outcome.status = "open" /\ r.k = "end"
  /\ IF Len(stack) > 0 /\ stack[Len(stack)].ct = r.ct
       THEN /\ stack' = SubSeq(stack, 1, Len(stack) - 1)
            /\ tableList' = "none"
            /\ Adv(r) /\ UNCHANGED <<cfgv, nodes, meta, outcome>>
       ELSE Fail("unmatched_end")

RowBegin(r) ==                                  \* l.824-950
  /\ outcome.status = "open" /\ r.k = "begin"
  /\ IF NameErr(r) # "" THEN Fail(NameErr(r)) ELSE
     LET nm     == r.name
         parent == CurPath
         p      == Append(parent, nm)
         cnt    == r.count = "expr"             \* l.886-903: helper node only when not a bare ${ref}
         tlab   == r.tl /\ (r.lh)               \* l.924: generated label note
     IN /\ nodes' = nodes
               \o (IF cnt THEN <<Node(Append(parent, nm \o "_count"), "q", "count", rowno, "calculate",
                                      FALSE, FALSE, r.lname \o "_count", <<>>)>> ELSE <<>>)
               \o <<UNode(p, r.ct, "", rowno, r.ct, TRUE, r.lh, r.lname,
                         LET a1 == IF r.tl THEN SetAttr(r.cattrs, "appearance", r.tlapp) ELSE r.cattrs
                         IN IF cnt THEN SetRef(a1, "jr:count") ELSE a1, r.refs)>>      \* l.901: redirected to the helper node
               \o (IF tlab THEN <<Node(Append(p, "generated_table_list_label_" \o ToString(rowno)), "q",
                                       "tl_label", rowno, "note", TRUE, TRUE,
                                       "generated_table_list_label_" \o ToString(rowno), <<>>)>> ELSE <<>>)
        /\ stack' = Append(stack, [ct |-> r.ct, name |-> nm, path |-> p])
        /\ tableList' = IF r.tl THEN "armed" ELSE tableList      \* l.914: only ever switched on here
        /\ Adv(r) /\ UNCHANGED <<cfgv, meta, outcome>>

ListOK(r) == r.listkind # "plain" \/ r.list \in cfgv.lists

RowSelect(r) ==                                 \* l.956-1188
  /\ outcome.status = "open" /\ r.k = "select"
  /\ IF NameErr(r) # "" THEN Fail(NameErr(r))
     ELSE IF ~ListOK(r) THEN Fail(IF cfgv.lists = {} THEN "no_choices" ELSE "list_missing")   \* l.994-1014
     ELSE IF r.other /\ r.filt THEN Fail("other_filter")                                       \* l.1036
     ELSE IF tableList = "armed" /\ r.filt THEN Fail("tl_filter")                              \* l.1155
     ELSE IF tableList \notin {"none", "armed"} /\ tableList # r.list THEN Fail("tl_mismatch") \* l.1172
     ELSE
     LET parent == CurPath
         hdr    == tableList = "armed"                                                          \* l.1153
         hname  == "reserved_name_for_field_list_labels_" \o ToString(rowno)
     IN /\ nodes' = nodes
               \o (IF hdr THEN <<Node(Append(parent, hname), "q", "tl_header", rowno, r.type, TRUE, TRUE, hname,
                                      <<<<"appearance", "label", TRUE>>>>)>>
                   ELSE <<>>)
               \o <<UNode(Append(parent, r.name), "q", "", rowno, r.type, HasControl(r), r.lh \/ r.media, r.lname,
                         IF tableList # "none" THEN SetAttr(r.cattrs, "appearance", "list-nolabel") ELSE r.cattrs,
                         r.refs)>>   \* l.1180
               \o (IF r.other THEN <<Node(Append(parent, r.name \o "_other"), "q", "other", rowno, "text",
                                          TRUE, TRUE, r.lname \o "_other", <<>>)>> ELSE <<>>)
        /\ tableList' = IF hdr THEN r.list ELSE tableList
        /\ Adv(r) /\ UNCHANGED <<cfgv, stack, meta, outcome>>

ExternalTypes == {"xml-external", "csv-external"}
RowQuestion(r) ==                               \* l.752-760, 798-817, 1190-1374
  /\ outcome.status = "open" /\ r.k = "q"
  /\ IF r.type = "calculate" /\ ~r.hascalc /\ r.dyn \in {"none", "static"} THEN Fail("calc_missing")
     ELSE IF NameErr(r) # "" THEN Fail(NameErr(r))
     ELSE IF r.type \in ExternalTypes
       \* an external-instance row is an element of the tree (its name counts among its siblings) that contributes a secondary
       \* instance only: no node in the primary instance, no bind, no control (kind "ext")
       THEN /\ nodes' = Append(nodes, Node(Append(CurPath, EffName(r)), "ext", "ext", rowno, r.type, FALSE, FALSE, EffLname(r), <<>>))
            /\ Adv(r) /\ UNCHANGED <<cfgv, stack, tableList, meta, outcome>>
     ELSE /\ nodes' = Append(nodes, UNode(Append(CurPath, EffName(r)), "q", IF r.hasname THEN "" ELSE "note",
                                         rowno, r.type, HasControl(r), r.lh \/ r.media, EffLname(r),
                                         WithMedia(r.type, r.cattrs), r.refs))
          /\ Adv(r) /\ UNCHANGED <<cfgv, stack, tableList, meta, outcome>>

RowStep(r) == \/ RowSkip(r) \/ RowNoType(r) \/ RowAudit(r) \/ RowEnd(r)
              \/ RowBegin(r) \/ RowSelect(r) \/ RowQuestion(r)

(* ------------------------------------------------------------- after the loop: l.1376-1430 *)
Parent(p) == SubSeq(p, 1, Len(p) - 1)
IsSection(n) == n.kind \in {"group", "repeat"}

MetaNames == meta \o (IF cfgv.omitid THEN <<>> ELSE <<"instanceID">>)
                  \o (IF cfgv.iname THEN <<"instanceName">> ELSE <<>>)
                  \o (IF cfgv.entity THEN <<"entity">> ELSE <<>>)

\* the entity declaration carries a label child when the entities sheet gives a label (entity_declaration.xml_instance)
MetaNodes == IF Len(MetaNames) = 0 THEN <<>>
             ELSE <<Node(<<"meta">>, "group", "meta", 0, "group", FALSE, FALSE, "meta", <<>>)>>
                  \o [i \in 1..Len(MetaNames) |->
                        Node(<<"meta", MetaNames[i]>>, "q", "meta", 0, "calculate", FALSE, FALSE, MetaNames[i], <<>>)]
                  \o (IF cfgv.entity /\ cfgv.entlabel
                        THEN <<Node(<<"meta", "entity", "label">>, "q", "meta", 0, "calculate", FALSE, FALSE, "label", <<>>)>> ELSE <<>>)

DupSibling(ns) == \E i, j \in 1..Len(ns) : i < j /\ Parent(ns[i].p) = Parent(ns[j].p) /\ ns[i].lname = ns[j].lname
DupSection(ns) == \E i, j \in 1..Len(ns) : i < j /\ IsSection(ns[i]) /\ IsSection(ns[j])
                                             /\ Last(ns[i].p) = Last(ns[j].p)
SectionIsForm(ns) == \E i \in 1..Len(ns) : IsSection(ns[i]) /\ Last(ns[i].p) = cfgv.formname
UnknownType(ns) == \E i \in 1..Len(ns) : ns[i].kind = "q" /\ ns[i].gen \notin {"meta"} /\ ~TypeKnown(ns[i].type)
NoLabel(ns) == \E i \in 1..Len(ns) : ns[i].kind = "q" /\ ns[i].hc /\ ~ns[i].lh /\ TypeKnown(ns[i].type)

\* a ${name} that names no element, or more than one, cannot be resolved  (survey.py _var_repl_function)
\* (an external-instance row has no node to point at: its name is not a referable name)
NameCount(ns, x) == Cardinality({i \in 1..Len(ns) : Last(ns[i].p) = x /\ ns[i].kind # "ext"})
BadRef(ns) == \E i \in 1..Len(ns) : \E k \in 1..Len(ns[i].refs) : NameCount(ns, ns[i].refs[k]) # 1

\* identifiers a diagnosis of each tree-level problem may name (C17 "a message identifying the problem"):
\* the set is the union over every problem present, because the order in which the code finds them is not
\* part of the property
DupSibIdents(ns) == {ns[i].lname : i \in {i \in 1..Len(ns) : \E j \in 1..Len(ns) :
                        i # j /\ Parent(ns[i].p) = Parent(ns[j].p) /\ ns[i].lname = ns[j].lname}}
DupSecIdents(ns) == {ns[i].lname : i \in {i \in 1..Len(ns) : IsSection(ns[i]) /\ \E j \in 1..Len(ns) :
                        i # j /\ IsSection(ns[j]) /\ Last(ns[i].p) = Last(ns[j].p)}}
SecFormIdents(ns) == IF SectionIsForm(ns) THEN {cfgv.formname} ELSE {}
UnknownTypeIdents(ns) == {ns[i].type : i \in {i \in 1..Len(ns) : ns[i].kind = "q" /\ ns[i].gen \notin {"meta"} /\ ~TypeKnown(ns[i].type)}}
NoLabelIdents(ns) == {ns[i].lname : i \in {i \in 1..Len(ns) : ns[i].kind = "q" /\ ns[i].hc /\ ~ns[i].lh /\ TypeKnown(ns[i].type)}}
BadRefIdents(ns) == UNION {{ns[i].refs[k] : k \in {k \in 1..Len(ns[i].refs) : NameCount(ns, ns[i].refs[k]) # 1}} : i \in 1..Len(ns)}
TreeErrIdents(ns) == DupSibIdents(ns) \cup DupSecIdents(ns) \cup SecFormIdents(ns) \cup UnknownTypeIdents(ns)
                     \cup NoLabelIdents(ns) \cup BadRefIdents(ns)
UnclosedIdents == {stack[i].name : i \in 1..Len(stack)}

TreeError(ns) == IF UnknownType(ns) THEN "unknown_type"
                 ELSE IF DupSibling(ns) THEN "dup_sibling"
                 ELSE IF SectionIsForm(ns) THEN "section_is_form"
                 ELSE IF DupSection(ns) THEN "dup_section"
                 ELSE IF NoLabel(ns) THEN "nolabel"
                 ELSE IF BadRef(ns) THEN "bad_ref"
                 ELSE ""

Finish ==
  /\ outcome.status = "open"
  /\ IF Len(stack) # 0                          \* l.1379
       THEN outcome' = Err("unclosed", 0) /\ UNCHANGED <<nodes>>
       ELSE LET ns == nodes \o MetaNodes
            IN /\ nodes' = ns
               /\ outcome' = IF TreeError(ns) = "" THEN Done ELSE Err(TreeError(ns), 0)
  /\ UNCHANGED <<cfgv, stack, tableList, meta, nwarn, rowno>>

(* --------------------------------------------- what the finished tree prescribes (C04 / C02) *)
\* Expected primary instance below the root, non-template part, preorder.
InstNodes == SelectSeq(nodes, LAMBDA n : n.kind # "ext")
ExpInstance == [i \in 1..Len(InstNodes) |-> InstNodes[i].p]
RepeatPaths == {nodes[i].p : i \in {j \in 1..Len(nodes) : nodes[j].kind = "repeat"}}
SubtreeOf(p) == SelectSeq(ExpInstance, LAMBDA q : IsPrefix(p, q))
\* Nodes that came from a user row (the one-to-one clause) vs documented generated kinds
GenKinds == {"count", "other", "tl_label", "tl_header", "note", "meta"}
UserNodes == SelectSeq(nodes, LAMBDA n : n.gen \in {"", "note"})
\* Expected body: every node with a control, in preorder; a repeat is group + repeat.
BodyStep(n) == IF n.kind = "repeat" THEN <<[tag |-> "group", ref |-> n.p, attrs |-> <<>>],
                                            [tag |-> "repeat", ref |-> n.p, attrs |-> n.attrs]>>
               ELSE IF n.kind = "group" THEN <<[tag |-> "group", ref |-> n.p, attrs |-> n.attrs]>>
               ELSE <<[tag |-> TagOf(n.type), ref |-> n.p, attrs |-> n.attrs]>>
RECURSIVE BodyOf(_)
BodyOf(ns) == IF ns = <<>> THEN <<>>
              ELSE (IF Head(ns).hc THEN BodyStep(Head(ns)) ELSE <<>>) \o BodyOf(Tail(ns))
ExpBody == BodyOf(nodes)

(* ------------------------------------------------------------- design-level invariants *)
\* stack always mirrors the open begin rows, and every frame's path is a created section node
StackWellFormed ==
  \A i \in 1..Len(stack) :
     /\ \E j \in 1..Len(nodes) : nodes[j].p = stack[i].path /\ nodes[j].kind = stack[i].ct
     /\ (i > 1 => Parent(stack[i].path) = stack[i-1].path)
     /\ (i = 1 => Len(stack[i].path) = 1)
\* creation order is document (pre)order: every node's parent was created before it
ParentsFirst ==
  \A j \in 1..Len(nodes) : Len(nodes[j].p) > 1 =>
     \E i \in 1..(j-1) : nodes[i].p = Parent(nodes[j].p) /\ IsSection(nodes[i])
\* a finished (accepted) tree has unambiguous paths  (C02 'forms whose names would be ambiguous are rejected')
AcceptedIsUnambiguous ==
  outcome.status = "done" => /\ ~DupSibling(nodes)
                             /\ \A i, j \in 1..Len(nodes) : i # j => nodes[i].p # nodes[j].p
\* errors raised by the row loop always carry the row they belong to (C17)
RowErrorsLocated == (outcome.status = "error" /\ outcome.kind \in RowLevelErrors) => outcome.row >= 2
\* every tree-level rejection has at least one identifier its message can name (C17)
IdentErrorsHaveIdent == (outcome.status = "error" /\ outcome.kind \in IdentErrors) =>
                           (IF outcome.kind = "unclosed" THEN UnclosedIdents ELSE TreeErrIdents(nodes)) # {}
ErrorKindsKnown == outcome.status = "error" => outcome.kind \in RowLevelErrors \cup IdentErrors \cup KindErrors
\* table-list mode is never left on after an end row (action property)
TableListResetOnEnd == [][Len(stack') < Len(stack) => tableList' = "none"]_rpvars
\* generated nodes are only of the documented kinds and sit where their role says
GeneratedOnlyDocumented ==
  \A j \in 1..Len(nodes) : nodes[j].gen # "" => nodes[j].gen \in GenKinds
CountBesideRepeat ==
  \A j \in 1..Len(nodes) : nodes[j].gen = "count" =>
     j < Len(nodes) /\ IsSection(nodes[j+1]) /\ Parent(nodes[j+1].p) = Parent(nodes[j].p)
OtherAfterSelect ==
  \A j \in 1..Len(nodes) : nodes[j].gen = "other" =>
     j > 1 /\ nodes[j-1].gen = "" /\ Parent(nodes[j-1].p) = Parent(nodes[j].p)
\* every control of the expected body refers to a node of the expected instance (closure at spec level)
SpecClosure == \A i \in 1..Len(ExpBody) : \E j \in 1..Len(nodes) : nodes[j].p = ExpBody[i].ref
=============================================================================
