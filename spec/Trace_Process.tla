---------------------------- MODULE Trace_Process ----------------------------
(* A replayed history: <<[ev "step", t, op, f, digest (results returned by that step, "" if none), tables_ok, tmp_ok] ...>>.   *)
(* Each step must be enabled in the model (so the replay really followed a model behaviour) and every returned result must      *)
(* equal the canonical digest of its form (Ev.canon, from a fresh interpreter).                                                *)
EXTENDS Process, Json, IOUtils
VARIABLES tid, l
Traces == JsonDeserialize(IOEnv.TRACE_FILE)
T == Traces[tid]
Ev == T[l]
Check(name, cond) == IF cond THEN TRUE ELSE (PrintT(<<"AT", tid, l, name>>) /\ FALSE)
Act(t, op, f) == CASE op = "parse" -> Parse(t, f) [] op = "build" -> Build(t) [] op = "xml" -> Xml(t) [] op = "again" -> Again(t) [] OTHER -> FALSE
TInit == tid \in 1..Len(Traces) /\ l = 1 /\ PInit
TStep == /\ l <= Len(T) /\ Ev.ev = "step"
         /\ Check("step_is_a_model_behaviour", ENABLED Act(Ev.t, Ev.op, Ev.f))
         /\ Act(Ev.t, Ev.op, Ev.f)
         /\ Check("result_is_canonical", Ev.digest = "" \/ Ev.digest = Ev.canon)
         /\ Check("module_tables_unchanged", Ev.tables_ok)
         /\ Check("no_temp_files_left", Ev.tmp_ok)
         /\ l' = l + 1 /\ UNCHANGED tid
\* stand-alone facts: hash-seed sweep and free-running threads
TFact == /\ l <= Len(T) /\ Ev.ev = "fact"
         /\ Check("result_is_canonical", Ev.digest = Ev.canon)
         /\ l' = l + 1 /\ UNCHANGED <<tid, pvars>>
TNext == TStep \/ TFact
TSpec == TInit /\ [][TNext]_<<pvars, tid, l>>
Accepted == (l = Len(T) + 1) => PrintT(<<"ACCEPT", tid>>)
=============================================================================
