-------------------------- MODULE Trace_Parameters --------------------------
(* One trace = one parameters cell: <<[ev "params", cell, text, real: [status, pairs]]>>.                                *)
(*  envelope (violation): the parser never fails with anything but the library's error; a cell in a documented style    *)
(*  parses to Meaning(cell).  transcription (DRIFT): the result differs from Parse(cell).                               *)
EXTENDS Parameters, Json, IOUtils
VARIABLES tid, l
Traces == JsonDeserialize(IOEnv.TRACE_FILE)
T == Traces[tid]
Ev == T[l]
Check(name, cond) == IF cond THEN TRUE ELSE (PrintT(<<"AT", tid, l, name>>) /\ FALSE)
Pairs(f) == {<<k, f[k]>> : k \in DOMAIN f}
RealPairs == {<<Ev.real.pairs[n][1], Ev.real.pairs[n][2]>> : n \in 1..Len(Ev.real.pairs)}
TInit == tid \in 1..Len(Traces) /\ l = 1 /\ cell = [items |-> <<>>, seps |-> <<>>] /\ done = FALSE
TStep == /\ l <= Len(T) /\ Ev.ev = "params"
         /\ LET c == Ev.cell  p == Parse(c) IN
            /\ Check("parser_never_crashes", Ev.real.status \in {"ok", "pyxform_error"})
            /\ Check("documented_cell_is_accepted", InDomain(c) => Ev.real.status = "ok")
            /\ Check("documented_cell_means_its_items", InDomain(c) => RealPairs = Pairs(Meaning(c)))
            /\ (((p.ok /\ Ev.real.status = "ok" /\ RealPairs # Pairs(p.map)) \/ (p.ok # (Ev.real.status = "ok"))) => PrintT(<<"DRIFT", tid>>))
         /\ l' = l + 1 /\ UNCHANGED <<tid, pvars>>
TSpec == TInit /\ [][TStep]_<<pvars, tid, l>>
Accepted == (l = Len(T) + 1) => PrintT(<<"ACCEPT", tid>>)
=============================================================================
