------------------------------- MODULE JsonIR -------------------------------
(***************************************************************************)
(* C16: the JSON intermediate form.                                        *)
(* A form is abstracted to the set of (element kind, field) pairs that     *)
(* carry something the XForm depends on.  Two round trips:                 *)
(*   A: workbook -> W2J -> JSON text -> dict -> Build -> XForm             *)
(*   B: survey -> SurveyDump -> JSON text -> dict -> Build -> XForm, Dump   *)
(* W2J output is plain data (dict/list/str), so text round-trips are the   *)
(* identity in the model.  SurveyDump is transcribed with its deletions    *)
(* (survey_element.to_json_dict and the overrides in question.py,          *)
(* section.py, survey.py): it drops extra_data, private (_-prefixed) slots, *)
(* type-table defaults, empty values, and -- GroupedSection -- `bind`.     *)
(* TLC checks PathB on the transcription and reports which features the    *)
(* dump is predicted to lose; the envelope (the property) says none may.   *)
(***************************************************************************)
EXTENDS Naturals, Sequences, FiniteSets, TLC
CONSTANTS MaxFeatures

\* feature -> (element kind, field) it lives in
Feat ==
  ("group_relevant"   :> <<"group", "bind">>) @@
  ("group_appearance" :> <<"group", "control">>) @@
  ("repeat_count"     :> <<"repeat", "control">>) @@
  ("repeat_relevant"  :> <<"repeat", "bind">>) @@
  ("choice_extra"     :> <<"option", "extra_data">>) @@
  ("choice_media"     :> <<"option", "media">>) @@
  ("parameters"       :> <<"question", "parameters">>) @@
  ("translations"     :> <<"question", "label">>) @@
  ("question_media"   :> <<"question", "media">>) @@
  ("constraint_msg"   :> <<"question", "bind">>) @@
  ("guidance"         :> <<"question", "guidance_hint">>) @@
  ("dyn_default"      :> <<"question", "default">>) @@
  ("trigger"          :> <<"question", "trigger">>) @@
  ("or_other"         :> <<"question", "choices">>) @@
  ("instance_attr"    :> <<"question", "instance">>) @@
  ("settings"         :> <<"survey", "settings">>) @@
  ("entity"           :> <<"entity", "parameters">>) @@
  ("external_instance":> <<"external", "name">>) @@
  ("audit"            :> <<"question", "parameters">>) @@
  ("table_list"       :> <<"group", "children">>) @@
  ("last_saved"       :> <<"question", "default">>) @@
  ("search"           :> <<"search_select", "itemset">>) @@
  ("osm"              :> <<"osm", "choices">>) @@
  ("rank_and_multi"   :> <<"question", "choices">>) @@
  ("from_file"        :> <<"question", "itemset">>) @@
  ("external_select"  :> <<"question", "query">>) @@
  ("select_from_repeat" :> <<"question", "itemset">>) @@
  ("background_geopoint" :> <<"question", "trigger">>) @@
  ("range_decimal"    :> <<"question", "bind_override">>) @@
  ("note_editable"    :> <<"question", "bind_override">>) @@
  ("explicit_bind_type" :> <<"question", "bind_override">>) @@
  ("nested_repeat_bind" :> <<"repeat", "bind">>) @@       \* a repeat with logic below a (logic-free) group
  ("empty_sections"   :> <<"group", "children">>) @@      \* a group and a repeat without rows: dumped without `children`
  ("deep_nesting"     :> <<"question", "bind">>) @@       \* group > repeat > group > question with logic at the leaf
  ("namespaces"       :> <<"survey", "settings">>)
Features == DOMAIN Feat
\* transcription of what the survey's own dump deletes although the XForm depends on it
DumpDrops(kind, field) == \/ (kind = "group" /\ field = "bind")        \* GroupedSection.to_json_dict: to_delete = (BIND,)
                          \/ (field = "extra_data")                    \* SurveyElement.to_json_dict: chain(..., ("extra_data",))
                          \* rendering a search() select clears its itemset ("") and the dump removes empty values, so the
                          \* reloaded select has neither itemset nor list (the builder then fails)
                          \/ (kind = "search_select" /\ field = "itemset")
                          \* OsmUploadQuestion has no `choices` slot: the generic dump cannot copy it
                          \/ (kind = "osm")
PredictedLost(F) == {f \in F : DumpDrops(Feat[f][1], Feat[f][2])}

VARIABLES feats, phase
jvars == <<feats, phase>>
JInit == feats = {} /\ phase = "pick"
Add(f) == phase = "pick" /\ Cardinality(feats) < MaxFeatures /\ f \notin feats /\ feats' = feats \cup {f} /\ UNCHANGED phase
Go == phase = "pick" /\ phase' = "done" /\ UNCHANGED feats
JNext == (\E f \in Features : Add(f)) \/ Go
JSpec == JInit /\ [][JNext]_jvars
\* the design-level statement of path B on the transcription; TLC is expected to find the two known counterexamples
PathBFaithful == phase = "done" => PredictedLost(feats) = {}
SeqToSet(s) == {s[i] : i \in 1..Len(s)}
=============================================================================
