---------------------------- MODULE Gen_RefSyntax ---------------------------
EXTENDS RefSyntax, Json
Emit == (cell # <<>> /\ HasStart(cell)) =>
  PrintT(ToJson([cell |-> cell, kind |-> kind, verdict |-> Verdict(cell), malformed |-> Malformed(cell, kind), hole |-> ApostropheHole(cell, kind),
                 wellformed |-> WellFormedKnown(cell), nrefs |-> NRefs(cell)]))
=============================================================================
