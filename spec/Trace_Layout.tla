---------------------------- MODULE Trace_Layout ----------------------------
EXTENDS Layout, Json, IOUtils
VARIABLES tid, l
Traces == JsonDeserialize(IOEnv.TRACE_FILE)
T == Traces[tid]
Ev == T[l]
Check(name, cond) == IF cond THEN TRUE ELSE (PrintT(<<"AT", tid, l, name>>) /\ FALSE)
\* Ev.steps: the composition; Ev.base_warn / Ev.warn: << <<sheet, row, text-with-row-removed>> >> for the base and the rewritten form
BlankSet(s) == {Ev.steps[j].at : j \in {i \in 1..Len(Ev.steps) : Ev.steps[i].k = "blank_row" /\ Ev.steps[i].s = s}}
TShift(s, row) == IF row = 0 \/ s \notin {"survey", "choices"} THEN row ELSE row + Cardinality({p \in BlankSet(s) : p + 1 <= row})
C13Env ==
  /\ Check("steps_in_catalogue", \A j \in 1..Len(Ev.steps) : Ev.steps[j].k \in Kinds /\ Ev.steps[j].s \in Cat[Ev.steps[j].k])
  /\ Check("same_outcome", Ev.status = Ev.base_status)
  /\ Check("same_xform_up_to_row_shift", Ev.canon = Ev.base_canon_shifted)
  /\ Check("same_warnings_up_to_row_shift",
           [j \in 1..Len(Ev.warn) |-> <<Ev.warn[j][1], Ev.warn[j][2], Ev.warn[j][3]>>]
           = [j \in 1..Len(Ev.base_warn) |-> <<Ev.base_warn[j][1], TShift(Ev.base_warn[j][1], Ev.base_warn[j][2]), Ev.base_warn[j][3]>>])
  /\ Check("same_itemsets", Ev.itemsets = Ev.base_itemsets)
TInit == tid \in 1..Len(Traces) /\ l = 1 /\ base = 1 /\ steps = <<>> /\ blanks = [survey |-> {}, choices |-> {}]
TStep == /\ l <= Len(T) /\ Ev.ev = "layout" /\ C13Env /\ l' = l + 1 /\ UNCHANGED <<tid, lvars>>
TSpec == TInit /\ [][TStep]_<<lvars, tid, l>>
Accepted == (l = Len(T) + 1) => PrintT(<<"ACCEPT", tid>>)
=============================================================================
