------------------------- MODULE Trace_SurveyObject -------------------------
EXTENDS SurveyObject, Json, IOUtils
VARIABLES tid, l
Traces == JsonDeserialize(IOEnv.TRACE_FILE)
T == Traces[tid]
Ev == T[l]
Prop == IOEnv.PROP     \* "C02": structural closure;  "C07": itext closure of every render (elements carry translations)
Check(name, cond) == IF cond THEN TRUE ELSE (PrintT(<<"AT", tid, l, name>>) /\ FALSE)
TInit == tid \in 1..Len(Traces) /\ l = 1 /\ SOInit /\ inspect = FALSE      \* (inspection is an observation: it has no effect in the model)
TAdd == /\ l <= Len(T) /\ Ev.op \in {"add_root", "add_group"}
        /\ (IF Ev.op = "add_root" THEN AddRoot(Ev.name) ELSE AddGroup(Ev.name))
        /\ l' = l + 1 /\ UNCHANGED tid
TAddRef == /\ l <= Len(T) /\ Ev.op = "add_ref" /\ AddRef(Ev.name) /\ l' = l + 1 /\ UNCHANGED tid
TMove == /\ l <= Len(T) /\ Ev.op = "move" /\ Move /\ l' = l + 1 /\ UNCHANGED tid
TAddRepeat == /\ l <= Len(T) /\ Ev.op = "add_repeat" /\ AddRepeat /\ l' = l + 1 /\ UNCHANGED tid
TMark == /\ l <= Len(T) /\ Ev.op = "mark" /\ Mark /\ l' = l + 1 /\ UNCHANGED tid
TRender == /\ l <= Len(T) /\ Ev.op = "render" /\ Render
           /\ Check("no_crash", Ev.outcome \in {"ok", "rejected"})
           /\ Check("ambiguous_tree_rejected_on_every_render", Ambiguous => Ev.outcome = "rejected")
           /\ Check("unresolvable_reference_rejected_on_every_render", RefBroken => Ev.outcome = "rejected")
           /\ Check("unambiguous_tree_renders", (~Ambiguous /\ ~RefBroken) => Ev.outcome = "ok")
           /\ (Prop = "C03" => Check("references_reach_nodes_of_the_current_tree",
                    Ev.outcome = "ok" => (Len(Ev.ref_paths) = Len(refs) /\ \A i \in 1..Len(refs) : Ev.ref_paths[i] = TargetPath(refs[i]))))
           /\ (Prop = "C02" => Check("closure_of_what_was_rendered", Ev.outcome = "ok" => (Ev.unique_siblings /\ Ev.binds_once /\ Ev.controls_once /\ Ev.closure)))
           /\ (Prop = "C03" => Check("late_repeat_references_are_relative", Ev.outcome = "ok" => Ev.rep_relative = nrep))
           /\ (Prop = "C02" => Check("group_children_where_the_group_is_now", Ev.outcome = "ok" => GroupChildPaths \subseteq {Ev.inst_paths[i] : i \in 1..Len(Ev.inst_paths)}))
           /\ (Prop = "C05" => Check("logic_attribute_on_its_own_bind_only", Ev.outcome = "ok" => {Ev.required_on[i] : i \in 1..Len(Ev.required_on)} = MarkedPaths))
           /\ (Prop = "C15" => Check("pretty_and_compact_agree_on_every_render", Ev.outcome = "ok" => Ev.modes_agree))
           /\ (Prop = "C07" => Check("itext_closed_on_every_render", Ev.outcome = "ok" => (Ev.refs_resolve /\ Ev.same_ids /\ Ev.has_refs)))
           /\ l' = l + 1 /\ UNCHANGED tid
TSpec == TInit /\ [][TAdd \/ TAddRef \/ TAddRepeat \/ TMark \/ TMove \/ TRender]_<<svars, tid, l>>
Accepted == (l = Len(T) + 1) => PrintT(<<"ACCEPT", tid>>)
=============================================================================
