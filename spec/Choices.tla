------------------------------ MODULE Choices ------------------------------
(***************************************************************************)
(* C09: choice lists -> secondary instances; select wiring; external data  *)
(* sources; the itemsets CSV.                                              *)
(*                                                                         *)
(* Generator: a configuration is the choices sheet shape (sizes of lists   *)
(* L, M and an unused list U, number of extra columns and their sparsity   *)
(* pattern, interleaving of the lists' rows, duplicate names), a sequence  *)
(* of select variants placed at a nesting depth, a preset of other         *)
(* external-data rows, and an external_choices sheet shape.                *)
(*                                                                         *)
(* Envelope: what the emitted XForm / itemsets CSV must satisfy for the    *)
(* source facts `src` the harness wrote into the workbook.                 *)
(***************************************************************************)
EXTENDS Naturals, Sequences, FiniteSets, TLC

CONSTANTS MaxSel, Wide     \* Wide = TRUE: the full ranges (thorough); FALSE: the reduced ranges (quick)

Variants == {"one", "multi", "rank", "oneM", "other", "filter", "rand", "randseed", "randseedref", "filter_rand",
             "csv", "csv_vl", "csv_rand", "xml_filter", "geojson", "geojson_rand", "geojson_v", "geojson_l", "external", "repeat", "search",
             "search_after_modifier",     \* search() written after another appearance word ("minimal search('f')")
             "external_ls",               \* select_one_external whose filter is the form's only last-saved reference
             "randfalse"}                 \* randomize=false written out: the select is NOT randomized
NeedsM == {"oneM", "other", "search", "search_after_modifier"}
Searches == {"search", "search_after_modifier"}
Fill == IF Wide THEN {"all", "none", "first", "last", "alt"} ELSE {"all", "alt", "none"}
NL == IF Wide THEN {1, 2, 3} ELSE {1, 3}
NM == IF Wide THEN {0, 1, 2} ELSE {0, 2}
XC == IF Wide THEN {0, 1, 2} ELSE {0, 2}
Extras == IF Wide THEN 0..14 ELSE {0, 3, 5, 6, 7, 8, 9, 10, 11, 12, 13, 14}     \* 6: a last-saved reference in the second of two expression binds of one question
                                                      \* 7 / 8: a pulldata() file named only in a repeat row's / a group row's own relevant cell
\* 9..14: the form's only last-saved reference stands in a group's relevant / a repeat's relevant / a repeat count / a label /
\* a hint and a required message / the seed of a randomized select  (every place where a reference is substituted can name the last-saved instance)
LastSavedSites == 9..14
ExtShapes == IF Wide THEN 0..5 ELSE {0, 2, 4, 5}     \* 5: the list column of external_choices under its alias spelling "list name"

\* how the lists are named and labelled: plain names / names containing a dot (legal; only a recognised file extension means
\* "from file") x plain labels / translated labels (the list then goes through itext: items carry itextId, selects read it)
Styles == IF Wide THEN {"plain", "dotted", "itext", "dotted_itext"} ELSE {"plain", "dotted_itext"}
IsItext(c) == c.style \in {"itext", "dotted_itext"}
VARIABLES cfg, sels, phase
gvars == <<cfg, sels, phase>>

GInit == /\ cfg \in [nl : NL, nm : NM, nu : {0, 1}, xc : XC, fill : Fill, inter : BOOLEAN, dup : BOOLEAN,
                     depth : 0..2, extras : Extras, ext : ExtShapes, own : {"none", "mid", "last"}, style : Styles]
         /\ (cfg.own # "none" => cfg.nm >= 2)                 \* list M defines its own choice named 'other' (first or last row)
         /\ (~Wide => (cfg.own = "none" \/ (cfg.xc = 0 /\ cfg.extras = 0 /\ cfg.ext = 0 /\ cfg.depth = 0)))
         /\ (~Wide => (cfg.style = "plain" \/ (cfg.extras = 0 /\ cfg.ext \in {0, 2} /\ cfg.own = "none")))
         /\ (~Wide => (cfg.extras \notin LastSavedSites \/ (cfg.xc = 0 /\ cfg.depth = 0 /\ ~cfg.inter /\ cfg.ext \in {0, 2})))
         /\ (cfg.extras \in LastSavedSites => (cfg.fill = "all" /\ ~cfg.dup /\ cfg.own = "none" /\ cfg.nu = 0))
         /\ (cfg.xc = 0 => cfg.fill = "all")                 \* sparsity only matters with extra columns
         /\ (cfg.nm = 0 => ~cfg.inter)                        \* interleaving needs two lists
         /\ (cfg.dup => cfg.nl >= 2)
         /\ (~Wide => (cfg.nu = 0 /\ ~cfg.dup) \/ (cfg.nu = 1 /\ cfg.dup /\ cfg.inter))
         /\ sels = <<>> /\ phase = "build"
\* a search() select makes its list inline-only; the converter refuses a list shared by search and non-search selects
UsesMPlain(s) == \E i \in 1..Len(s) : s[i] \in {"oneM", "other"}
UsesSearch(s) == \E i \in 1..Len(s) : s[i] \in Searches
AddSelect(v) ==
  /\ phase = "build" /\ Len(sels) < MaxSel
  /\ (v \in NeedsM => cfg.nm > 0)
  /\ (v \in Searches => ~UsesMPlain(sels)) /\ (v \in {"oneM", "other"} => ~UsesSearch(sels))
  /\ (v \in {"external", "external_ls"} => cfg.ext > 0)
  /\ (v \in Searches => ~IsItext(cfg))                       \* (inline items of a translated list: out of this model)
  /\ sels' = Append(sels, v) /\ UNCHANGED <<cfg, phase>>
Close == phase = "build" /\ Len(sels) > 0 /\ (cfg.ext > 0 => \E i \in 1..Len(sels) : sels[i] \in {"external", "external_ls"})
         /\ phase' = "done" /\ UNCHANGED <<cfg, sels>>
GNext == (\E v \in Variants : AddSelect(v)) \/ Close
GSpec == GInit /\ [][GNext]_gvars

(* ------------------------------------------------------------------ envelope *)
SeqToSet(s) == {s[i] : i \in 1..Len(s)}
NoDupSeq(s) == \A i, j \in 1..Len(s) : i # j => s[i] # s[j]
\* obs instance: [id, src, has_items, items]; items = << << <<tag, text>>, ... >>, ... >>
Inst(obs, id) == {i \in 1..Len(obs.instances) : obs.instances[i].id = id}
TagsOf(item) == [k \in 1..Len(item) |-> item[k][1]]
Reserved == {"name", "label", "itextId"}
\* src item: [name, label, extras: << <<col, val>> >>]
ItemOK(o, s) ==
  /\ Cardinality({k \in 1..Len(o) : o[k][1] = "name"}) = 1
  /\ \E k \in 1..Len(o) : o[k] = <<"name", s.name>>
  /\ \/ \E k \in 1..Len(o) : o[k][1] = "itextId"
     \/ (s.label # "" /\ \E k \in 1..Len(o) : o[k] = <<"label", s.label>>)
     \/ (s.label = "" /\ ~\E k \in 1..Len(o) : o[k][1] = "label")
  /\ SelectSeq(o, LAMBDA x : x[1] \notin Reserved) = s.extras
ListOK(obs, L) ==   \* L: [id, inline, other, items]
  IF L.inline THEN Inst(obs, L.id) = {}
  ELSE /\ Cardinality(Inst(obs, L.id)) = 1
       /\ \A i \in Inst(obs, L.id) :
             /\ obs.instances[i].src = "" /\ obs.instances[i].has_items
             \* or_other appends exactly one 'other' choice after the list's own choices -- unless the list already
             \* has a choice named 'other' (L.other is then FALSE and the list's own rows are all there is)
             /\ Len(obs.instances[i].items) = Len(L.items) + (IF L.other THEN 1 ELSE 0)
             /\ \A k \in 1..Len(L.items) : ItemOK(obs.instances[i].items[k], L.items[k])
             /\ (L.other => <<"name", "other">> \in SeqToSet(obs.instances[i].items[Len(L.items) + 1]))
\* select: src [path, kind, inst, filter, wrap, seed, vref, lref, items]; obs [path, kind, inst, filter, wrap, seed, vref, lref, items]
ObsSel(obs, p) == {i \in 1..Len(obs.selects) : obs.selects[i].path = p}
SelectOK(obs, s) ==
  /\ Cardinality(ObsSel(obs, s.path)) = 1
  /\ \A i \in ObsSel(obs, s.path) :
       LET o == obs.selects[i] IN
       /\ o.kind = s.kind
       /\ (s.kind \in {"itemset", "query"} => o.inst = s.inst /\ o.filter = s.filter)
       /\ (s.kind = "itemset" => o.wrap = s.wrap /\ o.seed = s.seed /\ o.vref = s.vref /\ o.lref = s.lref)
       /\ (s.kind = "repeat" => o.inst = s.inst /\ o.vref = s.vref /\ o.lref = s.lref)
       /\ (s.kind = "inline" => o.items = s.items)
ExternalOK(obs, e) ==   \* e: <<id, uri>>
  /\ Cardinality(Inst(obs, e[1])) = 1
  /\ \A i \in Inst(obs, e[1]) : obs.instances[i].src = e[2] /\ ~obs.instances[i].has_items
OtherOK(obs, o) ==      \* o: [path (select), list]: the companion text node, relevant only when 'other' is selected
  \E i \in 1..Len(obs.others) : obs.others[i].path = o.path /\ obs.others[i].has_node /\ obs.others[i].relevant_ok
=============================================================================
