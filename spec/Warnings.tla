----------------------------- MODULE Warnings ------------------------------
(***************************************************************************)
(* C20: advisory warnings fire exactly when their trigger is present.      *)
(* Four parts, each with its own generator (or harness-enumerated inputs)  *)
(* and an envelope evaluated by TLC on the parsed warning list:            *)
(*  (a) missing translations per (sheet, language, column)                 *)
(*  (b) sheet names within edit distance 2 of a missing sheet              *)
(*  (c) languages without a valid IANA code                                *)
(*  (d) row-level / header-level triggers placed in a base form            *)
(*  (e) advisory only: the XForm does not depend on whether a warnings     *)
(*      list is passed                                                     *)
(***************************************************************************)
EXTENDS Naturals, Sequences, FiniteSets, TLC
CONSTANTS MaxHeaders, MaxTriggers, Part

(* ------------------------------------------------------------------ (a) translations *)
SurveyCols == {"label", "hint", "guidance_hint", "constraint_message", "image"}
ChoiceCols == {"label", "image", "audio"}
Langs == {"", "A", "B"}
LangsOf(H) == {h[2] : h \in H}
ColsOf(H) == {h[1] : h \in H}
\* what must be reported as missing for one sheet whose translatable headers are H (set of <<column, language>>)
Missing(H) == IF LangsOf(H) \subseteq {""} THEN {}
              ELSE {<<L, col>> : L \in LangsOf(H), col \in ColsOf(H)} \ {<<h[2], h[1]>> : h \in H}
Translated(H) == ~(LangsOf(H) \subseteq {""})

(* ------------------------------------------------------------------ (b) edit distance *)
Min2(x, y) == IF x < y THEN x ELSE y
NextRow(prev, ca, b) ==
  LET RECURSIVE Build(_, _)
      Build(j, acc) == IF j > Len(b) THEN acc
                       ELSE Build(j + 1, Append(acc, Min2(Min2(prev[j + 1] + 1, acc[j] + 1),
                                                          prev[j] + (IF ca = b[j] THEN 0 ELSE 1))))
  IN Build(1, <<prev[1] + 1>>)
RECURSIVE LevGo(_, _, _)
LevGo(a, b, prev) == IF a = <<>> THEN prev[Len(b) + 1] ELSE LevGo(Tail(a), b, NextRow(prev, Head(a), b))
Lev(a, b) == LevGo(a, b, [j \in 1..(Len(b) + 1) |-> j - 1])
\* design-level sanity of the distance (checked by TLC on all pairs of short strings, MC_Warnings)
Alphabet == {1, 2}
ShortStrings == UNION {[1..n -> Alphabet] : n \in 0..3}
LevSymmetric == \A a, b \in ShortStrings : Lev(a, b) = Lev(b, a)
LevIdentity == \A a, b \in ShortStrings : (Lev(a, b) = 0) <=> (a = b)
LevBounds == \A a, b \in ShortStrings : Lev(a, b) <= (IF Len(a) > Len(b) THEN Len(a) ELSE Len(b))
                                       /\ Lev(a, b) >= (IF Len(a) > Len(b) THEN Len(a) - Len(b) ELSE Len(b) - Len(a))
LevTriangle == \A a, b, c \in ShortStrings : Lev(a, c) <= Lev(a, b) + Lev(b, c)
ASSUME LevSymmetric /\ LevIdentity /\ LevBounds /\ LevTriangle

\* a sheet named `name` (lower-cased code points `lname`) is reported as similar to the missing sheet `target`
SimilarExpected(lname, target, supported, underscore) == Lev(lname, target) <= 2 /\ ~supported /\ ~underscore

(* ------------------------------------------------------------------ (d) row-level triggers *)
\* base survey: rows 2.. ; kinds for documentation only
BaseRows == <<"text", "begin_group", "text", "end_group", "begin_repeat", "int", "end_repeat", "image", "sel1">>
Triggers == {"disabled", "nolabel_group", "nolabel_repeat", "deprecated", "no_maxpix", "ext_nofilter", "choice_nolabel",
             "dup_id", "or_other_trans", "comment_row",
             "noclean",      \* (a modifier, not a trigger: settings clean_text_values = no; warnings and their rows are unchanged)
             "allowdup",     \* (a modifier: settings allow_choice_duplicates = yes; warnings are unchanged)
             "fl_multi"}     \* (a modifier: the group's appearance is "w2 field-list" - only the exact appearance field-list exempts an unlabeled group)
Appended == <<"deprecated", "ext_nofilter", "comment_row">>       \* triggers that append a row, in this order
AppendIndex(T, t) == Cardinality({i \in 1..Len(Appended) : Appended[i] \in T /\ \E j \in 1..Len(Appended) : (Appended[j] = t /\ i < j)})
RowOfAppended(T, t, blanks) == Len(BaseRows) + 2 + blanks + AppendIndex(T, t)
ExpOne(T, t, blanks) ==
  CASE t = "disabled"       -> {<<"disabled", 2 + blanks>>, <<"disabled", 7 + blanks>>}
    [] t = "nolabel_group"  -> {<<"group_nolabel", 3 + blanks>>}
    [] t = "nolabel_repeat" -> {<<"repeat_nolabel", 6 + blanks>>}
    [] t = "deprecated"     -> {<<"deprecated", RowOfAppended(T, t, blanks)>>}
    [] t = "no_maxpix"      -> {<<"no_maxpix", 9 + blanks>>}
    [] t = "ext_nofilter"   -> {<<"ext_nofilter", RowOfAppended(T, t, blanks)>>}
    [] t = "choice_nolabel" -> {<<"choice_nolabel", 3>>}
    [] t = "dup_id"         -> {<<"dup_id", 0>>}
    [] t = "or_other_trans" -> {<<"or_other", 0>>}
    [] t = "comment_row"    -> {<<"skip_row", RowOfAppended(T, t, blanks)>>}
    [] t = "noclean"        -> {}
    [] t = "allowdup"       -> {}
    [] t = "fl_multi"       -> {}
ExpWarnings(T, blanks) == UNION {ExpOne(T, t, blanks) : t \in T}

(* ------------------------------------------------------------------ generators *)
VARIABLES sh, ch, other, trig, blanks, done
wvars == <<sh, ch, other, trig, blanks, done>>
SurveyHeaders == SurveyCols \X Langs
ChoiceHeaders == ChoiceCols \X Langs
WInit == /\ sh = {} /\ ch = {} /\ trig = {} /\ done = FALSE
         /\ other \in (IF Part = "trans" THEN BOOLEAN ELSE {FALSE})
         /\ blanks \in (IF Part = "rows" THEN 0..2 ELSE {0})
AddSurveyHeader(h) == Part = "trans" /\ ~done /\ Cardinality(sh) + Cardinality(ch) < MaxHeaders /\ h \notin sh
                      /\ sh' = sh \cup {h} /\ UNCHANGED <<ch, other, trig, blanks, done>>
AddChoiceHeader(h) == Part = "trans" /\ ~done /\ Cardinality(sh) + Cardinality(ch) < MaxHeaders /\ h \notin ch
                      /\ ch' = ch \cup {h} /\ UNCHANGED <<sh, other, trig, blanks, done>>
AddTrigger(t) == Part = "rows" /\ ~done /\ Cardinality(trig) < MaxTriggers /\ t \notin trig
                 /\ trig' = trig \cup {t} /\ UNCHANGED <<sh, ch, other, blanks, done>>
\* a form needs something to show for its questions: a label or hint column on the survey sheet
TransOK == \E h \in sh : h[1] \in {"label", "hint"}
Finish == ~done /\ (Part = "trans" => TransOK) /\ done' = TRUE /\ UNCHANGED <<sh, ch, other, trig, blanks>>
WNext == (\E h \in SurveyHeaders : AddSurveyHeader(h)) \/ (\E h \in ChoiceHeaders : AddChoiceHeader(h))
         \/ (\E t \in Triggers : AddTrigger(t)) \/ Finish
WSpec == WInit /\ [][WNext]_wvars
SeqToSet(s) == {s[i] : i \in 1..Len(s)}
=============================================================================
