------------------------------- MODULE Refs -------------------------------
(* C03 envelope: what an emitted replacement for ${name} must satisfy, stated over an element     *)
(* tree `ns` (a preorder sequence of records with fields p (path below the instance root) and     *)
(* kind ("q" | "group" | "repeat")).  Nothing here fixes HOW the path is written: any path that    *)
(* resolves to the named node is accepted, subject to the must-be-relative rule.                   *)
EXTENDS Naturals, Sequences, FiniteSets, SequencesExt

\* (kind "ext": an external-instance row - an element of the tree without a node of its own; not a referable name)
ByName(ns, x) == {i \in 1..Len(ns) : Last(ns[i].p) = x /\ ns[i].kind # "ext"}
XPathOf(ns, x) == ns[CHOOSE i \in ByName(ns, x) : TRUE].p
KindAt(ns, p) == LET S == {i \in 1..Len(ns) : ns[i].p = p}
                 IN IF S = {} THEN "none" ELSE ns[CHOOSE i \in S : TRUE].kind
\* proper prefixes of p that are repeats = the repeats enclosing the node at p
EnclosingRepeats(ns, p) == {n \in 1..(Len(p) - 1) : KindAt(ns, SubSeq(p, 1, n)) = "repeat"}
InnermostRepeat(ns, p) == IF EnclosingRepeats(ns, p) = {} THEN <<>>
                          ELSE SubSeq(p, 1, CHOOSE n \in EnclosingRepeats(ns, p) :
                                               \A m \in EnclosingRepeats(ns, p) : m <= n)
\* e = [abs, up, path, cur, inst]: absolute path below the root, or `up` parent steps then `path`
Resolve(c, e) == IF e.abs THEN e.path ELSE SubSeq(c, 1, Len(c) - e.up) \o e.path
MustBeRelative(ns, c, t) == LET r == InnermostRepeat(ns, t) IN r # <<>> /\ IsStrictPrefix(r, c)

NameKnown(ns, x) == Cardinality(ByName(ns, x)) = 1
=============================================================================
