------------------------------ MODULE Trace_Loop ----------------------------
(* The real loop expansion against Loop.tla (transcription level: differences are reported as DRIFT, not as violations - no   *)
(* listed property speaks about loops; what C02 demands of a loop form is decided by Trace_RowParser's "free" event).           *)
(*  "loop" event: the case, the real outcome, the plain instance paths in document order and the labels shown for each copy.    *)
EXTENDS Loop, Json, IOUtils
VARIABLES tid, l
Traces == JsonDeserialize(IOEnv.TRACE_FILE)
T == Traces[tid]
Ev == T[l]
Check(name, cond) == IF cond THEN TRUE ELSE (PrintT(<<"AT", tid, l, name>>) /\ FALSE)
LoopEnv ==
  LET cs == Ev.choices rs == Ev.rows
      ref == Refused(cs, Ev.grp)
      okexp == /\ Ev.real.status = "ok"
               /\ Ev.real.paths = ExpPaths(cs, rs, Ev.where, Ev.grp)
               /\ Ev.real.labels = [i \in 1..Len(Kept(cs)) |-> [j \in 1..Len(rs) |-> ExpLabel(rs[j].text, Kept(cs)[i], Ev.grp)]]
  IN /\ Check("loop_never_crashes", Ev.real.status \in {"ok", "pyxform_error"})
     /\ ((IF ref THEN Ev.real.status # "pyxform_error" ELSE ~okexp) => PrintT(<<"DRIFT", tid>>))
TInit == tid \in 1..Len(Traces) /\ l = 1 /\ choices = <<>> /\ rows = <<>> /\ where = "top" /\ grp = "no" /\ translated = FALSE /\ phase = "trace"
TStep == /\ l <= Len(T)
         /\ CASE Ev.ev = "loop" -> LoopEnv [] OTHER -> FALSE
         /\ l' = l + 1 /\ UNCHANGED <<tid, lvars>>
TSpec == TInit /\ [][TStep]_<<tid, l, lvars>>
Accepted == (l = Len(T) + 1) => PrintT(<<"ACCEPT", tid>>)
=============================================================================
