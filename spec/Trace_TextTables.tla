-------------------------- MODULE Trace_TextTables --------------------------
(* One trace = one text given to both readers: <<[ev "texttable", lines, md: [status, sheets], csv: [status, sheets],   *)
(*  conv_md, conv_csv (status of the whole conversion of the same text)]>>; sheets: Seq([name, header, rows: Seq(Seq(<<column, value>>))]). *)
(*  envelope (violation): a documented text is read as Canon(lines) by both readers; no reader / conversion ever ends in anything  *)
(*  but a result or the library's error.  transcription (DRIFT): a reading differs from MdRead / CsvRead.                           *)
EXTENDS TextTables, Json, IOUtils
VARIABLES tid, l
Traces == JsonDeserialize(IOEnv.TRACE_FILE)
Prop == IOEnv.PROP
T == Traces[tid]
Ev == T[l]
Check(name, props, cond) == IF (Prop # "all" /\ Prop \notin props) \/ cond THEN TRUE ELSE (PrintT(<<"AT", tid, l, name>>) /\ FALSE)
Line(x) == IF x.k = "row" THEN Row(x.first, x.cells) ELSE [k |-> x.k]
Lines == [i \in 1..Len(Ev.lines) |-> Line(Ev.lines[i])]
Reading(x) == IF x.status # "ok" THEN [status |-> x.status, sheets |-> <<>>]
              ELSE Ok([i \in 1..Len(x.sheets) |-> [name |-> x.sheets[i].name, header |-> x.sheets[i].header,
                        rows |-> [r \in 1..Len(x.sheets[i].rows) |-> {<<x.sheets[i].rows[r][p][1], x.sheets[i].rows[r][p][2]>> : p \in 1..Len(x.sheets[i].rows[r])}]]])
Fine == {"ok", "refused"}
TInit == tid \in 1..Len(Traces) /\ l = 1 /\ text = <<>> /\ tdone = FALSE
TStep == /\ l <= Len(T) /\ Ev.ev = "texttable"
         /\ LET ls == Lines  md == Reading(Ev.md)  cs == Reading(Ev.csv) IN
            /\ Check("readers_never_crash", {"C17"}, Ev.md.status \in Fine /\ Ev.csv.status \in Fine)
            /\ Check("conversion_never_crashes", {"C17"}, Ev.conv_md \in Fine /\ Ev.conv_csv \in Fine)
            /\ Check("documented_markdown_is_read", {"C12", "C13"}, (InDomain(ls) /\ MdSniff(ls)) => md = Canon(ls))
            /\ Check("documented_csv_is_read", {"C12", "C13"}, (InDomain(ls) /\ CsvSniff(ls)) => cs = Canon(ls))
            /\ ((Ev.md.status \in Fine /\ Ev.csv.status \in Fine /\ (md # MdRead(ls) \/ cs # CsvRead(ls))) => PrintT(<<"DRIFT", tid>>))
         /\ l' = l + 1 /\ UNCHANGED <<tid, ttvars>>
TSpec == TInit /\ [][TStep]_<<ttvars, tid, l>>
TAccepted == (l = Len(T) + 1) => PrintT(<<"ACCEPT", tid>>)
=============================================================================
