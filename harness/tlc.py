"""Run TLC / SANY and parse what comes back. Stdlib only."""

from __future__ import annotations

import json
import os
import re
import shutil
import subprocess
import time
from concurrent.futures import ThreadPoolExecutor
from pathlib import Path

VERIF = Path(__file__).resolve().parent.parent
SPEC = VERIF / "spec"
OUT = VERIF / "out"
CP = "/opt/veriftools/tla/tla2tools.jar:/opt/veriftools/tla/CommunityModules-deps.jar"


class MachineryError(Exception):
    """Raised for failures of the checking machinery itself (exit 2)."""


def _java(args, env=None, timeout=900, heap="3g", cwd=None, jvm=()):
    e = dict(os.environ)
    if env:
        e.update({k: str(v) for k, v in env.items()})
    cmd = ["java", "-XX:+UseParallelGC", "-Xss64m", f"-Xmx{heap}", *jvm, "-cp", CP, *args]
    t0 = time.time()
    try:
        p = subprocess.run(
            cmd, cwd=str(cwd or SPEC), env=e, capture_output=True, text=True, timeout=timeout
        )
    except subprocess.TimeoutExpired as ex:
        raise MachineryError(f"TLC timeout after {timeout}s: {' '.join(args)}") from ex
    return p.returncode, p.stdout + p.stderr, time.time() - t0


def sany(module: str):
    rc, out, _ = _java(["tla2sany.SANY", f"{module}.tla"], timeout=120, heap="1g")
    if rc != 0 or "Semantic errors" in out or "*** Errors" in out or "Fatal" in out:
        raise MachineryError(f"SANY failed for {module}:\n{out[-3000:]}")
    return True


_RE_STATES = re.compile(
    r"(\d[\d,]*) states generated, (\d[\d,]*) distinct states found, (\d[\d,]*) states left on queue"
)
_RE_COV = re.compile(r"^<(\w+) line (\d+), col \d+ to line \d+, col \d+ of module (\w+)>: (\d+):(\d+)", re.M)


def _metadir(tag):
    d = OUT / "tlc" / f"{tag}-{os.getpid()}-{time.time_ns()}"
    d.mkdir(parents=True, exist_ok=True)
    return d


def run(
    module: str,
    cfg: str,
    *,
    workers: int | str = 1,
    env: dict | None = None,
    timeout: int = 900,
    coverage: bool = False,
    simulate: str | None = None,
    depth: int | None = None,
    seed: int | None = None,
    heap: str = "4g",
    tag: str = "tlc",
    dfs: bool = False,
    extra: tuple = (),
):
    """Run TLC once. Returns dict(rc, out, states, distinct, cov, wall, ok, violation)."""
    md = _metadir(tag)
    args = ["tlc2.TLC", "-config", cfg, "-workers", str(workers), "-metadir", str(md), "-noGenerateSpecTE"]
    if coverage:
        args += ["-coverage", "1"]
    if simulate:
        args += ["-simulate", simulate]
    if depth:
        args += ["-depth", str(depth)]
    if seed is not None:
        args += ["-seed", str(seed)]
    args += list(extra)
    args.append(f"{module}.tla")
    jvm = ("-Dtlc2.tool.queue.IStateQueue=StateDeque",) if dfs else ()
    try:
        rc, out, wall = _java(args, env=env, timeout=timeout, heap=heap, jvm=jvm)
    finally:
        shutil.rmtree(md, ignore_errors=True)
    m = None
    for m in _RE_STATES.finditer(out):
        pass
    states = distinct = 0
    if m:
        states = int(m.group(1).replace(",", ""))
        distinct = int(m.group(2).replace(",", ""))
    else:
        # simulation mode reports only the number of states it generated
        sm = re.search(r"The number of states generated: (\d[\d,]*)", out)
        if sm:
            states = distinct = int(sm.group(1).replace(",", ""))
    cov = {}
    if coverage:
        for cm in _RE_COV.finditer(out):
            cov[cm.group(1)] = cov.get(cm.group(1), 0) + int(cm.group(5))
    violation = None
    vm = re.search(r"Error: Invariant (\w+) is violated", out) or re.search(
        r"Error: Action property (\w+) is violated", out
    ) or re.search(r"Error: Temporal properties were violated", out)
    if vm:
        violation = vm.group(1) if vm.groups() else "temporal"
    hard_error = None
    if rc != 0 and not violation:
        em = re.search(r"Error: (.*)", out)
        hard_error = em.group(0) if em else f"rc={rc}"
    ok = rc == 0 and not violation and "Model checking completed. No error has been found." in out or (
        simulate is not None and rc == 0 and not violation
    )
    return {
        "rc": rc,
        "out": out,
        "states": states,
        "distinct": distinct,
        "cov": cov,
        "wall": wall,
        "ok": bool(ok),
        "violation": violation,
        "hard_error": hard_error,
    }


def model_check(module, cfg, *, workers=8, env=None, timeout=900, required_actions=(), tag="mc", heap="6g"):
    """Exhaustive run with coverage; machinery error if it cannot complete, or an action never fired."""
    r = run(module, cfg, workers=workers, env=env, timeout=timeout, coverage=True, tag=tag, heap=heap)
    if r["hard_error"]:
        raise MachineryError(f"TLC failed on {module}/{cfg}: {r['hard_error']}\n{r['out'][-2500:]}")
    for a in required_actions:
        if r["cov"].get(a, 0) == 0:
            raise MachineryError(f"vacuity: action {a} of {module} never fired under {cfg}")
    return r


def _extract_json_lines(out: str):
    """PrintT(ToJson(x)) prints a quoted, escaped JSON string on its own line."""
    res = []
    for line in out.splitlines():
        line = line.strip()
        if len(line) > 2 and line[0] == '"' and line[-1] == '"' and line[1] in "{[":
            try:
                res.append(json.loads(json.loads(line)))
            except Exception:
                continue
    return res


def generate(module, cfg, *, env=None, timeout=900, tag="gen", heap="4g", simulate=None, depth=None, seed=None):
    """Run a generation config (workers 1) and return the JSON values it printed, de-duplicated."""
    r = run(module, cfg, workers=1, env=env, timeout=timeout, tag=tag, heap=heap, simulate=simulate, depth=depth, seed=seed)
    if r["hard_error"] or r["violation"]:
        raise MachineryError(f"generation {module}/{cfg} failed: {r['hard_error'] or r['violation']}\n{r['out'][-2500:]}")
    seen = set()
    cases = []
    for c in _extract_json_lines(r["out"]):
        k = json.dumps(c, sort_keys=True)
        if k not in seen:
            seen.add(k)
            cases.append(c)
    return cases, r


_RE_ACCEPT = re.compile(r'<<"ACCEPT", (\d+)>>')
_RE_DRIFT = re.compile(r'<<"DRIFT", (\d+)>>')
_RE_AT = re.compile(r'<<"AT", (\d+), (\d+), "([^"]*)">>')


def validate_traces(module, cfg, traces: list, *, shards=8, env=None, timeout=900, tag="trace", heap="3g", dfs=False):
    """Batch trace validation. `traces` is a list of event lists. Returns (accepted_ids(set of 0-based), info).

    Each shard is one JVM (-workers 1) reading its own TRACE_FILE; a trace is accepted iff TLC
    printed <<"ACCEPT", tid>> for it (tid is 1-based inside the shard)."""
    n = len(traces)
    if n == 0:
        return set(), {"states": 0, "distinct": 0, "wall": 0.0, "progress": {}}
    shards = max(1, min(shards, n))
    d = OUT / "traces" / f"{tag}-{os.getpid()}-{time.time_ns()}"
    d.mkdir(parents=True, exist_ok=True)
    parts = [list(range(i, n, shards)) for i in range(shards)]
    files = []
    for si, idxs in enumerate(parts):
        f = d / f"shard{si}.json"
        f.write_text(json.dumps([traces[i] for i in idxs]))
        files.append(f)

    def one(si):
        e = dict(env or {})
        e.setdefault("VERIF_SRC", "gen")
        e["TRACE_FILE"] = str(files[si])
        return run(module, cfg, workers=1, env=e, timeout=timeout, tag=f"{tag}{si}", heap=heap, dfs=dfs)

    t0 = time.time()
    with ThreadPoolExecutor(max_workers=shards) as ex:
        results = list(ex.map(one, range(shards)))
    accepted = set()
    drift = set()
    progress = {}
    states = distinct = 0
    for si, r in enumerate(results):
        if r["hard_error"]:
            raise MachineryError(f"trace validation {module}/{cfg} shard {si}: {r['hard_error']}\n{r['out'][-3000:]}")
        states += r["states"]
        distinct += r["distinct"]
        for m in _RE_ACCEPT.finditer(r["out"]):
            accepted.add(parts[si][int(m.group(1)) - 1])
        for m in _RE_DRIFT.finditer(r["out"]):
            drift.add(parts[si][int(m.group(1)) - 1])
        for m in _RE_AT.finditer(r["out"]):
            gi = parts[si][int(m.group(1)) - 1]
            l = int(m.group(2))
            if gi not in progress or progress[gi][0] < l:
                progress[gi] = (l, m.group(3))
    shutil.rmtree(d, ignore_errors=True)
    return accepted, {"states": states, "distinct": distinct, "wall": time.time() - t0, "progress": progress, "drift": sorted(drift)}
