"""Vocabulary fuzz for C17's never-crash clause: arbitrary cell contents drawn from the XLSForm vocabulary.

Types come from the specification's frozen TypeTable.tla; columns, parameter names, appearances, settings and
entities columns from the XLSForm reference.  Deterministic in (seed, index)."""

from __future__ import annotations

import random
import re
from pathlib import Path

_TT = Path(__file__).resolve().parent.parent / "spec" / "TypeTable.tla"
TYPES = sorted(set(re.findall(r'^\s*\("([^"]+)" :>', _TT.read_text(), re.M)))
SELECTS = ["select_one", "select_multiple", "select one", "select1", "rank", "select_one_external", "select_one_from_file",
           "select_multiple_from_file", "select all that apply from", "add select one prompt using"]
NAMES = ["a", "b", "c", "A", "q1", "q_2", "meta", "data", "a_count", "a_other", "name", "label", "instanceID", "1bad", "sp ace", "é", "x-y", "x.y", "_u", "", None]
LISTS = ["L", "M", "l", "Z", "f.csv", "f.xml", "f.geojson", "f.txt", "${a}", "${q1}", "", None]
REFS = ["${a}", "${b}", "${q1}", "${nowhere}", "${a", "${ a }", "${last-saved#a}", "${last-saved#nowhere}", "$a", "${}", "${a}${b}"]
EXPRS = ["1", "yes", "no", "true()", ". > 1", "{r} = 1", "{r} + {r}", "concat({r}, 'x')", "indexed-repeat({r}, {r}, 1)", "instance('L')/root/item[name={r}]/label",
         "pulldata('f', 'a', 'b', {r})", "count({r})", "position(..)", "selected({r}, 'a')", "a < b & c", "'", "(", "{r}[1]", "today()", "-1", "1 - 1", "x y z", "once({r})", ""]
PARAMS = ["randomize=true", "randomize=true seed=1", "seed=1", "seed={r}", "randomize=false", "max-pixels=10", "max-pixels=x", "rows=3", "rows=x", "start=1 end=10 step=1",
          "start=1", "start=a", "step=0", "capture-accuracy=1", "warning-accuracy=x", "allow-mock-accuracy=true", "allow-mock-accuracy=x", "quality=low", "quality=x",
          "value=a label=b", "value=", "label", "foo=1", "a=b=c", "app=com.x.y", "app=1", "location-priority=balanced location-min-interval=1 location-max-age=2",
          "location-priority=x", "track-changes=true", "track-changes-reasons=on-form-edit", "identify-user=maybe", "incremental=true", ";", "=", " ", "length=3", "thousands-sep=true"]
APPEAR = ["minimal", "field-list", "table-list", "label", "list-nolabel", "search('f')", "search('f', 'matches', 'a', {r})", "search(", "multiline", "annotate", "quick", "w1", "horizontal", "map", ""]
SURVEY_COLS = ["label", "hint", "guidance_hint", "relevant", "required", "required_message", "constraint", "constraint_message", "calculation", "default", "read_only",
               "readonly", "appearance", "parameters", "choice_filter", "repeat_count", "trigger", "image", "audio", "video", "big-image", "media::image", "label::English (en)", "label::fr",
               "hint::fr", "image::fr", "bind::foo", "bind::odk:length", "bind::jr:preload", "body::accuracyThreshold", "body::intent", "instance::x", "instance::odk:y", "save_to", "disabled",
               "intent", "autoplay", "style", "count", "flat", "relevance", "media::big-image::fr", "constraint_message::fr", "required_message::fr", "guidance_hint::fr"]
SETTINGS = ["form_title", "form_id", "id_string", "version", "default_language", "instance_name", "submission_url", "public_key", "auto_send", "auto_delete", "style", "name",
            "namespaces", "attribute::x", "omit_instanceID", "instance_xmlns", "allow_choice_duplicates", "clean_text_values", "prefix", "delimiter", "sms_keyword", "title", "set form id", "foo"]
SETVALS = ["x", "yes", "no", "true", "1", "a b", "English (en)", "fr", "concat({r}, 'x')", 'p="http://x.y" q="http://z"', "p=http", "", "http://h/x", "pages", "theme-grid", "no_such"]
ENT_COLS = ["dataset", "list_name", "label", "entity_id", "create_if", "update_if", "repeat", "wat"]
TEXTS = ["Label", "text with {r}", "<b>x</b>", "a & b", "", None, "é ü", "tab\there", "  padded  ", "{r}", "1", "x" * 70,
         "a ]]> b", "]]> {r}", "x > y", "<!-- c --> {r}", "&amp; {r}", "a < {r}", "q \" ' {r}", "instance('L')/root/item[name > {r}]/label",
         "50% sure", "100%", "%(other)s", "100 %d", "%s", "%(name)s and %(label)s", "%%"]


def _fill(rnd, s):
    while isinstance(s, str) and "{r}" in s:
        s = s.replace("{r}", rnd.choice(REFS), 1)
    return s


def _type(rnd):
    x = rnd.random()
    if x < 0.35:
        return rnd.choice(TYPES)
    if x < 0.6:
        t = rnd.choice(SELECTS)
        lst = rnd.choice(LISTS)
        s = t if lst is None else f"{t} {lst}"
        if rnd.random() < 0.15:
            s += rnd.choice([" or_other", " or other", " or specify other", " or"])
        return s
    if x < 0.8:
        return rnd.choice(["begin group", "end group", "begin repeat", "end repeat", "begin_group", "end_repeat", "begin loop over L", "end loop", "begin repeat ", "begin", "end"])
    if x < 0.9:
        return rnd.choice(["osm", "osm L", "osm Z", "xml-external", "csv-external", "background-geopoint", "background-audio", "audit", "hidden", "calculate", "note", "range", "image", "geopoint", "text"])
    return rnd.choice(["", None, "texto", "select_one", "select_one  L", "Text", "SELECT_ONE L", "integer ", "begin grp", "rank L extra", "${a}", "1", "étype"])


def workbook(seed: int, idx: int) -> dict:
    rnd = random.Random(f"fuzz:{seed}:{idx}")
    profile = rnd.choice(["tame", "tame", "wild", "sparse", "structure"])
    ncols = {"tame": 3, "wild": 8, "sparse": 5, "structure": 1}[profile]
    cols = ["type", "name", "label"] + rnd.sample(SURVEY_COLS, rnd.randint(0, ncols))
    if profile == "wild" and rnd.random() < 0.3:
        cols.remove(rnd.choice(["type", "name", "label"]))
    nrows = rnd.randint(0, 9)
    rows = []
    depth = []
    for i in range(nrows):
        r = {}
        t = _type(rnd)
        if profile in ("tame", "structure") and rnd.random() < 0.8:
            # keep the form mostly balanced so that later phases are reached
            if depth and rnd.random() < 0.35:
                t = "end " + depth.pop()
            elif rnd.random() < 0.2:
                k = rnd.choice(["group", "repeat"])
                depth.append(k)
                t = "begin " + k
        r["type"] = t
        nm = rnd.choice(NAMES) if rnd.random() < 0.4 else f"n{i}"
        r["name"] = nm
        r["label"] = _fill(rnd, rnd.choice(TEXTS))
        for c in cols[3:]:
            if rnd.random() < (0.25 if profile == "sparse" else 0.5):
                base = c.split("::")[0]
                if base in ("appearance",):
                    v = rnd.choice(APPEAR)
                elif base == "parameters":
                    v = rnd.choice(PARAMS)
                elif base in ("label", "hint", "guidance_hint", "constraint_message", "required_message"):
                    v = rnd.choice(TEXTS)
                elif base in ("image", "audio", "video", "big-image", "media"):
                    v = rnd.choice(["a.png", "b.mp3", "", "{r}.png"])
                elif base in ("trigger",):
                    v = rnd.choice(REFS + ["a", ""])
                elif base in ("save_to",):
                    v = rnd.choice(["p1", "name", "label", "__x", "1p", "p 2", ""])
                elif base in ("disabled", "flat"):
                    v = rnd.choice(["yes", "no", "true", ""])
                else:
                    v = rnd.choice(EXPRS)
                r[c] = _fill(rnd, v)
        if rnd.random() < 0.08:
            r = {}
        rows.append(r)
    if profile in ("tame", "structure"):
        while depth:
            rows.append({"type": "end " + depth.pop()})
    sheets = []
    hdr = [c for c in cols]
    sheets.append({"name": rnd.choice(["survey"] * 12 + ["Survey", "surveys", "survy"]), "header": hdr, "rows": [[r.get(c) for c in hdr] for r in rows]})
    if rnd.random() < 0.8:
        ccols = ["list_name", "name", "label"] + rnd.sample(["grp", "label::fr", "label::English (en)", "image", "audio::fr", "a:b", "1x", "x y", "geometry", "media::image::fr"], rnd.randint(0, 2))
        if rnd.random() < 0.1:
            ccols.remove(rnd.choice(["list_name", "name", "label"]))
        if rnd.random() < 0.1:
            ccols[0] = "list name"
        crow = []
        for lst in rnd.sample(["L", "M", "l", "f.csv", ""], rnd.randint(1, 3)):
            for k in range(rnd.randint(0, 3)):
                c = {"list_name": lst, "list name": lst, "name": rnd.choice([f"c{k}", f"c{k}", "c0", "a b", "", None, "1", "é"]), "label": rnd.choice(TEXTS)}
                for x in ccols[3:]:
                    if rnd.random() < 0.5:
                        c[x] = _fill(rnd, rnd.choice(TEXTS))
                crow.append(c)
        sheets.append({"name": rnd.choice(["choices"] * 10 + ["choice", "Choices"]), "header": ccols, "rows": [[c.get(x) for x in ccols] for c in crow]})
    if rnd.random() < 0.5:
        ks = rnd.sample(SETTINGS, rnd.randint(1, 5))
        sheets.append({"name": "settings", "header": ks, "rows": [[_fill(rnd, rnd.choice(SETVALS)) for _ in ks]]})
    if rnd.random() < 0.2:
        ks = rnd.sample(ENT_COLS, rnd.randint(1, 4))
        nr = rnd.choice([0, 1, 1, 1, 2])
        sheets.append({"name": "entities", "header": ks, "rows": [[_fill(rnd, rnd.choice(["e1", "people", "__x", "a.b", "{r}", "1", "", "concat({r}, 'x')", "true()"])) for _ in ks] for _ in range(nr)]})
    if rnd.random() < 0.15:
        ks = ["list_name", "name", "label"] + rnd.sample(["state", "county", "x y"], rnd.randint(0, 2))
        sheets.append({"name": "external_choices", "header": ks, "rows": [[rnd.choice(["L", "E", "c1", "x", None, ""]) for _ in ks] for _ in range(rnd.randint(0, 3))]})
    if rnd.random() < 0.08:
        sheets.append({"name": "osm", "header": ["list_name", "name", "label"], "rows": [["L", "building", "B"], ["L", None, "x"]][: rnd.randint(0, 2)]})
    return {"sheets": sheets}
