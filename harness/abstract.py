"""alpha: concrete XLSForm data -> the abstract domain of the TLA+ specification.

These rules are written from the XLSForm reference (xlsform.org) and the property statements,
not by calling pyxform: type spellings, begin/end/select syntax, what counts as a label, the
three-way default classification of C10, and which warning triggers a row contains.
"""

from __future__ import annotations

import re

CONTROL = {"group": "group", "repeat": "repeat", "lgroup": "repeat", "looped group": "repeat", "loop": "loop"}
RE_BEGIN = re.compile(r"^begin(\s|_)(" + "|".join(CONTROL) + r")( (over )?(?P<list>\S+))?$")
RE_END = re.compile(r"^end(\s|_)(" + "|".join(CONTROL) + r")$")
SELECT_CMDS = {
    "add select one prompt using": "select one",
    "add select multiple prompt using": "select all that apply",
    "select all that apply from": "select all that apply",
    "select one from": "select one",
    "select1": "select one",
    "select_one": "select one",
    "select one": "select one",
    "select_multiple": "select all that apply",
    "select all that apply": "select all that apply",
    "select_one_external": "select one external",
    "select_one_from_file": "select one",
    "select_multiple_from_file": "select all that apply",
    "select one from file": "select one",
    "select multiple from file": "select all that apply",
    "rank": "rank",
}
RE_SELECT = re.compile(
    r"^(?P<cmd>(" + "|".join(SELECT_CMDS) + r")) (?P<list>\S+)( (?P<other>(or specify other|or_other|or other)))?$"
)
RE_OSM = re.compile(r"(osm) (\S+)")
SETTINGS_TYPES = {"form_title", "set_form_title", "form_id", "set_form_id", "prefix"}
YES = {"yes", "Yes", "YES", "true", "True", "TRUE", "true()"}
NO = {"no", "No", "NO", "false", "False", "FALSE", "false()"}
DEPRECATED = {"subscriberid", "simserial"}
LABEL_OPTIONAL = {"calculate", "deviceid", "end", "phonenumber", "simserial", "start", "start-geopoint", "today", "username"}
EXT = {".xml", ".csv", ".geojson"}

# XML NCName (optionally one prefix), ASCII subset + the BMP letter ranges of the XML spec
_NS = r"[A-Za-z_À-ÖØ-öø-˿Ͱ-ͽͿ-῿‌-‍⁰-↏Ⰰ-⿯、-퟿豈-﷏ﷰ-�\U00010000-\U000effff]"
_NC = r"(?:" + _NS + r"|[-.0-9·̀-ͯ‿-⁀])"
RE_NCNAME = re.compile(rf"^{_NS}{_NC}*(:{_NS}{_NC}*)?$")
RE_REF = re.compile(r"\$\{(last-saved#)?([^}]*)\}")
RE_ONLY_REF = re.compile(rf"^\$\{{(last-saved#)?{_NS}{_NC}*(:{_NS}{_NC}*)?\}}$")


def is_name(s) -> bool:
    return bool(s) and bool(RE_NCNAME.match(s))


def parse_params(raw: str):
    """parameters cell -> dict, or None when malformed (XLSForm: 'k=v k2=v2', also ; or , separated)."""
    if not raw:
        return {}
    parts = raw.split(";")
    if len(parts) == 1:
        parts = raw.split(",")
    if len(parts) == 1:
        parts = raw.split()
    out = {}
    for p in parts:
        if "=" not in p:
            return None
        k, v = p.split("=")[:2]
        out[k.lower().strip()] = v.strip()
    return out


# ---------------------------------------------------------------- C10: default classification
RE_NUM = r"-?(?:\d+\.\d*|\.\d+|\d+)"
RE_DATE = r"-?\d{4}-\d{2}-\d{2}"
RE_TIME = r"\d{2}:\d{2}:\d{2}(?:\.\d+)?(?:[+-]\d{2}:\d{2}|Z)?"
RE_STATIC_WORDS = re.compile(r"^[\w\s.,:;!?@#%&'\"/]*$", re.UNICODE)
RE_FUNC = re.compile(rf"{_NS}{_NC}*(:{_NS}{_NC}*)?\(")
RE_SPACED_OP = re.compile(r"\S\s+(\+|-|\*|div|mod)\s+\S")
HYPHEN_OK_TYPES = {"date", "dateTime", "datetime", "date time", "geopoint", "geotrace", "geoshape", "time", "gps", "location"}


def classify_default(text, qtype=None) -> str:
    """'none' | 'static' | 'dynamic' | 'either'  (the envelope's three-way lexical rule)."""
    if text is None or not isinstance(text, str) or text == "":
        return "none"
    t = text.strip()
    if RE_REF.search(t) or RE_FUNC.search(t):
        return "dynamic"
    if re.fullmatch(RE_NUM, t) or re.fullmatch(RE_DATE, t) or re.fullmatch(RE_TIME, t) or re.fullmatch(RE_DATE + "T" + RE_TIME, t):
        return "static"
    if re.fullmatch(r"[A-Za-z]\w*://[\w./]*", t):      # (a URI without characters that could be operators)
        return "static"
    hyphen_type = qtype in HYPHEN_OK_TYPES
    if RE_SPACED_OP.search(t):
        m = RE_SPACED_OP.search(t)
        if m.group(1) == "-" and hyphen_type:
            return "either"
        # a spaced operator inside a quoted literal is ambiguous
        if "'" in t or '"' in t:
            return "either"
        return "dynamic"
    if any(c in t for c in "+*|[](){}") or re.search(r"(^|\s)(div|mod)(\s|$)", t):
        return "either"
    if "-" in t:
        # geo / date types: hyphenated tokens are plain values; elsewhere a-1, 5-3, -a are ambiguous
        if re.fullmatch(r"[\d\s.\-]+", t) and hyphen_type:
            return "static"
        if re.fullmatch(r"-?\d+(\.\d+)?( -?\d+(\.\d+)?)*", t):
            return "static"  # space separated numbers incl. negative (geopoint literals)
        return "either"
    if RE_STATIC_WORDS.match(t):
        return "static"
    return "either"


# ---------------------------------------------------------------- rows
def _truthy(d):
    if isinstance(d, dict):
        return any(_truthy(v) for v in d.values())
    return bool(d)


def alpha_row(row: dict) -> dict:
    """Abstract one dealiased survey row (the dict the row loop receives)."""
    r = {
        "k": "q", "ct": "", "name": "", "lname": "", "hasname": False, "nameok": True, "type": "",
        "count": "none", "tl": False, "lh": False, "media": False, "list": "", "listkind": "",
        "other": False, "filt": False, "hascalc": False, "dyn": "none", "trig": False, "warns": [],
        "frag": True, "cattrs": [], "tlapp": "field-list", "refs": [],
    }
    row = dict(row)
    warns = []
    if "disabled" in row:
        warns.append("disabled")
        d = row.pop("disabled")
        if d in YES:
            r.update(k="skip", warns=warns)
            return r
    if not row:
        r.update(k="skip", warns=warns)
        return r
    qtype = row.get("type")
    if not qtype:
        if "name" not in row and "label" not in row:
            warns.append("comment")
            r.update(k="skip", warns=warns)
        else:
            r.update(k="notype", warns=warns)
        return r
    qtype = str(qtype)
    r["type"] = qtype
    if "name" in row:
        nm = str(row["name"])
        r.update(hasname=True, name=nm, lname=nm.lower(), nameok=is_name(nm))
    label = row.get("label")
    hint = row.get("hint")
    r["lh"] = _truthy(label) or _truthy(hint)
    r["media"] = _truthy(row.get("media"))
    bind = row.get("bind") if isinstance(row.get("bind"), dict) else {}
    control = row.get("control") if isinstance(row.get("control"), dict) else {}
    r["hascalc"] = bool(bind.get("calculate"))
    r["trig"] = bool(row.get("trigger"))
    r["dyn"] = classify_default(row.get("default"), qtype)
    r["cattrs"] = control_attrs(row, qtype, control)
    r["refs"] = source_refs(row)
    if qtype == "audit":
        r.update(k="audit", warns=warns)
        return r
    if qtype in DEPRECATED:
        warns.append("deprecated")
    if qtype in SETTINGS_TYPES:
        r.update(k="skip", warns=warns)
        return r
    m = RE_END.search(qtype)
    if m:
        ct = CONTROL[m.group(2)]
        r.update(k="end", ct=ct, warns=warns)
        if ct == "loop":
            r["frag"] = False
        return r
    m = RE_BEGIN.search(qtype)
    if m:
        ct = CONTROL[m.group(2)]
        app = control.get("appearance")
        cnt = control.get("jr:count")
        r.update(k="begin", ct=ct, type=ct)
        if ct == "loop":
            r["frag"] = False
        if cnt:
            r["count"] = "ref" if RE_ONLY_REF.match(cnt) else "expr"
        if isinstance(app, str) and "table-list" in app.split():
            r["tl"] = True
            r["tlapp"] = " ".join(["field-list"] + [w for w in app.split() if w != "table-list"])
        if "intent" in row:
            r["cattrs"] = [a for a in r["cattrs"] if a[0] != "intent"] + [["intent", str(row["intent"]), "${" not in str(row["intent"])]]
        # In a table-list group the label/hint moves to a generated note: the XForm group itself has neither.
        r["lhkeys"] = ("label" in row) or ("hint" in row)
        if (
            "label" not in row
            and row.get("media") is None
            and not r["hascalc"]
            and r["dyn"] not in ("dynamic",)
            and not (ct == "group" and app == "field-list")
        ):
            if r["dyn"] == "either":
                r["frag"] = False
            warns.append("nolabel_ctrl")
        if row.get("flat"):
            r["frag"] = False
        r["warns"] = warns
        return r
    m = RE_SELECT.search(qtype)
    if m:
        cmd = m.group("cmd")
        lst = m.group("list")
        stype = SELECT_CMDS[cmd]
        ext = "." + lst.rsplit(".", 1)[1] if "." in lst else ""
        r.update(k="select", type=stype, list=lst, other=m.group("other") is not None)
        r["filt"] = bool(row.get("choice_filter"))
        if stype == "select one external":
            r["listkind"] = "external"
            r["cattrs"] = r["cattrs"] + [["query", "", False]]
            if "choice_filter" not in row:
                warns.append("ext_nofilter")
        elif ext in EXT:
            r["listkind"] = "file"
        elif RE_REF.search(lst):
            r["listkind"] = "ref"
        else:
            r["listkind"] = "plain"
        if "from_file" in cmd.replace(" ", "_") and ext not in EXT:
            r["frag"] = False
        r["warns"] = warns
        return r
    if RE_OSM.search(qtype):
        r["frag"] = False
    if qtype in ("include",) or qtype.startswith("cascading"):
        r["frag"] = False
    if qtype == "photo":
        p = parse_params(str(row.get("parameters", "") or ""))
        if p is not None and "max-pixels" not in p:
            warns.append("photo_maxpix")
    r["warns"] = warns
    return r


def _strings(v):
    if isinstance(v, str):
        yield v
    elif isinstance(v, dict):
        for x in v.values():
            yield from _strings(x)


def source_refs(row) -> list:
    """Names referenced with ${...} in the reference-bearing cells of a row (source side of C03)."""
    names = []
    for key in ("label", "hint", "guidance_hint", "bind", "default", "choice_filter", "control", "trigger", "instance"):
        for text in _strings(row.get(key)):
            for m in RE_REF.finditer(text):
                if m.group(2) not in names:
                    names.append(m.group(2))
    p = str(row.get("parameters", "") or "")
    for m in RE_REF.finditer(p):
        if m.group(2) not in names:
            names.append(m.group(2))
    t = str(row.get("type", "") or "")
    for m in RE_REF.finditer(t):
        if m.group(2) not in names:
            names.append(m.group(2))
    return names


RE_OUT = re.compile(
    r"^(?P<inst>instance\('(?P<iname>[^']*)'\))?(?P<cur>current\(\)/)?(?P<body>(?:\.\./)*(?:\.\.)?|)(?P<rest>(?:/?[\w.\-]+)(?:/[\w.\-]+)*)?$"
)


def parse_ref_output(out: str, rootname: str):
    """' ../../a/b ' / ' /data/a ' / " instance('__last-saved')/data/a " -> envelope record, or None."""
    t = out.strip()
    e = {"abs": False, "up": 0, "path": [], "cur": False, "inst": ""}
    m = re.match(r"^instance\('([^']*)'\)", t)
    if m:
        e["inst"] = m.group(1)
        t = t[m.end():]
    if t.startswith("current()/"):
        e["cur"] = True
        t = t[len("current()/"):]
    if t.startswith("/"):
        parts = t[1:].split("/")
        if not parts or parts[0] != rootname or not all(re.fullmatch(r"[\w.\-]+", x) for x in parts):
            return None
        e["abs"] = True
        e["path"] = parts[1:]
        return e
    parts = t.split("/")
    up = 0
    while parts and parts[0] == "..":
        up += 1
        parts = parts[1:]
    if up == 0 or not all(re.fullmatch(r"[\w.\-]+", x) for x in parts):
        return None
    e["up"] = up
    e["path"] = parts
    return e


def _spans(src, opener):
    out = []
    i = src.find(opener)
    while i != -1:
        depth = 0
        j = i + len(opener) - 1
        end = len(src)
        for k in range(j, len(src)):
            if src[k] == "(":
                depth += 1
            elif src[k] == ")":
                depth -= 1
                if depth == 0:
                    end = k + 1
                    break
        out.append((i, end))
        i = src.find(opener, i + 1)
    return out


def ref_position_facts(src: str, pos: int):
    in_ir = any(a <= pos < b for a, b in _spans(src, "indexed-repeat("))
    in_pred = False
    if "instance(" in src:
        for m in re.finditer(r"\[([^\]]+)\]", src):
            if m.start() <= pos < m.end():
                in_pred = True
    return in_ir, in_pred


def control_attrs(row, qtype, control):
    """Attributes the row's cells dictate for its body control: [name, value, literal?]."""
    out = {}
    for k, v in control.items():
        if k in ("bodyless", "tag"):
            continue
        out[str(k)] = str(v)
    p = parse_params(str(row.get("parameters", "") or "")) or {}
    if qtype == "text" and "rows" in p:
        out["rows"] = p["rows"].lower()
    if qtype == "geopoint":
        if "capture-accuracy" in p:
            out["accuracyThreshold"] = p["capture-accuracy"].lower()
        if "warning-accuracy" in p:
            out["unacceptableAccuracyThreshold"] = p["warning-accuracy"].lower()
    if qtype == "photo" and "app" in p and control.get("appearance") in (None, "annotate"):
        out["intent"] = p["app"].lower()
    if qtype == "range":
        for k, d in (("start", "1"), ("end", "10"), ("step", "1")):
            out[k] = p.get(k, d).lower()
    return [[k, v, "${" not in v] for k, v in out.items()]


def tla_row(r: dict) -> dict:
    """Only the fields the TLA+ record has (uniform record shape)."""
    keys = ("k", "ct", "name", "lname", "hasname", "nameok", "type", "count", "tl", "lh", "media", "list",
            "listkind", "other", "filt", "hascalc", "dyn", "trig", "warns", "cattrs", "tlapp", "refs")
    out = {k: r[k] for k in keys}
    if r["k"] == "begin" and r["tl"]:
        out["lh"] = bool(r.get("lhkeys"))
    return out
