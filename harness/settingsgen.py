"""C11: concretise a Settings.tla case and project the form-header facts."""

from __future__ import annotations

import random
import re

from harness import project

NS_URI = "http://example.com/exns"
STD_NS = ["h=http://www.w3.org/1999/xhtml", "ev=http://www.w3.org/2001/xml-events", "xsd=http://www.w3.org/2001/XMLSchema",
          "jr=http://openrosa.org/javarosa", "orx=http://openrosa.org/xforms", "odk=http://www.opendatakit.org/xforms"]
SPELL = {
    "title": ["form_title", "title", "set_form_title", "Form Title"],
    "id": ["form_id", "id_string", "set_form_id", "Form ID"],
    "version": ["version"], "name": ["name"], "instance_name": ["instance_name"], "submission_url": ["submission_url"],
    "public_key": ["public_key"], "auto_send": ["auto_send"], "auto_delete": ["auto_delete"], "style": ["style"],
    "namespaces": ["namespaces"], "attr_plain": ["attribute::plain_attr"], "attr_ns": ["attribute::exns:nsattr"],
    "omit_id": ["omit_instanceID"], "attr_id": ["attribute::id"], "attr_version": ["attribute::version"], "instance_xmlns": ["instance_xmlns"], "prefix": ["prefix"], "delimiter": ["delimiter"],
}


def build(case, seed=0):
    rnd = random.Random(f"settings:{seed}:{sorted(case['present'])}:{case['chan']}:{case['fname']}:{case.get('ent')}")
    tag = rnd.randint(100, 999)
    vals = {
        # (settings cells are not whitespace-cleaned: runs of blanks inside a value are part of it)
        "title": f"Title  atom & <x> {tag}", "id": f"id_atom_{tag}", "version": f"ver  {tag}", "name": f"rootnm{tag}",
        "instance_name": f"concat('in  x', '{tag}')", "submission_url": f"http://sub.example/{tag}", "public_key": f"PUBKEY{tag}",
        "auto_send": rnd.choice(["yes", "true"]), "auto_delete": rnd.choice(["no", "false"]), "style": rnd.choice(["pages", "theme-grid", f"pages cls{tag}"]),
        "namespaces": f'exns="{NS_URI}"', "attr_plain": f"plain  val{tag}", "attr_ns": f"nsval{tag}", "omit_id": rnd.choice(["yes", "true", "Yes", "YES", "True", "TRUE", "true()"]),
        "instance_xmlns": f"http://example.com/inst{tag}", "prefix": f"pfx{tag}", "delimiter": f"dlm{tag}",
        "attr_id": f"legacyid{tag}", "attr_version": f"legacyver{tag}",
    }
    if rnd.random() < 0.4:
        # the namespaces cell also names a STANDARD prefix with a foreign URI (before or after the custom pair): the standard
        # declaration stays what it is, the pair declares nothing
        clash = rnd.choice(['jr="http://example.com/otherjr"', 'odk="urn:other:odk"', 'h="http://example.com/h"', 'orx="http://example.com/orx"'])
        vals["namespaces"] = f'{clash} {vals["namespaces"]}' if rnd.random() < 0.5 else f'{vals["namespaces"]} {clash}'
    present = sorted(case["present"])
    rnd.shuffle(present)
    hdr = [rnd.choice(SPELL[k]) for k in present]
    row = [vals[k] for k in present]
    if "id" in present and rnd.random() < 0.3:
        # the legacy id_string column beside form_id (either column order): form_id is the form id
        i = present.index("id")
        hdr[i] = "form_id"
        j = rnd.randint(0, len(hdr))
        hdr.insert(j, "id_string")
        row.insert(j, f"legacy_id_{tag}")
    sheets = [{"name": "survey", "header": ["type", "name", "label"], "rows": [["text", "q1", "Q1"], ["integer", "q2", "Q2"]]}]
    if present:
        sheets.append({"name": "settings", "header": hdr, "rows": [row]})
    if case.get("ent"):
        sheets.append({"name": "entities", "header": ["dataset", "label"], "rows": [["people", "${q1}"]]})
    stem = f"stem{tag}"
    fname = f"argname{tag}" if case["fname"] else ""
    src = {"vals": [[k, vals[k]] for k in present if k != "omit_id"] + ([["omit_id", "yes"]] if "omit_id" in present else []),
           "chan": case["chan"], "stem": stem, "fname": fname, "ns_uri": NS_URI, "ent": bool(case.get("ent")),
           "namespaces": [f"exns={NS_URI}"] if "namespaces" in present else [],
           "std_ns": STD_NS + (["entities=http://www.opendatakit.org/xforms/entities"] if case.get("ent") else [])}
    return {"sheets": sheets}, src


def observe(xform):
    root = project.parse(xform)
    prim = project.primary_root(root)
    t = root.find(project.H + "head").find(project.H + "title")
    m = re.search(r"<h:html([^>]*)>", xform)
    nsdecls = [f"{p}={u}" for p, u in re.findall(r'xmlns:([\w.\-]+)="([^"]*)"', m.group(1))] if m else []
    model = project.model_of(root)
    sub = model.find(project.XF + "submission")
    rootname = project.local(prim.tag)
    binds = {b["nodeset"]: b["attrs"] for b in project.binds(root)}
    body = project.body_of(root)
    inst = project.instance_preorder(root)
    return {
        "title": (t.text or "") if t is not None else "",
        "root": rootname,
        "root_ns": prim.tag[1:].split("}")[0] if prim.tag.startswith("{") else "",
        "root_attrs": [[project.qname(k), v] for k, v in prim.attrib.items()],
        "has_submission": sub is not None,
        "submission": [[project.qname(k), v] for k, v in sub.attrib.items()] if sub is not None else [],
        "body_class": body.attrib.get("class", ""),
        "nsdecls": nsdecls,
        "instance_name": (binds.get(f"/{rootname}/meta/instanceName") or {}).get("calculate", ""),
        "has_instance_id": any(n["p"][1:] == ["meta", "instanceID"] for n in inst),
    }
