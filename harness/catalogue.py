"""C17 catalogue of breaking mutations (concrete side).

The TLA+ module Catalogue.tla owns the catalogue: which mutation applies to which row kind of which base form,
which spreadsheet row the site is on, and what kind of locator the diagnosis must carry.  This module only knows how
to *perform* a named mutation on the concrete workbook and which identifiers it introduced."""

from __future__ import annotations

import copy

SURVEY_COLS = ["type", "name", "label", "relevant", "calculation", "parameters", "appearance", "choice_filter", "trigger", "repeat_count", "default", "constraint", "media::big-image", "save_to"]
CHOICE_COLS = ["list_name", "name", "label", "grp", "image"]

# base forms: (kind, row dict) per survey row; kinds are the vocabulary Catalogue.tla uses
BASES = [
    [
        ("text", dict(type="text", name="q1", label="Q1")),
        ("int", dict(type="integer", name="q2", label="Q2")),
        ("sel1", dict(type="select_one L", name="s1", label="S1")),
        ("selm", dict(type="select_multiple M", name="s2", label="S2")),
        ("begin_group", dict(type="begin group", name="g1", label="G1")),
        ("text", dict(type="text", name="q3", label="Q3")),
        ("begin_repeat", dict(type="begin repeat", name="r1", label="R1")),
        ("int", dict(type="integer", name="q4", label="Q4")),
        ("calc", dict(type="calculate", name="c1", calculation="${q4} + 1")),
        ("end_repeat", dict(type="end repeat")),
        ("end_group", dict(type="end group")),
        ("note", dict(type="note", name="n1", label="N1")),
        ("photo", dict(type="image", name="p1", label="P1", parameters="max-pixels=100")),
        ("range", dict(type="range", name="rg", label="RG", parameters="start=1 end=5 step=1")),
        ("begin_repeat", dict(type="begin repeat", name="r2", label="R2")),
        ("sel1", dict(type="select_one L", name="s3", label="S3")),
        ("end_repeat", dict(type="end repeat")),
    ],
    [
        ("begin_group", dict(type="begin group", name="ga", label="GA")),
        ("begin_group", dict(type="begin group", name="gb", label="GB")),
        ("text", dict(type="text", name="t1", label="T1")),
        ("sel1", dict(type="select_one L", name="t2", label="T2")),
        ("end_group", dict(type="end group")),
        ("int", dict(type="integer", name="t3", label="T3")),
        ("end_group", dict(type="end group")),
        ("calc", dict(type="calculate", name="t4", calculation="1 + 1")),
        ("selm", dict(type="select_multiple M", name="t5", label="T5")),
    ],
    [
        ("text", dict(type="text", name="u1", label="U1")),
        ("begin_repeat", dict(type="begin repeat", name="ur", label="UR")),
        ("begin_group", dict(type="begin group", name="ug", label="UG")),
        ("text", dict(type="text", name="u2", label="U2")),
        ("begin_group", dict(type="begin group", name="uh", label="UH")),
        ("int", dict(type="integer", name="u3", label="U3")),
        ("end_group", dict(type="end group")),
        ("end_group", dict(type="end group")),
        ("calc", dict(type="calculate", name="u4", calculation="1 + 2")),
        ("end_repeat", dict(type="end repeat")),
        ("sel1", dict(type="select_one L", name="u5", label="U5")),
        ("selm", dict(type="select_multiple M", name="u6", label="U6")),
    ],
]
BASE_CHOICES = [["L", "l1", "One", "a"], ["L", "l2", "Two", "b"], ["L", "l3", "Three", None], ["M", "m1", "Uno", None], ["M", "m2", "Dos", None]]


def base_wb(b, blanks=0):
    rows = [dict() for _ in range(blanks)] + [dict(r) for _, r in BASES[b]]
    return {"survey": rows, "choices": [dict(zip(CHOICE_COLS, c)) for c in BASE_CHOICES], "settings": {}, "extra_sheets": [], "drop": []}


def to_wb(m):
    def table(rows, pref, front=()):
        cols = list(front) + [c for c in pref if any(c in r for r in rows)]
        for r in rows:
            for c in r:
                if c not in cols:
                    cols.append(c)
        return cols, [[r.get(c) for c in cols] for r in rows]

    sheets = []
    if "survey" not in m["drop"]:
        h, r = table(m["survey"], SURVEY_COLS, m.get("front", {}).get("survey", ()))
        sheets.append({"name": "survey", "header": h or ["type", "name", "label"], "rows": r})
    if "choices" not in m["drop"]:
        h, r = table(m["choices"], CHOICE_COLS, m.get("front", {}).get("choices", ()))
        sheets.append({"name": "choices", "header": h, "rows": r})
    if m["settings"]:
        ks = list(m["settings"])
        sheets.append({"name": "settings", "header": ks, "rows": [[m["settings"][k] for k in ks]]})
    sheets.extend(m["extra_sheets"])
    return {"sheets": sheets}


def _sibling(m, i):
    """name of another named row with the same parent as row i (search backwards then forwards)."""
    rows = m["survey"]

    def parent_of(k):
        depth = 0
        for j in range(k - 1, -1, -1):
            t = str(rows[j].get("type", ""))
            if t.startswith("end"):
                depth += 1
            elif t.startswith("begin"):
                if depth == 0:
                    return j
                depth -= 1
        return -1

    p = parent_of(i)
    for j in list(range(i - 1, -1, -1)) + list(range(i + 1, len(rows))):
        t = str(rows[j].get("type", ""))
        if j != i and rows[j].get("name") and parent_of(j) == p and not t.startswith("end"):
            return rows[j]["name"]
    return None


def apply(mid: str, m: dict, i: int):
    """Perform mutation `mid` at 0-based index i (survey row index incl. blanks, or choices index). Returns idents, or None if N/A."""
    S = m["survey"]
    r = S[i] if i < len(S) else None
    C = m["choices"]
    if mid == "bad_name":
        r["name"] = "9" + r["name"]
        return [r["name"]]
    if mid == "name_with_space":
        r["name"] = r["name"] + " x"
        return [r["name"]]
    if mid == "missing_name":
        del r["name"]
        return []
    if mid == "missing_type":
        del r["type"]
        return []
    if mid == "malformed_ref":
        r["relevant"] = "${q1 = 1"
        return []
    if mid == "list_missing":
        r["type"] = r["type"].split()[0] + " ZZ"
        return ["ZZ"]
    if mid == "calc_nocalc":
        r.pop("calculation")
        return []
    if mid == "other_filter":
        r["type"] = r["type"] + " or_other"
        r["choice_filter"] = "grp = 'a'"
        return []
    if mid == "from_file_ext":
        r["type"] = "select_one_from_file data.txt"
        return []
    if mid == "bg_geopoint_no_trigger":
        r.update(type="background-geopoint")
        r.pop("label", None)
        return []
    if mid == "audit_named":
        S.insert(i, dict(type="audit", name="myaudit"))
        return []
    if mid == "param_rows_nan":
        r["parameters"] = "rows=many"
        return []
    if mid == "unmatched_end":
        S.insert(i, dict(type="end group"))
        return []
    if mid == "mismatched_end":
        r["type"] = "end group" if "repeat" in r["type"] else "end repeat"
        return []
    if mid == "unclosed_begin":
        t = r["type"]
        # find the begin this end closes, to know type/name
        depth = 0
        for j in range(i - 1, -1, -1):
            tj = str(S[j].get("type", ""))
            if tj.startswith("end"):
                depth += 1
            elif tj.startswith("begin"):
                if depth == 0:
                    nm = S[j]["name"]
                    break
                depth -= 1
        del S[i]
        return [nm]
    if mid == "dup_sibling":
        sib = _sibling(m, i)
        if sib is None:
            return None
        r["name"] = sib
        return [sib]
    if mid == "dup_sibling_case":
        sib = _sibling(m, i)
        if sib is None:
            return None
        r["name"] = sib.upper()
        return [sib, sib.upper()]
    if mid == "clash_other":
        # a text question named <select>_other next to an or_other select
        r["type"] = r["type"] + " or_other"
        S.insert(i + 1, dict(type="text", name=r["name"] + "_other", label="clash"))
        return [r["name"] + "_other"]
    if mid == "clash_count":
        r["repeat_count"] = "1 + 1"
        S.insert(i, dict(type="text", name=r["name"] + "_count", label="clash"))
        return [r["name"] + "_count"]
    if mid == "clash_meta":
        r["name"] = "meta"
        return ["meta"]
    if mid == "dup_section":
        # another section elsewhere with this section's name
        S.extend([dict(type="begin group", name=r["name"], label="again"), dict(type="text", name="inner_dup", label="x"), dict(type="end group")])
        return [r["name"]]
    if mid == "section_named_as_form":
        r["name"] = "data"
        return ["data"]
    if mid == "unknown_ref":
        r["relevant"] = "${nowhere} = 1"
        return ["nowhere"]
    if mid == "ambiguous_ref":
        S.extend([dict(type="begin group", name="amb1", label="a"), dict(type="text", name="twice", label="x"), dict(type="end group"),
                  dict(type="begin group", name="amb2", label="a"), dict(type="text", name="twice", label="x"), dict(type="end group")])
        r["relevant"] = "${twice} = 1"
        return ["twice"]
    if mid == "ambiguous_ref_three":
        for k in (1, 2, 3):
            S.extend([dict(type="begin group", name=f"amb3{k}", label="a"), dict(type="text", name="thrice", label="x"), dict(type="end group")])
        r["relevant"] = "${thrice} = 1"
        return ["thrice"]
    if mid == "unknown_type":
        r["type"] = "texto"
        return ["texto"]
    if mid == "unknown_param":
        r["parameters"] = "foo=1"
        return ["foo"]
    if mid == "bad_max_pixels":
        r["parameters"] = "max-pixels=big"
        return ["max-pixels"]
    if mid == "no_label":
        r.pop("label")
        return [r["name"]]
    if mid == "trigger_missing":
        r["trigger"] = "${nowhere}"
        r["calculation"] = "1"
        return ["nowhere"]
    if mid == "malformed_params":
        r["parameters"] = "start"
        return []
    if mid == "seed_without_randomize":
        r["parameters"] = "seed=3"
        return []
    if mid == "range_nan":
        r["parameters"] = "start=a end=b step=c"
        return []
    if mid == "big_image_without_image":
        r["media::big-image"] = "x.png"
        return []
    if mid == "search_and_from_file":
        r["type"] = "select_one_from_file d.csv"
        r["appearance"] = "search('d')"
        return [r["name"]]
    if mid == "save_to_in_repeat":
        r["save_to"] = "prop"
        m["extra_sheets"].append({"name": "entities", "header": ["dataset", "label"], "rows": [["e1", "a"]]})
        return []
    if mid == "missing_type_label_only":
        del r["type"]
        del r["name"]
        return []
    if mid == "missing_type_name_only":
        del r["type"]
        del r["label"]
        return []
    if mid == "save_to_without_entities":
        r["save_to"] = "prop"
        return []
    # ---- choices sheet sites (i indexes m["choices"])
    if mid == "choice_noname":
        del C[i]["name"]
        return []
    if mid == "dup_choice":
        if i == 0 or C[i - 1]["list_name"] != C[i]["list_name"]:
            return None
        C[i]["name"] = C[i - 1]["name"]
        return [C[i]["name"]]
    if mid == "dup_choice_labelless":
        # the duplicate is a legal label-less choice (image only): it must still be reported as a duplicate
        if i == 0 or C[i - 1]["list_name"] != C[i]["list_name"]:
            return None
        C[i]["name"] = C[i - 1]["name"]
        C[i].pop("label", None)
        C[i]["image"] = "pic.png"
        return [C[i]["name"]]
    if mid == "dup_choice_first_labelless":
        if i == 0 or C[i - 1]["list_name"] != C[i]["list_name"]:
            return None
        C[i]["name"] = C[i - 1]["name"]
        C[i - 1].pop("label", None)
        C[i - 1]["image"] = "pic.png"
        return [C[i]["name"]]
    if mid == "selm_choice_space":
        if C[i]["list_name"] != "M":
            return None
        C[i]["name"] = "m x"
        return ["m x"]
    if mid == "selm_choice_space_list_used_before":
        if C[i]["list_name"] != "M":
            return None
        C[i]["name"] = "m x"
        S.insert(len(m["survey"]) - len([r for r in m["survey"] if r]), dict(type="select_one M", name="reads_m_first", label="RMF"))
        return ["m x"]
    # ---- form-level
    if mid == "no_survey_sheet":
        m["drop"].append("survey")
        return []
    if mid == "no_choices_sheet":
        m["drop"].append("choices")
        return []
    if mid == "choices_missing_list_name_header":
        for c in C:
            c.pop("list_name")
        return ["list_name"]
    if mid == "survey_missing_type_header":
        for s in S:
            s.pop("type", None)
        return ["type"]
    if mid.startswith("header_twice_"):
        # one column under two spellings (an alias or another capitalisation), in either order
        which, order = mid[len("header_twice_"):].rsplit("_", 2)[0], mid.rsplit("_", 2)[1]
        sheet, canon, alias = {"case": ("survey", "label", "Label"), "choices": ("choices", "name", "value"), "logic": ("survey", "relevant", "relevance")}[which]
        rows = S if sheet == "survey" else C
        hit = False
        for r in rows:
            if r and (canon in r or which == "logic" and r.get("name") and not hit):
                r.setdefault(canon, "1")
                r[alias] = r[canon]
                hit = True
        if not hit:
            return None
        if order == "alias":
            m.setdefault("front", {})[sheet] = [alias]
        return [alias, canon]
    if mid == "omit_instanceid_with_key":
        m["settings"].update(omit_instanceID="yes", public_key="abc", submission_url="http://x")
        return []
    if mid == "instance_id_clash":
        S.append(dict(type="xml-external", name="L"))
        return ["L"]
    if mid.startswith("audit_"):
        params, idents = {
            "audit_bad_track_changes": ("track-changes=maybe", ["track-changes"]),
            "audit_bad_identify_user": ("identify-user=maybe", ["identify-user"]),
            "audit_bad_reasons": ("track-changes-reasons=always", ["track-changes-reasons"]),
            "audit_bad_location_priority": ("location-priority=fast location-min-interval=1 location-max-age=2", ["location-priority"]),
            "audit_location_nan": ("location-priority=balanced location-min-interval=soon location-max-age=5", ["location-min-interval"]),
            "audit_location_negative": ("location-priority=balanced location-min-interval=1 location-max-age=-5", ["location-max-age"]),
            "audit_location_age_lt_interval": ("location-priority=balanced location-min-interval=10 location-max-age=5", ["location-max-age"]),
            "audit_location_incomplete": ("location-priority=balanced", []),
        }[mid]
        S.append(dict(type="audit", parameters=params))
        return idents
    if mid == "external_instance_twice":
        S.extend([dict(type="begin group", name="xg1", label="a"), dict(type="xml-external", name="dupx"), dict(type="text", name="xq1", label="x"), dict(type="end group"),
                  dict(type="begin group", name="xg2", label="a"), dict(type="xml-external", name="dupx"), dict(type="text", name="xq2", label="x"), dict(type="end group")])
        return ["dupx"]
    if mid == "search_list_shared":
        # this select uses search() while another select reads the same list plainly
        lst = r["type"].split()[1]
        r["appearance"] = "search('sfile')"
        S.append(dict(type=f"select_one {lst}", name="plain_reader", label="PR"))
        return [r["name"], lst]
    if mid == "search_list_shared_randomized":
        lst = r["type"].split()[1]
        r["appearance"] = "search('sfile')"
        S.append(dict(type=f"select_one {lst}", name="plain_reader", label="PR", parameters="randomize=true"))
        return [r["name"], lst]
    if mid == "choice_extra_column_translated":
        C[0]["geometry::fr"] = "1 2"
        return ["geometry"]
    if mid == "choices_header_not_a_name":
        C[0]["9lives"] = "x"
        return ["9lives"]
    if mid == "bind_suffix_not_a_name":
        r["bind::a<b"] = "x"
        return ["a<b"]
    if mid == "bind_nodeset_column":
        r["bind::nodeset"] = "/data/elsewhere"
        return []
    if mid == "body_ref_column":
        r["body::ref"] = "/data/elsewhere"
        return []
    if mid == "body_nodeset_column":
        r["body::nodeset"] = "/data/elsewhere"
        return []
    if mid == "bind_suffix_undeclared_prefix":
        r["bind::nope:attr"] = "x"
        return ["nope"]
    if mid == "settings_attribute_not_a_name":
        m["settings"]["attribute::two words"] = "x"
        return ["two words"]
    if mid == "label_with_control_character":
        r["label"] = "bad \x01 char"
        return []
    if mid == "bg_geopoint_ambiguous_trigger":
        S.extend([dict(type="begin group", name="bgg1", label="a"), dict(type="text", name="twice", label="x"), dict(type="end group"),
                  dict(type="begin group", name="bgg2", label="a"), dict(type="text", name="twice", label="x"), dict(type="end group"),
                  dict(type="background-geopoint", name="bgp", trigger="${twice}")])
        return ["twice"]
    if mid == "loop_without_list":
        S.extend([dict(type="begin loop", name="lp", label="LP"), dict(type="text", name="lq", label="x"), dict(type="end loop")])
        return []
    if mid == "entity_two_rows":
        m["extra_sheets"].append({"name": "entities", "header": ["dataset", "label"], "rows": [["e1", "a"], ["e2", "b"]]})
        return []
    if mid == "entity_bad_dataset":
        m["extra_sheets"].append({"name": "entities", "header": ["dataset", "label"], "rows": [["__e1", "a"]]})
        return ["__e1"]
    if mid == "entity_unknown_column":
        m["extra_sheets"].append({"name": "entities", "header": ["dataset", "label", "wat"], "rows": [["e1", "a", "x"]]})
        return ["wat"]
    raise KeyError(mid)
