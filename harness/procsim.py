"""C14: replay Process.tla histories in one real process (threads stepped at the phase yield points), hash-seed sweep."""

from __future__ import annotations

import hashlib
import json
import os
import subprocess
import sys
import threading


def corpus_forms():
    """name -> md text; chosen to touch every shared cache / mutated object the property's anchors list
    (f1: nested repeats with references, action-type questions, an entity *update* declaration, a last-saved default, a date question
    whose default "../n - 4" is also the default of an integer question of f2; f2: translations, a last-saved default; f3: an entity *create* declaration ...)"""
    f1 = """| survey |
| | type | name | label | relevant | calculation | repeat_count | default |
| | integer | n | N | | | | ${last-saved#n} |
| | begin repeat | r1 | R1 | | | ${n} |
| | text | a | A ${n} | | | |
| | begin group | g | G | ${a} != '' | | |
| | text | b | B | ${a} = 'x' and ${n} > 1 | | |
| | begin repeat | r2 | R2 | | | |
| | text | c | C ${b} | ${b} != ${a} | | |
| | end repeat | | | | | |
| | end group | | | | | |
| | calculate | d | | | indexed-repeat(${a}, ${r1}, 1) | |
| | end repeat | | | | | |
| | start-geopoint | sg | | | | |
| | background-audio | ba | | | | |
| | date | dd | DD | | | | ../n - 4 |
| entities |
| | dataset | entity_id | update_if |
| | trees | ${n} | ${n} > 0 |
"""
    f2 = """| survey |
| | type | name | label::English (en) | label::French (fr) | hint::English (en) | guidance_hint::French (fr) | constraint | constraint_message::French (fr) | default |
| | text | q1 | Q1 <b> & | Q1 fr | h1 | g1 | . != 'a' | non | ${last-saved#q1} |
| | select_one L or_other | s1 | S1 | S1 fr | | | | |
| | select_multiple L | s2 | S2 | S2 fr | h2 | | | |
| | image | p1 | P1 | | | g3 | | |
| | integer | hy | HY | | | | | | ../n - 4 |
| choices |
| | list_name | name | label::English (en) | label::French (fr) | image::English (en) |
| | L | l1 | L1 | L1 fr | l1.png |
| | L | l2 | L2 | | |
| | L | l3 | | L3 fr | |
"""
    f3 = """| survey |
| | type | name | label | appearance | choice_filter | save_to |
| | text | st | ST | | | pname |
| | select_one M | sm | SM | search('mfile') | | |
| | select_one_external X | ex | EX | | state=${st} | |
| | select_one L | sl | SL | | grp = ${st} | |
| choices |
| | list_name | name | label | grp |
| | M | m1 | M1 | |
| | L | l1 | L1 | a |
| | L | l2 | L2 | b |
| external_choices |
| | list_name | name | label | state |
| | X | x1 | X1 | s1 |
| | X | x2 | | s2 |
| settings |
| | namespaces | attribute::ex:foo | form_title |
| | ex="http://example.com/x" | bar | T3 |
| entities |
| | dataset | label |
| | people | ${st} |
"""
    return {"f1": f1, "f2": f2, "f3": f3}


def extra_forms():
    """forms for the hash-seed / repeated-input sweeps only (dict inputs are converted twice from the *same* object)"""
    pull = """| survey |
| | type | name | label | calculation | constraint | relevant | required | default | choice_filter |
| | text | k | K | | | | | | |
| | text | p1 | P1 | pulldata('fa', 'a', 'k', ${k}) | . != pulldata('fb', 'a', 'k', ${k}) | pulldata('fc', 'a', 'k', ${k}) = 'y' | pulldata('fd', 'a', 'k', ${k}) = 'y' | | |
| | calculate | p2 | | pulldata('fe', 'a', 'k', ${k}) | | pulldata('ff', 'a', 'k', ${k}) != '' | | | |
"""
    nsform = """| survey |
| | type | name | label | bind::n1:a | bind::n3:c |
| | text | q | Q | x | y |
| settings |
| | namespaces |
| | n1="http://example.com/1" n2="http://example.com/2" n3="http://example.com/3" n4="http://example.com/4" |
"""
    ext_dict = {"survey": [{"type": "text", "name": "st", "label": "ST"}, {"type": "select_one_external X", "name": "ex", "label": "EX", "choice_filter": "state=${st}"}],
                "external_choices": [{"list_name": "X", "name": "x1", "label": "X1", "state": "s1", "county": "c1"}, {"list_name": "X", "name": "x2", "state": "s2", "zone": "z"}]}
    ids_dict = {"survey": [{"type": "text", "name": "q", "label": "Q"}], "settings": [{"form_id": "fid", "id_string": "ids", "form_title": "T"}],
                "survey_header": [{"type": None, "name": None, "label": None}], "settings_header": [{"form_id": None, "id_string": None, "form_title": None}]}
    # several sheets whose names are close to a missing one: the advice lists them all, in sheet order
    near = """| survey |
| | type | name | label |
| | text | q | Q |
| setting |
| | form_title |
| | T1 |
| stettings |
| | form_title |
| | T2 |
| settingz |
| | form_title |
| | T3 |
| choicez |
| | list_name | name | label |
| | l | a | A |
| choises |
| | list_name | name | label |
| | l | b | B |
"""
    return [pull, nsform, ext_dict, ids_dict, near]


def digest(xform, warnings, itemsets):
    return hashlib.sha1(json.dumps([xform, list(warnings or []), itemsets]).encode()).hexdigest()[:16]


def xdigest(xform):
    return hashlib.sha1(xform.encode()).hexdigest()[:16]


CANON_DRIVER = r'''
import json, sys, hashlib
sys.path.insert(0, sys.argv[1]); sys.path.insert(0, sys.argv[2])
from harness import procsim
from pyxform.xls2xform import convert
out = {}
forms = json.loads(sys.stdin.read())
for k, md in forms.items():
    try:
        r = convert(xlsform=md, validate=False, pretty_print=False)
        out[k] = [procsim.digest(r.xform, r.warnings, r.itemsets), procsim.xdigest(r.xform)]
    except Exception as e:
        out[k] = ["error:" + type(e).__name__ + ":" + str(e)[:80], ""]
print("@@" + json.dumps(out))
'''


def canon(forms, repo, seed=0, verif="/verif"):
    env = dict(os.environ, PYTHONHASHSEED=str(seed), PYTHONPATH=repo)
    env.pop("PYXFORM_VERIF", None)
    p = subprocess.run([sys.executable, "-c", CANON_DRIVER, repo, verif], input=json.dumps(forms), env=env, capture_output=True, text=True, timeout=600)
    if "@@" not in p.stdout:
        raise RuntimeError("canon driver failed: " + p.stderr[-500:])
    return json.loads(p.stdout.split("@@")[1])


def tables_digest():
    """deep digest of module-level tables a conversion must not mutate"""
    from pyxform import aliases, constants
    from pyxform.question_type_dictionary import QUESTION_TYPE_DICT

    items = []
    for mod in (aliases, constants):
        for k in sorted(vars(mod)):
            v = getattr(mod, k)
            if k.startswith("__") or callable(v) or isinstance(v, type(os)):
                continue
            try:
                items.append([mod.__name__, k, json.dumps(v, sort_keys=True, default=lambda o: sorted(o) if isinstance(o, (set, frozenset)) else repr(o))])
            except Exception:
                items.append([mod.__name__, k, repr(v)])
    items.append(["qtd", json.dumps(QUESTION_TYPE_DICT, sort_keys=True, default=repr)])
    return hashlib.sha1(json.dumps(items).encode()).hexdigest()


class Stepper:
    """Runs conversions in real threads, advancing each only when told, one phase at a time."""

    PHASES = ("workbook_to_json", "build", "to_xml")

    def __init__(self, forms):
        from pyxform import _verif

        self.forms = forms
        self.verif = _verif
        self.ctl = {}
        _verif.YIELD_POINT = self._yield

    def close(self):
        self.verif.YIELD_POINT = None
        for c in self.ctl.values():
            c["cmd"] = ("quit",)
            c["go"].set()
            c["thread"].join(timeout=10)

    def _yield(self, name, at):
        c = self.ctl.get(threading.current_thread().name)
        if c is None or name not in self.PHASES or at != "exit":
            return
        if name == "to_xml" and c.get("in_again"):
            return
        if name == "to_xml":
            return  # the xml step runs on to the end of convert()
        self._pause(c)

    def _pause(self, c):
        c["paused"].set()
        c["go"].wait()
        c["go"].clear()

    def _worker(self, tname):
        from pyxform.xls2xform import convert

        c = self.ctl[tname]
        c["go"].wait()
        c["go"].clear()
        while True:
            cmd = c["cmd"]
            if cmd[0] == "quit":
                return
            if cmd[0] == "convert":
                try:
                    r = convert(xlsform=self.forms[cmd[1]], validate=False, pretty_print=False)
                    c["result"] = r
                    c["last"] = digest(r.xform, r.warnings, r.itemsets)
                except Exception as e:  # noqa: BLE001
                    c["last"] = "error:" + type(e).__name__ + ":" + str(e)[:80]
            elif cmd[0] == "again":
                try:
                    c["in_again"] = True
                    x = c["result"]._survey.to_xml(validate=False, pretty_print=False)
                    c["last"] = xdigest(x)
                except Exception as e:  # noqa: BLE001
                    c["last"] = "error:" + type(e).__name__ + ":" + str(e)[:80]
                finally:
                    c["in_again"] = False
            c["done"] = True
            self._pause(c)

    def _thread(self, t):
        if t not in self.ctl:
            c = {"go": threading.Event(), "paused": threading.Event(), "cmd": None, "done": False, "last": "", "result": None}
            self.ctl[t] = c
            c["thread"] = threading.Thread(target=self._worker, args=(t,), name=t, daemon=True)
            c["thread"].start()
        return self.ctl[t]

    def step(self, t, op, f):
        """advance thread t by one model step; returns the digest produced by the step ('' if none)"""
        c = self._thread(t)
        if op == "parse":
            c["cmd"] = ("convert", f)
            c["done"] = False
        elif op == "again":
            c["cmd"] = ("again",)
            c["done"] = False
        c["paused"].clear()
        c["go"].set()
        if not c["paused"].wait(timeout=120):
            return "error:stuck"
        if c["done"] and op in ("xml", "again"):
            return c["last"]
        if c["done"] and op in ("parse", "build"):
            return c["last"]  # the conversion ended early (an error): report what it produced
        return ""
