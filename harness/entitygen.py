"""C19: concretise an Entities.tla case and project the entity facts of the output."""

from __future__ import annotations

import re

from harness import project
from harness.rowtrace import norm_obs_expr_lit as norm_obs_expr, norm_src_expr_lit as norm_src_expr

DATASET = {"valid": "people", "reserved_prefix": "__people", "period": "peo.ple", "digit_first": "1people", "space": "peo ple"}
PROP = {"valid": None, "name": "name", "Label": "Label", "reserved_prefix": "__p", "digit_first": "1p", "space": "p q",
        "inner_dunder": "tree__height", "trailing_dunder": "girth__", "underscore_first": "_a__b"}
SITE_ROW = {"top": "t1", "group": "t2", "repeat": "t3", "grouprow": "g1", "group_in_repeat": "t4", "after_inner_repeat": "t6"}
SITE_PATH = {"top": ["t1"], "group": ["g1", "t2"], "repeat": ["r1", "t3"], "grouprow": ["g1"], "group_in_repeat": ["r1", "g2", "t4"], "after_inner_repeat": ["r1", "t6"]}


def build(case):
    refs = case["refs"]
    expr = {
        # (cells of the entities sheet are not whitespace-cleaned: runs of blanks inside string literals are data)
        "id": "${q0}" if refs else "'uuid:abc'",
        "cr": "${q0} = 'c  d'" if refs else "true()",
        "up": "${q0} = 'u'" if refs else "'a  b' = 'a  b'",
        "lab": "concat('L   ', ${q0})" if refs else "'plain  label'",
    }
    rows = [
        {"type": "text", "name": "q0", "label": "Q0"},
        {"type": "text", "name": "t1", "label": "T1"},
        {"type": "begin group", "name": "g1", "label": "G1"},
        {"type": "integer", "name": "t2", "label": "T2"},
        {"type": "end group"},
        {"type": "begin repeat", "name": "r1", "label": "R1"},
        {"type": "text", "name": "t3", "label": "T3"},
        {"type": "begin group", "name": "g2", "label": "G2"},
        {"type": "text", "name": "t4", "label": "T4"},
        {"type": "end group"},
        {"type": "begin repeat", "name": "r2", "label": "R2"},
        {"type": "text", "name": "t5", "label": "T5"},
        {"type": "end repeat"},
        {"type": "text", "name": "t6", "label": "T6"},
        {"type": "end repeat"},
    ]
    byname = {r.get("name"): r for r in rows}
    if any(site == "grouprow" for site, _ in case["saveto"]):
        # save_to on a section row is refused whatever the section is and however its keyword is spelled (legacy repeat aliases included)
        import zlib

        k = zlib.crc32(repr(sorted(case.items())).encode()) % 5
        b, e = [("begin group", "end group"), ("begin_group", "end_group"), ("begin lgroup", "end lgroup"), ("begin looped group", "end looped group"),
                ("begin repeat", "end repeat")][k]
        i = rows.index(byname["g1"])
        rows[i]["type"] = b
        rows[i + 2]["type"] = e
    saveto = []
    for site, cls in case["saveto"]:
        prop = PROP[cls] or f"prop_{site}"
        byname[SITE_ROW[site]]["save_to"] = prop
        saveto.append([SITE_PATH[site], prop])
    scols = ["type", "name", "label"] + (["save_to"] if case["saveto"] else [])
    sheets = [{"name": "survey", "header": scols, "rows": [[r.get(c) for c in scols] for r in rows]}]
    ds = DATASET[case["dataset"]]
    if case["sheet"]:
        ecols = ["dataset" if not refs else "list_name"]
        erow = [ds]
        for k, col in (("lab", "label"), ("id", "entity_id"), ("cr", "create_if"), ("up", "update_if")):
            if case[k]:
                ecols.append(col)
                erow.append(expr[k])
        if case["extracol"] != "none":
            ecols.append(case["extracol"])
            erow.append("x")
        if case["nrows"] == 3:
            # two rows: the declaration proper, and a second, non-empty row that has no dataset name
            if "label" not in ecols:
                ecols.append("label")
                erow.append(None)
            second = [None] + ["'second row'" if c == "label" else v for c, v in zip(ecols[1:], erow[1:])]
            sheets.append({"name": "entities", "header": ecols, "rows": [list(erow), second]})
        else:
            sheets.append({"name": "entities", "header": ecols, "rows": [list(erow) for _ in range(case["nrows"])]})
    if case.get("nsset"):
        sheets.append({"name": "settings", "header": ["namespaces", "attribute::cx:marker"], "rows": [['cx="http://example.com/cx" cy="http://example.com/cy"'
                                                                                                    # prefixes that merely look like the entities prefix, and (every other case) the entities prefix itself
                                                                                                    # with a foreign URI: the declaration of an entity form is the ODK entities namespace all the same
                                                                                                    + ' geo_entities="http://example.org/geo"' + (' entities="http://example.org/mine"' if len(str(case)) % 2 else ""), "m"]]})
    idn = norm_src_expr(expr["id"])
    src = {"dataset": ds, "id": idn, "cr": norm_src_expr(expr["cr"]), "up": norm_src_expr(expr["up"]), "lab": norm_src_expr(expr["lab"]),
           "ver": [norm_src_expr(f"instance('{ds}')/root/item[name={expr['id']}]/{v}") for v in ("__version", "__trunkVersion", "__branchId")],
           "saveto": saveto}
    return {"sheets": sheets}, src


def observe(xform):
    if not project.wellformed(xform)["parse_ok"]:
        return {"parse_ok": False, "custom_ns_declared": False, "present": False, "attrs": [], "has_label": False, "binds": [], "setvalue": [], "version": "", "ns_declared": False, "saveto": []}
    root = project.parse(xform)
    prim = project.primary_root(root)
    rootname = project.local(prim.tag)
    ent = None
    for k in prim:
        if project.local(k.tag) == "meta":
            for e in k:
                if project.local(e.tag) == "entity":
                    ent = e
    base = f"/{rootname}/meta/entity"
    binds, saveto = [], []
    for b in project.binds(root):
        ns = b["nodeset"] or ""
        if ns.startswith(base):
            a = b["attrs"]
            binds.append([ns[len(base):], norm_obs_expr(a.get("calculate", ""), rootname) if "calculate" in a else "", a.get("type", ""), a.get("readonly", "")])
        if "entities:saveto" in b["attrs"]:
            saveto.append([(project.split_path(ns) or ["?"])[1:], b["attrs"]["entities:saveto"]])
    sv = [[a.get("event", ""), a.get("value", "")] for a in project.all_setvalues(root) if a.get("ref") == base + "/@id"]
    model = project.model_of(root)
    m = re.search(r"<h:html([^>]*)>", xform)
    return {
        "parse_ok": True,
        "custom_ns_declared": bool(m and 'xmlns:cx="http://example.com/cx"' in m.group(1) and 'xmlns:cy="http://example.com/cy"' in m.group(1)),
        "present": ent is not None,
        "attrs": [[project.qname(k), v] for k, v in ent.attrib.items()] if ent is not None else [],
        "has_label": ent is not None and any(project.local(c.tag) == "label" for c in ent),
        "binds": binds, "setvalue": sv,
        "version": next((v for k, v in model.attrib.items() if project.qname(k) == "entities:entities-version"), ""),
        "ns_declared": bool(m and 'xmlns:entities="http://www.opendatakit.org/xforms/entities"' in m.group(1)),
        "saveto": saveto,
    }
