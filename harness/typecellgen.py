"""C13/C17 (type-cell level): concretise TypeCell.tla's cells inside a small frame form and read back how the real converter understood them."""

from __future__ import annotations

CANON_BEGIN = {"group": "begin group", "repeat": "begin repeat", "loop": "begin loop over L"}
CANON_END = {"group": "end group", "repeat": "end repeat", "loop": "end loop"}


def cell_text(words, pad="none"):
    t = ("  " if pad == "double" else " ").join(words)
    return {"lead": "  " + t, "trail": t + "   "}.get(pad, t)


def frame(case, text):
    """rows around the cell: a control cell gets its matching canonical partner row, everything else stands alone"""
    c, p = case["c"], case["parse"]
    kind = "end" if "end" in (c["k"], p["k"]) else "begin" if "begin" in (c["k"], p["k"]) else "question"
    ctype = case["ctype"] if case["ctype"] in CANON_END else "group"
    rows = [{"type": "text", "name": "q0", "label": "Q0"}]
    if kind == "begin":
        rows += [{"type": text, "name": "x", "label": "X"}, {"type": "text", "name": "q1", "label": "Q1 %(label)s" if ctype == "loop" else "Q1"}, {"type": CANON_END[ctype]}]
    elif kind == "end":
        rows += [{"type": CANON_BEGIN[ctype], "name": "x", "label": "X"}, {"type": "text", "name": "q1", "label": "Q1 %(label)s" if ctype == "loop" else "Q1"}, {"type": text}]
    else:
        r = {"type": text, "name": "x", "label": "X"}
        if p["t"] == "select one external" or text.strip().startswith("select_one_external"):
            r["choice_filter"] = "state=${q0}"
        rows.append(r)
    rows.append({"type": "text", "name": "q2", "label": "Q2"})
    cols = ["type", "name", "label"] + (["choice_filter"] if any("choice_filter" in r for r in rows) else [])
    sheets = [{"name": "survey", "header": cols, "rows": [[r.get(k) for k in cols] for r in rows]},
              {"name": "choices", "header": ["list_name", "name", "label"], "rows": [["L", "a", "A"], ["L", "b", "B"], ["M", "m1", "M1"]]},
              {"name": "external_choices", "header": ["list_name", "name", "label", "state"], "rows": [["L", "x1", "X1", "s1"]]},
              {"name": "osm", "header": ["list_name", "name", "label"], "rows": [["L", "building", "Building"]]}]
    return {"sheets": sheets}, kind


def _convert(wb):
    from harness import conv, render
    from pyxform.errors import PyXFormError
    from pyxform.xls2xform import convert

    inp, kw = render.render(wb, "dict")
    try:
        r = convert(xlsform=conv.materialise(inp), **kw)
        return "ok", r, ""
    except PyXFormError as e:
        return "pyxform_error", None, str(e)[:200]
    except Exception as e:  # noqa: BLE001
        return "crash:" + type(e).__name__, None, str(e)[:200]


def _reading(js, kind):
    """project how the cell was read from the JSON form"""
    out = {"k": "none", "t": "", "list": "", "other": False, "ff": False}
    kids = [k for k in js.get("children", []) if k.get("name") != "meta"]
    names = [k.get("name") for k in kids]
    x = next((k for k in kids if k.get("name") == "x"), None)
    if x is None:
        return out
    t = x.get("type", "")
    inner = [k.get("name") for k in x.get("children", [])] if isinstance(x.get("children"), list) else []
    if t in ("group", "repeat", "loop"):
        closed = "q2" in names and "q1" in inner and "q2" not in inner
        out.update(k=("end" if kind == "end" else "begin") if closed else "unclosed", t=t)
        if t == "loop" and kind != "end" and [c.get("name") for c in x.get("columns", [])] == ["a", "b"]:
            out["list"] = "L"
        return out
    if t in ("select one", "select all that apply", "select one external", "rank"):
        lst = x.get("list_name") or x.get("itemset") or (x.get("query") if t == "select one external" else "") or ""
        out.update(k="select", t=t, list=lst, other="x_other" in names, ff="." in lst)
        return out
    if t == "osm":
        has = [g.get("name") for g in x.get("tags", [])] == ["building"]
        out.update(k="osm" if has else "plain", t="osm", list="L" if has else "")
        return out
    out.update(k="plain", t=t)
    return out


def run_cell(job):
    text = cell_text(job["words"], job.get("pad", "none"))
    wb, kind = frame(job, text)
    real = {"status": "ok", "k": "none", "t": "", "list": "", "other": False, "ff": False, "message": ""}
    status, r, msg = _convert(wb)
    real["status"], real["message"] = status, msg
    same = False
    if r is not None:
        real.update(_reading(r._pyxform, kind))
    if job["indomain"]:
        wb2, _ = frame(job, cell_text(job["canon"]))
        s2, r2, _m = _convert(wb2)
        same = r is not None and r2 is not None and r.xform == r2.xform
    return {"job": job, "text": text, "wb": wb, "trace": [{"ev": "typecell", "c": job["c"], "pad": job.get("pad", "none"), "real": real, "same_as_canon": same}]}
