"""C06 / C03 / C17 (instance() expressions in text): concretise InstanceExpr.tla's token sequences, ask the real find_boundaries()
for the expression boundaries, and convert a form whose note label is the text; project the label's text pieces and outputs."""

from __future__ import annotations

import xml.etree.ElementTree as ET

TXT = {"inst": "instance(", "lit": "'cities'", "close": ")", "sep": "/", "name": "nm", "pstart": "item[", "pend": "]", "ws": " ", "num": "1",
       "comma": ",", "eq": "=", "ref": "${q0}", "func": "count("}
X = "{http://www.w3.org/2002/xforms}"
H = "{http://www.w3.org/1999/xhtml}"


def text_of(toks):
    return "".join(TXT[t] for t in toks)


def _bounds(toks, text):
    from pyxform.parsing.instance_expression import find_boundaries

    offs = [0]
    for t in toks:
        offs.append(offs[-1] + len(TXT[t]))
    starts = {o: i + 1 for i, o in enumerate(offs[:-1])}
    ends = {o: i for i, o in enumerate(offs) if i > 0}
    return [[starts.get(a, 0), ends.get(b, 0)] for a, b in find_boundaries(text)]


def _label(xform):
    root = ET.fromstring(xform.encode("utf-8"))
    for el in root.find(f"{H}body").iter():
        if el.get("ref") == "/data/n":
            lab = el.find(f"{X}label")
            texts, outs = [lab.text or ""], []
            for ch in lab:
                outs.append(ch.get("value") if ch.tag == f"{X}output" else "<" + ch.tag + ">")
                texts.append(ch.tail or "")
            # the writer pads a label that holds outputs with one blank at either end (mixed content): not part of the text
            texts[0] = texts[0].lstrip(" ")
            texts[-1] = texts[-1].rstrip(" ")
            return texts, outs
    return ["<no label>"], []


def run(job):
    from pyxform.errors import PyXFormError
    from pyxform.xls2xform import convert

    toks = job["toks"]
    text = text_of(toks)
    real = {"status": "ok", "bounds": [], "conv": "ok", "texts": [], "outs": [], "message": ""}
    try:
        real["bounds"] = _bounds(toks, text)
    except Exception as e:  # noqa: BLE001
        real.update(status="crash:" + type(e).__name__, message=str(e)[:120])
    wb = {"survey": [{"type": "text", "name": "q0", "label": "Q0"}, {"type": "note", "name": "n", "label": text}],
          "choices": [{"list_name": "cities", "name": "a", "label": "A"}]}
    try:
        r = convert(xlsform=wb)
        real["texts"], real["outs"] = _label(r.xform)
    except PyXFormError as e:
        real.update(conv="refused", message=str(e)[:160])
    except Exception as e:  # noqa: BLE001
        real.update(conv="crash:" + type(e).__name__, message=str(e)[:160])
    return {"job": job, "text": text, "trace": [{"ev": "instexpr", "toks": toks, "spans": job["spans"], "wild": job["wild"], "real": real}]}
