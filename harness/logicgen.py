"""Forms for C05 (logic cells -> binds) and C10 (defaults / triggers), with the source-side facts.

Structure comes from TLC (row-shape sequences); this module fills logic columns under alias
spellings, in shuffled column order, with values unique per (row, column), and records what the
XLSForm reference says each cell means (`src` facts) for the TLA+ envelope to compare against.
"""

from __future__ import annotations

import random
import re

from harness.abstract import classify_default
from harness.rowtrace import norm_src_expr

SPELL = {
    "relevant": ["relevant", "relevance", "bind::relevant", "Relevant"],
    "required": ["required", "bind::required", "Required"],
    "readonly": ["read_only", "readonly", "read only", "bind::readonly", "Read_Only"],
    "constraint": ["constraint", "bind::constraint", "Constraint"],
    "jr:constraintMsg": ["constraint_message", "constraining_message", "constraint message", "bind::jr:constraintMsg"],
    "jr:requiredMsg": ["required_message", "requiredmsg", "bind::jr:requiredMsg", "required message"],
    "calculate": ["calculation", "calculate", "bind::calculate", "Calculation"],
    "custom_a": ["bind::custom_a"],
    "jr:noAppErrorString": ["noAppErrorString", "no_app_error_string", "bind::jr:noAppErrorString"],
    "odk:length": ["bind::odk:length"],
}
CONVERTIBLE = {"readonly", "required", "relevant", "constraint", "calculate"}
YESNO = ["yes", "Yes", "YES", "true", "True", "TRUE", "no", "No", "NO", "false", "False", "FALSE"]
TYPE_CLASS = {
    "text": ["text", "string", "note", "barcode"],
    "typed": ["integer", "int", "decimal", "date", "time", "dateTime", "geopoint", "geotrace", "geoshape", "gps", "datetime"],
    "calc": ["calculate"],
    "hidden": ["start", "end", "today", "deviceid", "username", "phonenumber", "email", "hidden", "simserial", "subscriberid", "start-geopoint"],
    "upload": ["photo", "image", "audio", "video", "file"],
    "trigger": ["acknowledge", "trigger"],
    "range": ["range"],
}
DEFAULTS = {
    "static": ["7", "-3", "3.5", "hello", "hello world", "2020-01-31", "12:30:00", "jr://images/x.png", "a_b", "Yes and no"],
    "dynamic": ["now()", "today()", "today() - 7", "now() - ${REF}", "${REF} - 1", "date(${REF}) - 30", "decimal-date-time(now()) - 2", "concat('a', 'b')", "1 + 2", "7 - 2", "3 * 4", "6 div 2", "7 mod 2", "uuid()", "${REF}", "${REF} + 1",
                "if(${REF} = 1, 'a', 'b')", "string-length('abc')"],
    "either": ["a-1", "5-3", "-a", "(x)", "x[1]", "a|b", "a*b", "'q - r'", "1+2"],
}


class LForm:
    def __init__(self, rnd):
        self.rnd = rnd
        self.rows = []
        self.spell = {}
        self.binds = []
        self.defaults = []
        self.triggers = []
        self.visible = []  # (name, path) of visible questions usable as triggers
        self.qnames = []
        self.stack = []
        self.repeats = []
        self.single_colon = rnd.random() < 0.2

    def hdr(self, logical):
        if logical not in self.spell:
            h = self.rnd.choice(SPELL[logical]) if logical in SPELL else logical
            if self.single_colon:
                # legacy delimiter: the whole sheet uses ':' (no header may contain '::'), e.g. bind:jr:constraintMsg
                h = h.replace("::", ":")
            self.spell[logical] = h
        return self.spell[logical]


def _uniq(n, col):
    return f"v{n}{col[:3].replace(':', '')}"


def _homonymize(shapes, rnd):
    """Give one question inside a repeat the name of a question outside every repeat (different parent section: names only have to
    be unique among siblings).  -> (shapes, {the shared name})"""
    stack, info = [], []
    for idx, (shape, given) in enumerate(shapes):
        name = given or f"n{idx + 2}"
        if shape in ("blank", "audit", "note_noname"):
            continue
        if shape in ("end_group", "end_repeat"):
            if stack:
                stack.pop()
            continue
        if shape.startswith("begin"):
            stack.append((idx, "repeat" if "repeat" in shape else "group"))
            continue
        info.append((idx, name, tuple(i for i, _ in stack), any(k == "repeat" for _, k in stack)))
    pairs = [(a, b) for a in info if not a[3] for b in info if b[3] and a[2] != b[2]]
    if not pairs:
        return shapes, set()
    a, b = rnd.choice(pairs)
    shapes = list(shapes)
    shapes[b[0]] = (shapes[b[0]][0], a[1])
    # sometimes a third element of that name, in yet another section
    third = [c for c in info if c[0] not in (a[0], b[0]) and c[2] not in (a[2], b[2])]
    if third and rnd.random() < 0.5:
        c = rnd.choice(third)
        shapes[c[0]] = (shapes[c[0]][0], a[1])
    return shapes, {a[1]}


def build(shapes, seed=0, mode="binds", formname="data", homonyms=False):
    """mode: 'binds' (C05) or 'defaults' (C10). Returns (wb, src)."""
    shapes = [(s, "") if isinstance(s, str) else (s[0], s[1]) for s in shapes]
    rnd = random.Random(f"L{seed}:{mode}:{shapes}")
    dups = set()
    if homonyms:
        # (the row number n of every row is unchanged: unique cell values still derive from it)
        shapes = [(s, g or f"n{i + 2}") for i, (s, g) in enumerate(shapes)]
        shapes, dups = _homonymize(shapes, rnd)
    f = LForm(rnd)
    dotted = rnd.random() < 0.25      # names with dots and hyphens (legal XML names; references to them must still be recognised)
    # names that are string prefixes of one another (nxx, nxxx, ...): a path of one element then begins with the path of another
    prefixy = not dotted and random.Random(f"prefixy:{seed}:{shapes}").random() < 0.25
    n = 1
    lists_used = set()
    for shape, given in shapes:
        n += 1
        name = given or f"n{n}"
        if prefixy and re.fullmatch(r"n\d+", name):
            pn = "n" + "x" * int(name[1:])
            if name in dups:
                dups = dups | {pn}
            name = pn
        if dotted and re.fullmatch(r"n\d+", name) and (rnd.random() < 0.6 or (given or f"n{n}") in dups):
            name = f"{name}.a-b"
            if (given or f"n{n}") in dups:
                dups = dups | {name}
        row = {}
        if shape == "blank":
            f.rows.append(row)
            continue
        if shape in ("end_group", "end_repeat"):
            row["type"] = "end group" if shape == "end_group" else "end repeat"
            f.rows.append(row)
            if f.stack:
                k = f.stack.pop()
            continue
        if shape == "audit":
            row["type"] = "audit"
            if mode == "binds" and sum(1 for sh, _ in shapes if sh == "audit") == 1 and rnd.random() < 0.7:
                # audit parameters become odk: attributes of the bind of /<form>/meta/audit; each parameter keeps its own attribute
                opts = [("track-changes", rnd.choice(["true", "false"])), ("track-changes-reasons", "on-form-edit"), ("identify-user", rnd.choice(["true", "false"]))]
                chosen = [o for o in opts if rnd.random() < 0.6]
                if rnd.random() < 0.4:
                    chosen += [("location-priority", rnd.choice(["balanced", "high-accuracy", "low-power", "no-power"])), ("location-min-interval", "60"), ("location-max-age", "120")]
                extra = []
                if rnd.random() < 0.5:
                    # the audit row's own logic cells go on the same bind, beside the parameter-derived attributes
                    u = _uniq(n, "relevant")
                    row[f.hdr("relevant")] = f"'{u}' = '{u}'"
                    extra.append(["relevant", f"'{u}' = '{u}'", "lit"])
                    if rnd.random() < 0.5:
                        row[f.hdr("custom_a")] = _uniq(n, "custom_a")
                        extra.append(["custom_a", _uniq(n, "custom_a"), "lit"])
                if chosen:
                    rnd.shuffle(chosen)
                    row["parameters"] = rnd.choice([" ", ";", ", "]).join(f"{k}={v}" for k, v in chosen)
                if chosen or extra:
                    f.binds.append([["meta", "audit"], [[f"odk:{k}", v, "lit"] for k, v in chosen] + extra])
            f.rows.append(row)
            continue
        path = [s for s, _ in f.stack] + [name]
        row["name"] = name
        is_section = shape.startswith("begin")
        qtype = None
        if shape == "note_noname":
            row["type"] = qtype = "note"
            row["name"] = None
            path = [s for s, _ in f.stack] + [f"generated_note_name_{n}"]
            row["label"] = f"Note {n}"
        elif shape in ("sel1", "sel1_other"):
            qtype = "select one"
            row["type"] = rnd.choice(["select_one L", "select one L"]) + (" or_other" if shape == "sel1_other" else "")
            row["label"] = f"L {name}"
            lists_used.add("L")
        elif shape == "selm":
            qtype = "select all that apply"
            row["type"] = rnd.choice(["select_multiple M", "rank M"])
            if row["type"].startswith("rank"):
                qtype = "rank"
            row["label"] = f"L {name}"
            lists_used.add("M")
        elif is_section:
            kind = "repeat" if "repeat" in shape else "group"
            row["type"] = f"begin {kind}"
            row["label"] = f"S {name}"
            if shape == "begin_group_tl":
                row["appearance"] = "table-list"
            if shape == "begin_repeat_count":
                row["repeat_count"] = "3"
            f.stack.append((name, kind))
        else:
            qtype = rnd.choice(TYPE_CLASS[shape])
            row["type"] = qtype
            if shape not in ("calc", "hidden"):
                row["label"] = f"L {name}"
            if qtype == "calculate":
                row[f.hdr("calculate")] = f"1 + {n}"
        in_repeat = any(k == "repeat" for _, k in f.stack[: len(f.stack) - (1 if is_section else 0)])
        attrs = []
        if qtype == "calculate":
            attrs.append(["calculate", f"1 + {n}", "lit"])
        ref = "${" + rnd.choice(f.qnames) + "}" if f.qnames and rnd.random() < 0.5 else None
        if mode == "binds" and shape != "note_noname":
            cols = ["relevant"] if is_section else ["relevant", "required", "readonly", "constraint", "jr:constraintMsg", "jr:requiredMsg", "custom_a", "odk:length", "jr:noAppErrorString"]
            if f.single_colon:
                # with the legacy ':' delimiter only the jr: prefix is re-joined (process_header); other prefixes need '::'
                cols = [c for c in cols if c != "odk:length"]
            if qtype not in (None, "calculate") and not is_section:
                cols.append("calculate")
            k = rnd.choice([0, 1, 1, 2, 3, len(cols)])
            chosen = rnd.sample(cols, min(k, len(cols)))
            for c in chosen:
                u = _uniq(n, c)
                if (c in ("required", "readonly") and rnd.random() < 0.5) or (c in CONVERTIBLE and rnd.random() < 0.15):
                    # every convertible bind attribute (readonly, required, relevant, constraint, calculate) takes yes/no spellings
                    val = rnd.choice(YESNO)
                    kind = "conv"
                    exp = val
                elif c in ("relevant", "constraint", "calculate", "required", "readonly"):
                    if ref and rnd.random() < 0.5:
                        val = f"{ref} != '{u}' and . != 'a < b'" if c == "constraint" else f"{ref} = '{u}'"
                        kind = "norm"
                        exp = norm_src_expr(val)
                    else:
                        val = f". != '{u}'" if c == "constraint" else f"'{u}' = '{u}'"
                        kind = "lit"
                        exp = val
                elif c in ("jr:constraintMsg", "jr:requiredMsg") and rnd.random() < 0.2:
                    # the message both unsuffixed and translated (columns end up in either order): it goes through itext
                    val = f"msg {u} plain"
                    kind = "lit"
                    exp = f"jr:itext('/{formname}/{'/'.join(path)}:{c}')"
                    row[f.hdr(c) + ("::" if not f.single_colon else ":") + "French (fr)"] = f"msg {u} fr"
                elif c == "jr:noAppErrorString":
                    # (an untranslated message stays on the bind, with its references substituted; only a translated one goes through itext)
                    if ref and rnd.random() < 0.5:
                        val = f"install {u} {ref} first"
                        kind = "norm"
                        exp = norm_src_expr(val)
                    else:
                        val = f"install {u} first"
                        kind = "lit"
                        exp = val
                elif c in ("jr:constraintMsg", "jr:requiredMsg"):
                    if ref and rnd.random() < 0.3:
                        val = f"msg {u} {ref} end"
                        kind = "lit"
                        exp = f"jr:itext('/{formname}/{'/'.join(path)}:{c}')"
                    else:
                        val = f"msg {u} <b> & \"q\""
                        kind = "lit"
                        exp = val
                else:
                    val = u
                    kind = "lit"
                    exp = val
                row[f.hdr(c)] = val
                attrs = [a for a in attrs if a[0] != c] + [[c, exp, kind]]
            # parameter-derived bind attributes
            if qtype in ("photo", "image") and rnd.random() < 0.5:
                row["parameters"] = f"max-pixels={100 + n}"
                attrs.append(["orx:max-pixels", str(100 + n), "lit"])
            if qtype == "audio" and rnd.random() < 0.5:
                q = rnd.choice(["low", "normal", "voice-only", "external"])
                row["parameters"] = f"quality={q}"
                attrs.append(["odk:quality", q, "lit"])
            if qtype in ("geopoint", "geotrace", "geoshape") and rnd.random() < 0.5:
                v = rnd.choice(["true", "false"])
                row["parameters"] = f"allow-mock-accuracy={v}"
                attrs.append(["odk:allow-mock-accuracy", v, "lit"])
            if qtype == "range" and rnd.random() < 0.7:
                # XLSForm reference: the bind type of a range is decimal as soon as any of start / end / step is a decimal
                params, btype = rnd.choice([("start=0.5 end=5.5 step=0.5", "decimal"), ("start=1 end=9 step=2", "int"), ("start=0 end=1 step=0.1", "decimal"),
                                            ("step=0.5", "decimal"), ("start=1.5 end=10 step=1", "decimal"), ("end=7", "int"), ("start=2 end=4.0 step=1", "decimal")])
                row["parameters"] = params
                attrs.append(["type", btype, "lit"])
            # a trigger cell moves the calculation into a setvalue action; every other logic cell stays on the bind
            if f.visible and shape in ("text", "typed", "calc") and rnd.random() < 0.2:
                tname, tpath = rnd.choice(f.visible)
                row["trigger"] = "${" + tname + "}"
                if f.hdr("calculate") not in row:
                    row[f.hdr("calculate")] = f"concat('{n}', 't')"
                if rnd.random() < 0.2:
                    row[f.hdr("calculate")] = rnd.choice(YESNO)         # a triggered calculation that is a bare truth word is still the action's value, not a bind attribute
                attrs = [a for a in attrs if a[0] != "calculate"]
        if mode == "defaults" and not is_section and shape in ("text", "typed", "calc", "sel1", "selm", "upload", "hidden", "trigger", "range"):
            r = rnd.random()
            if r < 0.6 and qtype not in ("start-geopoint",):
                cls = rnd.choice(["static", "dynamic", "dynamic", "either"])
                text = rnd.choice(DEFAULTS[cls])
                if "${REF}" in text:
                    text = text.replace("${REF}", ref) if ref else "now()"
                cls2 = classify_default(text, qtype)
                if cls2 != "none":
                    exp_text = text
                    if qtype in ("photo", "image") and "jr://images/" not in text:
                        exp_text = "jr://images/" + text
                    row["default"] = text
                    f.defaults.append([path, cls2, exp_text])
                    if qtype == "calculate" and "calculation" in str(row):
                        pass
            if r > 0.75 and f.visible and qtype not in ("start-geopoint",) and shape in ("text", "typed", "calc"):
                tname, tpath = f.visible[0] if rnd.random() < 0.5 else rnd.choice(f.visible)
                row["trigger"] = "${" + tname + "}"
                hc = qtype == "calculate" or rnd.random() < 0.6
                if hc and f.hdr("calculate") not in row:
                    row[f.hdr("calculate")] = f"concat('{n}', 'x')" if not ref or rnd.random() < 0.5 else f"concat({ref}, '{n}')"
                if hc and rnd.random() < 0.15:
                    row[f.hdr("calculate")] = rnd.choice(YESNO)
                calc = row.get(f.hdr("calculate"))
                f.triggers.append([path, tpath, False, bool(calc), norm_src_expr(calc) if calc else ""])
                attrs = [a for a in attrs if a[0] != "calculate"]
            elif r > 0.7 and f.visible and shape == "hidden" and rnd.random() < 0.5:
                tname, tpath = rnd.choice(f.visible)
                row["type"] = qtype = "background-geopoint"
                row["trigger"] = "${" + tname + "}"
                f.triggers.append([path, tpath, True, False, ""])
        if attrs:
            f.binds.append([path, attrs])
        f.rows.append(row)
        if not is_section and path[-1] not in dups:      # (a ${reference} to a name that occurs twice would be ambiguous)
            f.qnames.append(path[-1])
            if shape in ("text", "typed", "sel1", "selm", "range", "trigger") and "label" in row and "trigger" not in row and f.hdr("calculate") not in row:
                f.visible.append((path[-1], path))
    cols = []
    for r in f.rows:
        for c in r:
            if c not in cols:
                cols.append(c)
    for must in ("type", "name", "label"):
        if must not in cols:
            cols.append(must)
    rnd.shuffle(cols)
    survey = {"name": "survey", "header": cols, "rows": [[r.get(c) for c in cols] for r in f.rows]}
    sheets = [survey]
    if lists_used:
        ch = []
        for lst in sorted(lists_used):
            for i in (1, 2):
                ch.append([lst, f"{lst.lower()}{i}", f"C {lst}{i}"])
        chdr = ["list_name", "name", "label"]
        # a choices column (data for choice filters) may be called like a survey column, whatever that name means on the survey sheet
        same = [c for c in cols if re.fullmatch(r"[A-Za-z_]+", c) and c.lower() not in ("type", "name", "label", "list_name", "hint", "appearance", "parameters", "default", "trigger", "media", "image", "audio", "video")]
        prnd = random.Random(f"chcol:{seed}:{mode}:{shapes}")
        if same and prnd.random() < 0.35:
            chdr.append(prnd.choice(same))
            ch = [r + [f"v{i}"] for i, r in enumerate(ch)]
        sheets.append({"name": "choices", "header": chdr, "rows": ch})
    src = {"binds": f.binds, "defaults": f.defaults, "triggers": f.triggers}
    return {"sheets": sheets}, src
