"""C18: execute one configuration of Validate.tla against the real code with a scripted stand-in for java."""

from __future__ import annotations

import json
import os
import shutil
import subprocess
import sys
import tempfile

FAKE_JAVA = r'''#!/bin/sh
# stand-in for the java executable: logs how it was called, then behaves as FAKE_JAVA_MODE says
last=""
for a in "$@"; do last="$a"; done
if [ -f "$last" ]; then seen=1; else seen=0; fi
echo "called seen=$seen file=$last" >> "$FAKE_JAVA_LOG"
case "$FAKE_JAVA_MODE" in
  ok_silent) exit 0 ;;
  ok_stderr) echo "Warning: something about /data/q1 looks odd" >&2; exit 0 ;;
  reject)
    printf '%s\n' "org.javarosa.xform.parse.XFormParseException: Problem at /data/grp-a/q-1 here" >&2
    printf '%s\n' "org.javarosa.xform.parse.XFormParseException: Problem at /data/grp-a/q-1 here" >&2
    printf '\tat org.javarosa.xform.parse.XFormParser.parse(XFormParser.java:123)\n' >&2
    printf '%s\n' "Caused by XFormParser.java:99 something" >&2
    printf '%s\n' "Type mismatch in the expression of /data/grp.b/q.2." >&2
    printf '%s\n' "Result: Invalid" >&2
    exit 1 ;;
  reject_rc2)
    printf '%s\n' "org.javarosa.xform.parse.XFormParseException: Problem at /data/grp-a/q-1 here" >&2
    printf '%s\n' "org.javarosa.xform.parse.XFormParseException: Problem at /data/grp-a/q-1 here" >&2
    printf '\tat org.javarosa.xform.parse.XFormParser.parse(XFormParser.java:123)\n' >&2
    printf '%s\n' "Type mismatch in the expression of /data/grp.b/q.2." >&2
    printf '%s\n' "Result: Invalid" >&2
    exit 2 ;;
  reject_rc255_empty) exit 255 ;;
  reject_bytes) printf 'yyy bytes diagnostic 43 \201\215\217\220\235 \223\372\226\173\n' >&2; exit 1 ;;
  ok_stderr_bytes) printf 'Warning: something about /data/q1 \201\215\217\220\235\n' >&2; exit 0 ;;
  reject_arbitrary) printf '%s\n' "zzz arbitrary <&> ]]> diagnostic 42" >&2; printf 'no newline at end' >&2; exit 3 ;;
  killed_term) kill -15 $$ ;;
  corrupt_jar) echo "Error: Unable to access jarfile /some/where/ODK_Validate.jar" >&2; exit 1 ;;
  corrupt_jar_after_notice) echo "Picked up JAVA_TOOL_OPTIONS: -Xmx64m" >&2; echo "Error: Unable to access jarfile /some/where/ODK_Validate.jar" >&2; exit 1 ;;
  killed) kill -9 $$ ;;
  hang) exec /bin/sleep 250 ;;
  *) exit 0 ;;
esac
'''

LIB_DRIVER = r'''
import json, sys
from pyxform.xls2xform import convert
from pyxform.errors import PyXFormError
from pyxform.validators.odk_validate import ODKValidateError
out = {"exc": "none", "message": "", "warnings": [], "xform": None, "itemsets": None}
try:
    r = convert(xlsform=sys.argv[1], validate=True, pretty_print=False)
    out.update(warnings=list(r.warnings), xform=r.xform, itemsets=r.itemsets)
except PyXFormError as e:
    out.update(exc="PyXFormError", message=str(e))
except ODKValidateError as e:
    out.update(exc="ODKValidateError", message=str(e))
except OSError as e:
    out.update(exc="OSError", message=str(e))
except Exception as e:
    out.update(exc="crash:" + type(e).__name__, message=str(e))
print("@@RESULT@@" + json.dumps(out))
'''


def form_md(form, ext):
    if form == "invalid":
        return "| survey |\n| | type | name | label |\n| | texto | q1 | Q1 |\n"
    s = "| survey |\n| | type | name | label | choice_filter |\n| | text | q1 | Q1 | |\n| | begin group | grp | G | |\n| | integer | q2 | Q2 | |\n| | end group | | | |\n"
    if ext:
        # (the external select sits inside a group that has other container-valued cells: appearance, a translated-style bind column)
        s = s.replace("| survey |\n| | type | name | label | choice_filter |", "| survey |\n| | type | name | label | choice_filter | appearance | bind::custom |")
        s += "| | begin group | eg | EG | | field-list | x |\n| | select_one_external X | e1 | E1 | state=${q1} | | |\n| | end group | | | | | |\n| external_choices |\n| | list_name | name | label | state |\n| | X | x1 | X1 | s1 |\n| | X | x2 | X2 | s2 |\n"
    return s


def msg_clean(message):
    """the scripted reject stderr, cleaned as the property says: paths as ${name}, no stack lines, no duplicate lines"""
    lines = message.splitlines()
    return ("${q-1}" in message and "/data/grp-a/q-1" not in message and "${q.2}." in message and "/data/grp.b/q.2" not in message and not any("\tat " in l or ".java:" in l for l in lines)
            and sum(1 for l in lines if "Problem at" in l) == 1 and "Result: Invalid" in message)


CARRIED = {"reject_bytes": "yyy bytes diagnostic 43", "reject": "Problem at", "reject_rc2": "Problem at", "reject_arbitrary": "zzz arbitrary <&> ]]> diagnostic 42", "corrupt_jar": "Unable to access jarfile /some/where/ODK_Validate.jar",
           "corrupt_jar_after_notice": "Unable to access jarfile /some/where/ODK_Validate.jar"}


def execute(cfg, repo):
    """-> observed event. Everything happens in a private directory tree that is removed afterwards."""
    root = tempfile.mkdtemp(prefix="c18-", dir="/var/tmp")
    try:
        tmpd, outd, bind, formd = (os.path.join(root, d) for d in ("tmp", "out", "bin", "form"))
        for d in (tmpd, outd, bind, formd):
            os.mkdir(d)
        log = os.path.join(root, "java.log")
        if cfg["vout"] != "java_absent":
            jp = os.path.join(bind, "java")
            with open(jp, "w") as f:
                f.write(FAKE_JAVA)
            os.chmod(jp, 0o755)
        form_path = os.path.join(formd, "myform.md")
        with open(form_path, "w") as f:
            f.write(form_md(cfg["form"], cfg["ext"]))
        out_path = os.path.join(outd, "out.xml")
        if cfg["pre"]:
            with open(out_path, "w") as f:
                f.write("OLD")
        env = {"PATH": bind, "TMPDIR": tmpd, "TEMP": tmpd, "TMP": tmpd, "PYTHONPATH": repo, "FAKE_JAVA_MODE": cfg["vout"], "FAKE_JAVA_LOG": log,
               "PYTHONHASHSEED": "0", "HOME": root}
        py = sys.executable
        # the library result without validation (what the written file must equal)
        ref = subprocess.run([py, "-c", LIB_DRIVER.replace("validate=True", "validate=False"), form_path], env=env, capture_output=True, text=True, timeout=120)
        ref_out = json.loads(ref.stdout.split("@@RESULT@@")[1]) if "@@RESULT@@" in ref.stdout else {}
        for f in os.listdir(tmpd):
            os.unlink(os.path.join(tmpd, f))
        if os.path.exists(log):
            os.unlink(log)
        e = cfg["entry"]
        obs = {"ev": "observed", "exc": "none", "code": 0, "warn_stderr": False, "warn_badrc": False, "warn_timeout": False, "msg_clean": False, "msg_carries": False, "raw": ""}
        carried = CARRIED.get(cfg["vout"], "\x00")
        if e == "lib":
            p = subprocess.run([py, "-c", LIB_DRIVER, form_path], env=env, capture_output=True, text=True, timeout=300)
            res = json.loads(p.stdout.split("@@RESULT@@")[1]) if "@@RESULT@@" in p.stdout else {"exc": "crash:noresult", "message": p.stderr[-300:], "warnings": []}
            obs["exc"] = res["exc"]
            ws = "\n".join(res.get("warnings") or [])
            obs["warn_stderr"] = "something about" in ws
            obs["warn_badrc"] = "Bad return code" in ws
            obs["warn_timeout"] = "took to long" in ws
            obs["msg_clean"] = msg_clean(res.get("message") or "")
            obs["msg_carries"] = carried in (res.get("message") or "")
            obs["raw"] = (res.get("message") or "")[:300]
        else:
            args = [py, "-m", "pyxform.xls2xform", form_path, out_path]
            if e in ("cli_json", "cli_json_skip"):
                args.append("--json")
            if e in ("cli_skip", "cli_json_skip"):
                args.append("--skip_validate")
            if e == "cli_odk":
                args.append("--odk_validate")
            p = subprocess.run(args, env=env, capture_output=True, text=True, timeout=300, cwd=outd)
            text = p.stdout + p.stderr
            obs["raw"] = text[-400:]
            if e in ("cli_json", "cli_json_skip"):
                resp = None
                for line in text.splitlines():
                    line = line.strip()
                    if line.startswith("{") and '"code"' in line:
                        resp = json.loads(line)
                if resp is None:
                    obs["exc"] = "crash:no_json"
                else:
                    obs["code"] = resp["code"]
                    msg = resp.get("message") or ""
                    ws = "\n".join(resp.get("warnings") or [])
                    obs["warn_stderr"] = "something about" in ws
                    obs["warn_badrc"] = "Bad return code" in ws
                    obs["warn_timeout"] = "took to long" in ws
                    obs["msg_clean"] = msg_clean(msg)
                    obs["msg_carries"] = carried in msg
                    if resp["code"] == 999:
                        if "ODK Validate Errors" in msg:
                            obs["exc"] = "ODKValidateError"
                        elif "Java (8+ required) could not be found" in msg:
                            obs["exc"] = "OSError"
                        else:
                            obs["exc"] = "PyXFormError"
            else:
                if "ODKValidateError during conversion" in text:
                    obs["exc"] = "ODKValidateError"
                    obs["msg_clean"] = msg_clean(text)
                    obs["msg_carries"] = carried in text
                elif "EnvironmentError during conversion" in text:
                    obs["exc"] = "OSError"
                elif "PyXFormError" in text and p.returncode != 0:
                    obs["exc"] = "PyXFormError"
                elif p.returncode != 0:
                    obs["exc"] = "crash:exit%d" % p.returncode
                obs["warn_stderr"] = "something about" in text
                obs["warn_badrc"] = "Bad return code" in text
                obs["warn_timeout"] = "took to long" in text
        obs["tmp"] = len(os.listdir(tmpd))
        if os.path.exists(out_path):
            content = open(out_path, encoding="utf-8").read()
            obs["out"] = "old" if content == "OLD" else "new"
            obs["out_equals_lib"] = content == (ref_out.get("xform") or "")
        else:
            obs["out"] = "absent"
            obs["out_equals_lib"] = False
        ip = os.path.join(outd, "itemsets.csv")
        obs["itemsets"] = os.path.exists(ip) and open(ip, encoding="utf-8", newline="").read() == (ref_out.get("itemsets") or "")
        obs["called"] = os.path.exists(log)
        obs["sawfile"] = obs["called"] and "seen=1" in open(log).read()
        return obs
    finally:
        shutil.rmtree(root, ignore_errors=True)
