"""C05 / C04 / C17 / C20 (parameter decision table): concretise TypeParams.tla's cases as a one-row-under-test form, convert it with the
real converter and project the attribute facts the parameters put on that row's bind / body control / load action."""

from __future__ import annotations

import re
import xml.etree.ElementTree as ET

NS = {"h": "http://www.w3.org/1999/xhtml", "x": "http://www.w3.org/2002/xforms", "odk": "http://www.opendatakit.org/xforms",
      "orx": "http://openrosa.org/xforms", "jr": "http://openrosa.org/javarosa"}
PRE = {v: k for k, v in NS.items()}
KEYS = ["track-changes-reasons", "track-changes", "identify-user", "location-priority", "location-min-interval", "location-max-age", "start", "end", "step",
        "rows", "max-pixels", "app", "quality", "allow-mock-accuracy", "capture-accuracy", "warning-accuracy", "randomize", "seed", "bogus"]
OWNED = {("bind", "odk:track-changes"), ("bind", "odk:identify-user"), ("bind", "odk:track-changes-reasons"), ("bind", "odk:location-priority"),
         ("bind", "odk:location-min-interval"), ("bind", "odk:location-max-age"), ("control", "start"), ("control", "end"), ("control", "step"),
         ("control", "rows"), ("bind", "orx:max-pixels"), ("control", "intent"), ("bind", "odk:quality"), ("action", "odk:quality"),
         ("bind", "odk:allow-mock-accuracy"), ("control", "accuracyThreshold"), ("control", "unacceptableAccuracyThreshold")}
SEPS = [" ", ";", ",", "; "]


def cell_text(case, style=0):
    return SEPS[style % len(SEPS)].join(f"{k}={v}" for k, v in case["params"])


def frame(case, style=0):
    ty = case["type"]
    row = {"type": ty, "name": "p", "label": "P", "parameters": cell_text(case, style)}
    if ty in ("select_one", "select_multiple"):
        row["type"] = ty + " L"
    if ty == "audit":
        row.pop("name"); row.pop("label")
    if ty == "background-audio":
        row.pop("label")
    if ty == "image" and case["app"] != "none":
        row["appearance"] = case["app"]
    rows = [{"type": "text", "name": "q0", "label": "Q0"}, row, {"type": "text", "name": "q2", "label": "Q2"}]
    cols = ["type", "name", "label", "parameters", "appearance"]
    return {"sheets": [{"name": "survey", "header": cols, "rows": [[r.get(k) for k in cols] for r in rows]},
                       {"name": "choices", "header": ["list_name", "name", "label"], "rows": [["L", "a", "A"], ["L", "b", "B"]]}]}


def _qn(name):
    if name.startswith("{"):
        uri, local = name[1:].split("}")
        return f"{PRE.get(uri, uri)}:{local}"
    return name


def project(xform, path):
    root = ET.fromstring(xform.encode("utf-8"))
    facts = []
    rtype = "na"
    for b in root.iter(f"{{{NS['x']}}}bind"):
        if b.get("nodeset") == path:
            for a, v in b.attrib.items():
                if ("bind", _qn(a)) in OWNED:
                    facts.append(["bind", _qn(a), v])
            rtype = b.get("type", "na")
    randomized, seed = False, "none"
    body = root.find("h:body", NS)
    for el in body.iter():
        if el.get("ref") == path:
            for a, v in el.attrib.items():
                if ("control", _qn(a)) in OWNED:
                    facts.append(["control", _qn(a), v])
            for it in el.iter(f"{{{NS['x']}}}itemset"):
                ns = it.get("nodeset", "")
                m = re.match(r"^randomize\((.*)\)$", ns)
                if m:
                    randomized = True
                    inner = m.group(1)
                    mm = re.match(r"^(.*\))\s*,\s*(.*)$", inner) or re.match(r"^([^,]*),\s*(.*)$", inner)
                    if mm and mm.group(2).strip():
                        s = mm.group(2).strip()
                        seed = "ref" if s.strip() in ("/data/q0", "../q0") or s.strip().endswith("/q0") else s
    for el in root.iter():
        if el.tag in (f"{{{NS['odk']}}}recordaudio", f"{{{NS['odk']}}}setgeopoint") and el.get("ref") == path:
            for a, v in el.attrib.items():
                if ("action", _qn(a)) in OWNED:
                    facts.append(["action", _qn(a), v])
    return sorted(facts), rtype, randomized, seed


def run(job):
    from harness import conv, render
    from pyxform.errors import PyXFormError
    from pyxform.xls2xform import convert

    case = job["case"]
    wb = frame(case, job.get("style", 0))
    fmt = job.get("fmt", "dict")
    real = {"status": "ok", "message": "", "mentions": [], "row": False, "facts": [], "rtype": "na", "randomized": False, "seed": "none", "warn": False}
    try:
        inp, kw = render.render(wb, fmt)
        r = convert(xlsform=conv.materialise(inp), **kw)
    except PyXFormError as e:
        msg = str(e)
        low = msg.lower()
        ment = [k for k in KEYS if re.search(r"(?<![a-z-])" + re.escape(k) + r"(?![a-z-])", low)]
        real.update(status="pyxform_error", message=msg[:200], mentions=ment, row=bool(re.search(r"\[row : 3\]", msg)))
    except Exception as e:  # noqa: BLE001
        import sys

        real.update(status="crash:" + type(e).__name__, message=(str(e)[:120] + " @" + conv.innermost_pyxform_frame(sys.exc_info()[2])))
    else:
        path = "/data/meta/audit" if case["type"] == "audit" else "/data/p"
        facts, rtype, rnd, seed = project(r.xform, path)
        real.update(facts=facts, rtype=rtype if case["type"] == "range" else "na", randomized=rnd, seed=seed,
                    warn=any("max-pixels" in w for w in r.warnings))
    return {"job": job, "wb": wb, "trace": [{"ev": "typeparams", "case": case, "real": real}]}
