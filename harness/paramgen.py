"""C05 (parameter cells): run Parameters.tla's generated cells through the real parameters_generic.parse()."""

from __future__ import annotations


def run(job):
    from pyxform.errors import PyXFormError
    from pyxform.validators.pyxform import parameters_generic

    real = {"status": "ok", "pairs": [], "message": ""}
    try:
        d = parameters_generic.parse(job["text"])
        real["pairs"] = sorted([str(k), str(v)] for k, v in d.items())
    except PyXFormError as e:
        real.update(status="pyxform_error", message=str(e)[:120])
    except Exception as e:  # noqa: BLE001
        real.update(status="crash:" + type(e).__name__, message=str(e)[:120])
    return {"job": job, "trace": [{"ev": "params", "cell": job["cell"], "text": job["text"], "real": real}]}
