"""Oracle-side reading of an XForm: independent of pyxform (expat / ElementTree only).

Everything here *projects* the document into plain facts (lists, dicts, strings).
Deciding whether the facts satisfy a property is done by the TLA+ trace specifications.
"""

from __future__ import annotations

import re
import xml.etree.ElementTree as ET
from xml.parsers import expat

NS = {
    "http://www.w3.org/2002/xforms": "",
    "http://www.w3.org/1999/xhtml": "h",
    "http://www.w3.org/2001/xml-events": "ev",
    "http://openrosa.org/javarosa": "jr",
    "http://www.opendatakit.org/xforms": "odk",
    "http://openrosa.org/xforms": "orx",
    "http://www.w3.org/2001/XMLSchema": "xsd",
    "http://www.opendatakit.org/xforms/entities": "entities",
}
XF = "{http://www.w3.org/2002/xforms}"
H = "{http://www.w3.org/1999/xhtml}"


def qname(tag: str) -> str:
    """'{uri}local' -> 'prefix:local' using the conventional prefixes (unknown uri kept as {uri})."""
    if tag.startswith("{"):
        uri, local = tag[1:].split("}", 1)
        if uri in NS:
            p = NS[uri]
            return f"{p}:{local}" if p else local
        return "{" + uri + "}" + local
    return tag


def local(tag: str) -> str:
    return tag.split("}", 1)[1] if tag.startswith("{") else tag


def wellformed(text: str) -> dict:
    """Namespace-aware expat parse of the bytes; returns facts, never raises."""
    facts = {"parse_ok": False, "error": None, "n_roots": 0, "unbound": [], "n_decl": text.count("<?xml")}
    p = expat.ParserCreate(namespace_separator="\x1f")  # a character no well-formed document can contain
    depth = [0]
    roots = [0]

    def start(name, attrs):
        if depth[0] == 0:
            roots[0] += 1
        depth[0] += 1

    def end(name):
        depth[0] -= 1

    p.StartElementHandler = start
    p.EndElementHandler = end
    try:
        p.Parse(text.encode("utf-8"), True)
        facts["parse_ok"] = True
    except expat.ExpatError as e:
        facts["error"] = str(e)
        if "unbound prefix" in str(e):
            facts["unbound"] = ["?"]
    facts["n_roots"] = roots[0]
    return facts


def parse(text: str):
    return ET.fromstring(text.encode("utf-8"))


def _children(e):
    return list(e)


def skeleton(root) -> dict:
    """C01 skeleton facts."""
    f = {}
    f["root"] = qname(root.tag)
    kids = _children(root)
    f["root_children"] = [qname(k.tag) for k in kids]
    head = root.find(H + "head")
    f["head_children"] = [qname(k.tag) for k in _children(head)] if head is not None else []
    model = head.find(XF + "model") if head is not None else None
    f["n_model"] = len(head.findall(XF + "model")) if head is not None else 0
    f["n_title"] = len(head.findall(H + "title")) if head is not None else 0
    f["n_body"] = len(root.findall(H + "body"))
    insts = model.findall(XF + "instance") if model is not None else []
    f["n_instances"] = len(insts)
    if insts:
        first = insts[0]
        f["first_instance_attrs"] = sorted(qname(a) for a in first.attrib)
        f["first_instance_nchild"] = len(_children(first))
        kids = _children(first)
        f["primary_root_has_id"] = bool(kids) and "id" in kids[0].attrib
        f["primary_root_id"] = kids[0].attrib.get("id") if kids else None
        f["primary_root"] = local(kids[0].tag) if kids else None
        # index of first instance among instance children of model
        mk = [k for k in _children(model) if k.tag == XF + "instance"]
        f["primary_is_first_instance"] = mk[0] is first
    else:
        f["first_instance_attrs"] = []
        f["first_instance_nchild"] = 0
        f["primary_root_has_id"] = False
        f["primary_root"] = None
        f["primary_is_first_instance"] = False
    return f


def model_of(root):
    return root.find(H + "head").find(XF + "model")


def body_of(root):
    return root.find(H + "body")


def primary_root(root):
    inst = model_of(root).findall(XF + "instance")[0]
    return _children(inst)[0]


TEMPLATE_ATTR = "{http://openrosa.org/javarosa}template"


def instance_preorder(root) -> list:
    """Preorder list of primary-instance nodes: {p:[names], tmpl:bool, text:str, attrs:{..}, leaf:bool}.
    `tmpl` is true for a jr:template element and everything below it."""
    out = []

    def walk(e, path, tmpl):
        t = tmpl or (TEMPLATE_ATTR in e.attrib)
        p = path + [local(e.tag)]
        kids = _children(e)
        out.append(
            {
                "p": p,
                "tmpl": t,
                "text": (e.text or "") if not kids else "",
                "attrs": {qname(k): v for k, v in e.attrib.items() if k != TEMPLATE_ATTR},
                "leaf": not kids,
            }
        )
        for k in kids:
            walk(k, p, t)

    walk(primary_root(root), [], False)
    return out


def split_path(s: str):
    """'/a/b/c' -> ['a','b','c']; returns None when not a plain absolute element path.
    A trailing attribute step '/@x' is returned as '@x'."""
    s = s.strip()
    if not s.startswith("/"):
        return None
    parts = s[1:].split("/")
    for i, part in enumerate(parts):
        if part.startswith("@") and i == len(parts) - 1 and re.fullmatch(r"@[\w:.\-]+", part):
            continue
        if not re.fullmatch(r"[\w.\-]+", part):
            return None
    return parts


def binds(root) -> list:
    out = []
    for b in model_of(root).findall(XF + "bind"):
        attrs = {qname(k): v for k, v in b.attrib.items()}
        out.append({"nodeset": attrs.pop("nodeset", None), "attrs": attrs})
    return out


def _text_pieces(e) -> list:
    """Mixed content of an element as pieces: ['t', text] / ['o', value-of-output] / ['e', tag]."""
    pieces = []
    if e.text:
        pieces.append(["t", e.text])
    for k in _children(e):
        if k.tag == XF + "output":
            pieces.append(["o", k.attrib.get("value", "")])
        else:
            pieces.append(["e", qname(k.tag)])
        if k.tail:
            pieces.append(["t", k.tail])
    return pieces


CONTROL_TAGS = {"input", "select", "select1", "upload", "trigger", "range", "group", "repeat", "odk:rank"}


def body_preorder(root) -> list:
    """Preorder list of body controls with nesting path (indices of control ancestors)."""
    out = []

    def walk(e, anc):
        for k in _children(e):
            t = qname(k.tag)
            if t in CONTROL_TAGS:
                rec = {
                    "tag": t,
                    "ref": k.attrib.get("ref"),
                    "nodeset": k.attrib.get("nodeset"),
                    "attrs": {qname(a): v for a, v in k.attrib.items() if a not in ("ref", "nodeset")},
                    "anc": list(anc),
                    "label": None,
                    "hint": None,
                    "itemset": None,
                    "items": [],
                    "actions": [],
                }
                for c in _children(k):
                    ct = qname(c.tag)
                    if ct == "label":
                        rec["label"] = {"ref": c.attrib.get("ref"), "pieces": _text_pieces(c)}
                    elif ct == "hint":
                        rec["hint"] = {"ref": c.attrib.get("ref"), "pieces": _text_pieces(c)}
                    elif ct == "itemset":
                        v = c.find(XF + "value")
                        lb = c.find(XF + "label")
                        rec["itemset"] = {
                            "nodeset": c.attrib.get("nodeset"),
                            "value": v.attrib.get("ref") if v is not None else None,
                            "label": lb.attrib.get("ref") if lb is not None else None,
                        }
                    elif ct == "item":
                        v = c.find(XF + "value")
                        lb = c.find(XF + "label")
                        rec["items"].append(
                            {
                                "value": (v.text or "") if v is not None else None,
                                "label": {"ref": lb.attrib.get("ref"), "pieces": _text_pieces(lb)} if lb is not None else None,
                            }
                        )
                    elif ct in ("setvalue", "odk:setgeopoint"):
                        rec["actions"].append({"tag": ct, **{qname(a): v for a, v in c.attrib.items()}})
                idx = len(out)
                out.append(rec)
                walk(k, anc + [idx])
            elif t in ("label", "hint", "itemset", "item", "setvalue", "odk:setgeopoint", "tag"):
                continue
            else:
                walk(k, anc)

    walk(body_of(root), [])
    return out


def model_actions(root) -> list:
    out = []
    for k in _children(model_of(root)):
        t = qname(k.tag)
        if t in ("setvalue", "odk:setgeopoint", "odk:recordaudio") or t.startswith("odk:"):
            out.append({"tag": t, **{qname(a): v for a, v in k.attrib.items()}})
    return out


def all_setvalues(root) -> list:
    """Every setvalue/setgeopoint anywhere with location info."""
    out = []
    model = model_of(root)
    for k in _children(model):
        t = qname(k.tag)
        if t in ("setvalue", "odk:setgeopoint"):
            out.append({"tag": t, "where": "model", "parent_ref": None, "repeat": None, **{qname(a): v for a, v in k.attrib.items()}})

    def walk(e, repeat, ctrl):
        for k in _children(e):
            t = qname(k.tag)
            if t in ("setvalue", "odk:setgeopoint"):
                out.append(
                    {
                        "tag": t,
                        "where": "body",
                        "parent_tag": qname(e.tag),
                        "parent_ref": e.attrib.get("ref") or e.attrib.get("nodeset"),
                        "repeat": repeat,
                        **{qname(a): v for a, v in k.attrib.items()},
                    }
                )
            elif t == "repeat":
                walk(k, k.attrib.get("nodeset"), k)
            else:
                walk(k, repeat, k)

    walk(body_of(root), None, None)
    return out


def secondary_instances(root) -> list:
    out = []
    insts = model_of(root).findall(XF + "instance")
    for inst in insts[1:]:
        rec = {"id": inst.attrib.get("id"), "src": inst.attrib.get("src"), "items": None}
        kids = _children(inst)
        if kids:
            items = []
            for it in _children(kids[0]):
                items.append([[local(c.tag), c.text or ""] for c in _children(it)])
            rec["items"] = items
            rec["root"] = local(kids[0].tag)
        out.append(rec)
    return out


def itext(root) -> dict:
    """{langs:[...], default:[...], texts:{lang:{id:[{form, pieces}]}}, dup_langs, dup_ids}"""
    model = model_of(root)
    it = model.find(XF + "itext")
    res = {"present": it is not None, "langs": [], "default": [], "texts": {}, "dup_ids": []}
    if it is None:
        return res
    for tr in it.findall(XF + "translation"):
        lang = tr.attrib.get("lang")
        res["langs"].append(lang)
        if "default" in tr.attrib:
            res["default"].append(lang)
        d = res["texts"].setdefault(lang, {})
        for tx in tr.findall(XF + "text"):
            i = tx.attrib.get("id")
            if i in d:
                res["dup_ids"].append([lang, i])
            d[i] = [{"form": v.attrib.get("form"), "pieces": _text_pieces(v)} for v in tx.findall(XF + "value")]
    return res


RE_ITEXT = re.compile(r"jr:itext\('([^']*)'\)")


def itext_refs(root) -> list:
    """All jr:itext('id') occurrences in any attribute of the document + where."""
    out = []
    for e in root.iter():
        for a, v in e.attrib.items():
            for m in RE_ITEXT.finditer(v):
                out.append({"id": m.group(1), "tag": qname(e.tag), "attr": qname(a)})
    return out


def all_attr_values(root):
    for e in root.iter():
        for a, v in e.attrib.items():
            yield qname(e.tag), qname(a), v
        if e.text:
            yield qname(e.tag), "#text", e.text
        if e.tail:
            yield qname(e.tag), "#tail", e.tail


def canon_tree(e, strip_ws=True):
    """Canonical nested tuple of an element for tree-equality (C13/C15/C16)."""
    kids = _children(e)
    own_text = (e.text or "") + "".join(k.tail or "" for k in kids)
    has_text = own_text.strip() != ""
    pieces = []

    def addt(t):
        if t is None:
            return
        if has_text or not strip_ws:
            pieces.append(("t", t))
        elif t.strip():
            pieces.append(("t", t))

    addt(e.text)
    for k in kids:
        pieces.append(("e", canon_tree(k, strip_ws)))
        addt(k.tail)
    return (qname(e.tag), tuple(sorted((qname(a), v) for a, v in e.attrib.items())), tuple(pieces))
