"""C13: base forms, concrete implementations of the catalogued transformations, canonical comparison."""

from __future__ import annotations

import copy
import random
import re

from harness import project

EN, FR = "English (en)", "French (fr)"


def _sheet(name, header, rows):
    return {"name": name, "header": list(header), "rows": [[r.get(h) for h in header] for r in rows]}


def bases():
    b1s = [
        {"type": "text", "name": "q1", "label": "Q1 'one'", f"label::{FR}": "Q1 fr \"un\"", "hint": "H1 it's", "required": "yes", "relevant": "${q2} = 'a' or ${q2} = \"b\"", "image": "q1.png"},
        {"type": "integer", "name": "q2", "label": "Q2", f"label::{FR}": "Q2 fr", "constraint": ". > 0 and . != 7", "constraint_message": "Positive please"},
        {"type": "select_one L", "name": "s1", "label": "S1", f"label::{FR}": "S1 fr"},
        {"type": "select_multiple M", "name": "s2", "label": "S2", f"label::{FR}": "S2 fr", "relevant": "selected(${s1}, 'l1')"},
        {"type": "begin group", "name": "g1", "read_only": "yes"},
        {"type": "note", "label": "A note", f"label::{FR}": "Une note"},
        {"type": "image", "name": "p1", "label": "P1", f"label::{FR}": "P1 fr"},
        {"type": "end group"},
        {"type": "begin repeat", "name": "r1", "label": "R1", f"label::{FR}": "R1 fr", "required": "yes"},
        {"type": "calculate", "name": "c1", "calculation": "concat('a', ${q1})"},
        {"type": "text", "name": "q3", "label": "Q3", f"label::{FR}": "Q3 fr", "read_only": "yes", "hint": "H3"},
        {"type": "end repeat"},
        {"type": "date", "name": "d1", "label": "D1", f"label::{FR}": "D1 fr"},
    ]
    h1 = ["type", "name", "label", f"label::{FR}", "hint", "required", "relevant", "constraint", "constraint_message", "calculation", "read_only", "image"]
    c1 = [{"list_name": "L", "name": "l1", "label": "L1 it's", f"label::{FR}": "L1 fr c'est \"un\""}, {"list_name": "L", "name": "l2", f"label::{FR}": "L2 fr"},
          {"list_name": "M", "name": "m1", "label": "M1", f"label::{FR}": "M1 fr"}, {"list_name": "M", "name": "m2", "label": "M2", f"label::{FR}": "M2 fr"},
          {"list_name": "M", "name": "m3", "label": "M3", f"label::{FR}": "M3 fr"}]
    st = [{"form_title": "Base One", "form_id": "base_one", "version": "2024"}]
    base1 = {"sheets": [_sheet("survey", h1, b1s), _sheet("choices", ["list_name", "name", "label", f"label::{FR}"], c1), _sheet("settings", ["form_title", "form_id", "version"], st)]}
    b2s = [
        {"type": "begin group", "name": "tg", "label": "Table", "appearance": "table-list"},
        {"type": "select_one L", "name": "a1", "label": "A1"},
        {"type": "select_one L", "name": "a2", "label": "A2"},
        {"type": "end group"},
        {"type": "text", "name": "t1", "label": "T1", "default": "x", "disabled": "no"},
        {"type": "text", "name": "t_off", "label": "Off", "disabled": "yes"},
        {"type": "select_one_external X", "name": "e1", "label": "E1", "choice_filter": "state=${t1}"},
        {"type": "acknowledge", "name": "k1", "label": "K1"},
        {"type": "note", "label": "N"},
        {"type": "range", "name": "rg", "label": "RG", "parameters": "start=1 end=5 step=1"},
    ]
    h2 = ["type", "name", "label", "appearance", "default", "choice_filter", "parameters", "disabled"]
    c2 = [{"list_name": "L", "name": "l1", "label": "L1"}, {"list_name": "L", "name": "l2", "label": "L2"}, {"list_name": "L", "name": "l3"}, {"list_name": "M", "name": "m1", "label": "M1"},
          {"list_name": "M", "name": "m1", "label": "M1 again"}]  # l3: no label -> a choices-sheet warning with a row number; m1 twice: needs allow_choice_duplicates
    x2 = [{"list_name": "X", "name": "x1", "label": "X1", "state": "s1"}, {"list_name": "X", "name": "x2", "label": "X2", "state": "s2"}]
    base2 = {"sheets": [_sheet("survey", h2, b2s), _sheet("choices", ["list_name", "name", "label"], c2), _sheet("external_choices", ["list_name", "name", "label", "state"], x2),
                        _sheet("settings", ["form_title", "form_id", "allow_choice_duplicates"], [{"form_title": "Base Two", "form_id": "base_two", "allow_choice_duplicates": "yes"}])]}
    L = lambda t: {f"label::{EN}": t, f"label::{FR}": t + " fr"}  # noqa: E731
    b3s = [
        {"type": "text", "name": "n1", **L("N1"), f"hint::{EN}": "hint one"},
        {"type": "select_one L", "name": "n2", **L("N2")},
        {"type": "begin group", "name": "gg", **L("GG"), "required": "TRUE"},
        {"type": "integer", "name": "n3", **L("N3"), "required": "TRUE"},
        {"type": "decimal", "name": "n4", **L("N4"), "relevant": "${n3} > 1"},
        {"type": "end group"},
        {"type": "image", "name": "n5", **L("N5"), "parameters": "max-pixels=100", f"image::{EN}": "n5.png"},
        {"type": "geopoint", "name": "n6", **L("N6")},
        {"type": "calculate", "name": "n7", "calculation": "if(${n3} > 1, 'big', 'small')"},
        {"type": "text", "name": "n8", **L("N8"), "constraint": "regex(., '^[a-z]+$')"},
    ]
    h3 = ["type", "name", f"label::{EN}", f"label::{FR}", f"hint::{EN}", "required", "relevant", "constraint", "calculation", "parameters", f"image::{EN}"]
    c3 = [{"list_name": x, "name": f"{x.lower()}{i}", **L(f"{x}{i} 'q'")} for x in ("L", "M") for i in (1, 2, 3)]
    base3 = {"sheets": [_sheet("survey", h3, b3s), _sheet("choices", ["list_name", "name", f"label::{EN}", f"label::{FR}"], c3),
                        _sheet("settings", ["form_title", "form_id", "default_language"], [{"form_title": "Base Three", "form_id": "base_three", "default_language": EN}])]}
    # base 4: the survey is the only sheet (the single-sheet fallback of the Excel readers must not be disturbed by an added _sheet)
    b4s = [{"type": "text", "name": "u1", "label": "U1"}, {"type": "integer", "name": "u2", "label": "U2", "relevant": "${u1} != ''"}, {"type": "note", "name": "u3", "label": "U3 ${u2}"}]
    base4 = {"sheets": [_sheet("survey", ["type", "name", "label", "relevant"], b4s)]}
    return [base1, base2, base3, base4]


ALIAS = {
    "survey": {"relevant": "relevance", "calculation": "calculate", "label": "caption", "read_only": "readonly", "constraint_message": "constraining_message", "image": "media::image", "name": "value"},
    "choices": {"list_name": "list name", "label": "caption", "name": "value"},
    "settings": {"form_id": "id_string", "form_title": "title"},
}
TYPES = {"select_one": ["select one", "select1"], "select_multiple": ["select all that apply"], "integer": ["int"], "begin group": ["begin_group"], "end group": ["end_group"],
         "begin repeat": ["begin_repeat"], "end repeat": ["end_repeat"], "image": ["photo"], "text": ["string"], "geopoint": ["gps", "location"],
         "date": ["add date prompt"], "decimal": ["add decimal prompt"], "calculate": ["add calculate prompt"]}
TRUTH = {"yes": ["true()", "TRUE", "True", "Yes", "true", "YES"], "TRUE": ["yes", "true()", "True"]}


def _split(h):
    """header -> (column part, rest incl. the language delimiter); 'media::image::lang' keeps 'media::image' as column part"""
    low = h.lower().lstrip()
    if low.startswith(("media::", "bind::", "body::", "instance::")):
        parts = h.split("::")
        return "::".join(parts[:2]), ("::" + "::".join(parts[2:]) if len(parts) > 2 else "")
    m = re.search(r"\s*::?\s*", h)
    if m and m.start() > 0:
        return h[:m.start()], h[m.start():]
    return h, ""


def _sheet_of(wb, s):
    for sh in wb["sheets"]:
        if sh["name"].lower() == s:
            return sh
    return None


def apply_steps(wb, steps, seed):
    """Perform the composition on a copy of the workbook. Blank rows use original coordinates (inserted last, descending)."""
    wb = copy.deepcopy(wb)
    rnd = random.Random(f"layout:{seed}:{steps}")
    blanks = {"survey": [], "choices": []}
    for st in steps:
        k, s = st["k"], st["s"]
        sh = _sheet_of(wb, s) if s != "workbook" else None
        if k == "blank_row":
            blanks[s].append(st["at"])
            continue
        if s != "workbook" and sh is None:
            continue
        if k == "header_case":
            style = rnd.choice(["title", "upper"])
            nh = []
            for h in sh["header"]:
                c, rest = _split(h)
                # (the deprecated 'disabled' column is matched literally by the row loop: it is not one of the documented, case-insensitive columns)
                if c.startswith("media") or c.startswith("bind") or c.strip().lower() == "disabled":
                    nh.append(h)
                    continue
                nh.append((c.title() if style == "title" else c.upper()) + rest)
            sh["header"] = nh
        elif k == "header_spaces":
            nh = []
            for h in sh["header"]:
                c, rest = _split(h)
                c2 = c.replace("_", " ") if c not in ("list_name",) or rnd.random() < 0.5 else c
                nh.append((" " + c2 + " " if not rest else c2 + rest + " "))
            sh["header"] = nh
        elif k == "column_alias":
            # a sheet that spells its language delimiter ':' must not gain a '::' header (pyxform then splits every header on '::' only)
            single_colon_sheet = any(isinstance(h, str) and re.search(r"(?<!:):(?!:)", h) for h in sh["header"])
            nh = []
            for h in sh["header"]:
                c, rest = _split(h)
                key = c.strip().lower().replace(" ", "_")
                a = ALIAS[s].get(key)
                # 'name'->'value' only on choices; keep survey 'name' (alias 'value' exists for survey too but 'tag' is clearer to leave)
                if a and not (s == "survey" and key == "name") and not (a.startswith("media::") and single_colon_sheet):
                    nh.append(a + rest)
                else:
                    nh.append(h)
            sh["header"] = nh
        elif k == "delimiter":
            style = rnd.choice([":", " :: ", " : "])
            if style in (":", " : ") and any(h.count("::") > 1 or h.lower().lstrip().startswith(("media::", "bind::", "media ::")) for h in sh["header"]):
                style = " :: "
            sh["header"] = [h.replace("::", style) if "::" in h else h for h in sh["header"]]
        elif k == "type_alias":
            ti = _col(sh, "type")
            for r in sh["rows"]:
                t = r[ti]
                if not isinstance(t, str):
                    continue
                for base, alts in TYPES.items():
                    if t == base or t.startswith(base + " "):
                        if rnd.random() < 0.8:
                            r[ti] = rnd.choice(alts) + t[len(base):]
                        break
        elif k == "truth_spelling":
            # bind flags (BINDING_CONVERSIONS) and sheet-level flags (aliases.yes_no): the disabled column, settings switches
            for cname in ("required", "read_only", "readonly", "relevant", "disabled", "allow_choice_duplicates", "omit_instanceid", "omit_instanceID"):
                ci = _col(sh, cname)
                if ci is None:
                    continue
                for r in sh["rows"]:
                    if r[ci] in TRUTH:
                        r[ci] = rnd.choice(TRUTH[r[ci]])
        elif k == "smart_quotes":
            for cname in ("relevant", "relevance", "constraint", "calculation", "calculate"):
                ci = _col(sh, cname)
                if ci is None:
                    continue
                for r in sh["rows"]:
                    if isinstance(r[ci], str):
                        r[ci] = re.sub(r"'([^']*)'", "‘\\1’", r[ci])
                        r[ci] = re.sub(r'"([^"]*)"', "“\\1”", r[ci])
            # text cells (labels, hints; plain and translated columns, survey and choices): apostrophes and quotation marks
            for ci, h in enumerate(sh["header"]):
                if isinstance(h, str) and re.match(r"\s*(label|hint|caption)\b", h, re.I):
                    for r in sh["rows"]:
                        if ci < len(r) and isinstance(r[ci], str):
                            t = re.sub(r'"([^"]*)"', "“\\1”", r[ci])
                            t = re.sub(r"(?<!\w)'([^']*)'(?!\w)", "‘\\1’", t)
                            r[ci] = t.replace("'", "’")
        elif k == "pad_cells":
            for r in sh["rows"]:
                for i, c in enumerate(r):
                    if isinstance(c, str) and c and rnd.random() < 0.6:
                        r[i] = rnd.choice(["  ", " ", "\t"]) + c + rnd.choice(["  ", " "])
            if s == "survey":
                # runs of blanks inside expression cells too (outside string literals: the bases have no blanks inside literals)
                for cname in ("relevant", "relevance", "constraint", "calculation", "calculate", "constraint_message", "constraining_message", "choice_filter"):
                    ci = _col(sh, cname)
                    if ci is not None:
                        for r in sh["rows"]:
                            if isinstance(r[ci], str) and " " in r[ci].strip() and rnd.random() < 0.7:
                                i0 = r[ci].strip().index(" ")
                                t = r[ci].strip()
                                r[ci] = t[:i0] + rnd.choice(["  ", "   ", "    "]) + t[i0 + 1:]
                for cname in ("label", "hint", "caption"):
                    ci = _col(sh, cname)
                    if ci is not None:
                        for r in sh["rows"]:
                            if isinstance(r[ci], str) and " " in r[ci].strip():
                                r[ci] = r[ci].replace(" ", "   ", 1) if r[ci].strip().count(" ") else r[ci]
        elif k == "permute_columns":
            idx = list(range(len(sh["header"])))
            rnd.shuffle(idx)
            sh["header"] = [sh["header"][i] for i in idx]
            sh["rows"] = [[r[i] if i < len(r) else None for i in idx] for r in sh["rows"]]
        elif k == "unknown_column":
            sh["header"].append("zzz_comment" if s == "survey" else "zzz_setting")
            for i, r in enumerate(sh["rows"]):
                r.append(f"remark {i}" if i % 2 == 0 else None)
        elif k == "sheet_name_case":
            sh["name"] = rnd.choice([sh["name"].capitalize(), sh["name"].upper()])
        elif k == "permute_sheets":
            rnd.shuffle(wb["sheets"])
        elif k == "foreign_sheet":
            wb["sheets"].insert(rnd.randint(0, len(wb["sheets"])), {"name": "notes for translators", "header": ["a", "b"], "rows": [["x", "y"], ["type", "text"]]})
        elif k == "underscore_sheet":
            wb["sheets"].append({"name": "_setings", "header": ["form_title"], "rows": [["ignored"]]})
    for s, ps in blanks.items():
        sh = _sheet_of(wb, s)
        for p in sorted(ps, reverse=True):
            sh["rows"].insert(p - 1, [None] * len(sh["header"]))
    return wb


def _col(sh, name):
    for i, h in enumerate(sh["header"]):
        if isinstance(h, str) and h.strip().lower().replace(" ", "_") == name:
            return i
    return None


GEN_NAME = re.compile(r"(generated_note_name_|generated_table_list_label_|reserved_name_for_field_list_labels_)(\d+)")


def canon(xform, shift=None):
    """canonical digest-able form of an XForm; `shift` maps survey row numbers embedded in generated names"""
    if shift:
        xform = GEN_NAME.sub(lambda m: m.group(1) + str(shift.get(int(m.group(2)), int(m.group(2)))), xform)
    root = project.parse(xform)
    model = project.model_of(root)
    it = model.find(project.XF + "itext")
    if it is not None:
        trs = sorted(list(it), key=lambda e: e.attrib.get("lang", ""))
        for t in list(it):
            it.remove(t)
        for t in trs:
            texts = sorted(list(t), key=lambda e: e.attrib.get("id", ""))
            for x in list(t):
                t.remove(x)
            for x in texts:
                vals = sorted(list(x), key=lambda e: e.attrib.get("form", ""))
                for v in list(x):
                    x.remove(v)
                x.extend(vals)
            t.extend(texts)
        it.extend(trs)
    return repr(project.canon_tree(root))


def warn_facts(warnings):
    out = []
    for w in warnings or []:
        m = re.match(r"\[row : (\d+)\]\s*", w)
        row = int(m.group(1)) if m else 0
        text = w[m.end():] if m else w
        sheet = "choices" if "'choices' sheet" in text else ("survey" if row else "")
        text = GEN_NAME.sub(lambda mm: mm.group(1) + "N", text)
        text = re.sub(r"\s+", " ", re.sub(r"\{[^}]*\}", "{..}", text)).strip()
        out.append([sheet, row, text])
    return out
