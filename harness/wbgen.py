"""C12: real workbooks for the reader machines, typed cells and the delivery matrix."""

from __future__ import annotations

import hashlib
import os
import re
import shutil
import tempfile

from harness import project, render

NBSP = " "


def rle_to_pattern(runs, trail, lead_data=0):
    """runs: empty-run length before each data entry; trail: trailing empties -> list of booleans"""
    pat = [True] * lead_data
    for r in runs:
        pat += [False] * r + [True]
    pat += [False] * trail
    return pat


def rows_workbook(pattern):
    rows = []
    for k, d in enumerate(pattern, start=1):
        rows.append(["image", f"r{k}", f"R{k}"] if d else [None, None, None])
    return {"sheets": [{"name": "survey", "header": ["type", "name", "label"], "rows": rows}]}


def cols_workbook(pattern):
    """pattern[0:3] are type/name/label; later TRUE entries are bind::c<k> columns"""
    hdr, row = [], []
    base = ["type", "name", "label"]
    vals = ["text", "q1", "Q1"]
    for k, d in enumerate(pattern, start=1):
        if k <= 3:
            hdr.append(base[k - 1])
            row.append(vals[k - 1])
        elif d:
            hdr.append(f"bind::c{k}")
            row.append(f"v{k}")
        else:
            hdr.append(None)
            row.append(None)
    return {"sheets": [{"name": "survey", "header": hdr, "rows": [row]}]}


def observe_rows(res):
    kept, pos = [], []
    if res["status"] == "ok":
        root = project.parse(res["xform"])
        for n in project.instance_preorder(root):
            m = re.fullmatch(r"r(\d+)", n["p"][-1]) if len(n["p"]) == 2 else None
            if m:
                kept.append(int(m.group(1)))
        for w in res.get("warnings") or []:
            m = re.match(r"\[row : (\d+)\] Use the max-pixels", w)
            if m:
                pos.append(int(m.group(1)) - 1)
    return kept, pos


def observe_cols(res):
    kept = []
    if res["status"] == "ok":
        root = project.parse(res["xform"])
        for b in project.binds(root):
            if b["nodeset"] == "/data/q1":
                for a, v in b["attrs"].items():
                    m = re.fullmatch(r"c(\d+)", a)
                    if m and v == f"v{m.group(1)}":
                        kept.append(int(m.group(1)))
    return sorted(kept)


TYPED = [
    {"t": "int", "n": 0}, {"t": "int", "n": 7}, {"t": "int", "n": 2024010101}, {"t": "intfloat", "n": 3}, {"t": "intfloat", "n": 1000000},
    {"t": "intfloat", "n": 2024010101}, {"t": "decimal", "s": "2.5"}, {"t": "decimal", "s": "0.1"}, {"t": "decimal", "s": "1234.5678"}, {"t": "decimal", "s": "0.001"},
    {"t": "decimal", "s": "-1.292103456789123"}, {"t": "decimal", "s": "36.12345678901234"},   # 16 significant digits (the xlsx writer itself keeps 16)
    {"t": "bool", "b": True}, {"t": "bool", "b": False},
    {"t": "text", "s": "padded", "raw": "  padded  "}, {"t": "text", "s": "a b", "raw": f"a{NBSP}b"}, {"t": "text", "s": "x", "raw": f"{NBSP} x{NBSP}"},
    {"t": "text", "s": "007", "raw": "007"}, {"t": "text", "s": "TRUE", "raw": "TRUE"}, {"t": "text", "s": "2.50", "raw": "2.50"}, {"t": "text", "s": "tab sep", "raw": "tab sep\t"},
]


def typed_value(c):
    if c["t"] == "int":
        return c["n"]
    if c["t"] == "intfloat":
        return float(c["n"])
    if c["t"] == "decimal":
        return float(c["s"])
    if c["t"] == "bool":
        return c["b"]
    return c["raw"]


def cells_workbook():
    hdr = ["type", "name", "label"] + [f"bind::c{k}" for k in range(1, len(TYPED) + 1)]
    row = ["text", "q1", "Q1"] + [typed_value(c) for c in TYPED]
    return {"sheets": [{"name": "survey", "header": hdr, "rows": [row]}]}


def observe_cells(res):
    out = []
    attrs = {}
    if res["status"] == "ok":
        root = project.parse(res["xform"])
        for b in project.binds(root):
            if b["nodeset"] == "/data/q1":
                attrs = b["attrs"]
    for k, c in enumerate(TYPED, start=1):
        cell = {kk: v for kk, v in c.items() if kk != "raw"}
        out.append({"cell": cell, "seen": attrs.get(f"c{k}", "<absent>")})
    return out


def deliver(wb, f, d, ft, tmpdir, stem="data"):
    """-> (input object for convert(), kwargs, closer)"""
    if f == "dict":
        return render.to_dict(wb), {}, None
    if f == "dict_rows":
        # rows only - for every sheet in which each header column has at least one cell (a column that is empty in every row
        # exists only through the header row, and its presence matters, e.g. to the missing-translation notice)
        d0 = render.to_dict(wb)
        for k in [k for k in d0 if k.endswith("_header")]:
            rows = d0.get(k[: -len("_header")]) or []
            cols = [h for hd in d0[k] for h in hd]
            if rows and all(any(h in r for r in rows) for h in cols):
                del d0[k]
        return d0, {}, None
    data = {"md": render.to_md, "csv": render.to_csv, "csv_ragged": render.to_csv_ragged, "xls": render.to_xls, "xlsx": render.to_xlsx, "xlsm": render.to_xlsx}[f](wb)
    raw = data.encode("utf-8") if isinstance(data, str) else data
    f = "csv" if f == "csv_ragged" else f
    kw = {"file_type": "." + f} if ft else {}
    if d == "str":
        return data, kw, None
    if d == "bytes":
        return raw, kw, None
    if d == "bytesio":
        import io

        return io.BytesIO(raw), kw, None
    if d == "bytesio_end":
        import io

        b = io.BytesIO()
        b.write(raw)            # position is at the end, as after workbook.save(stream)
        return b, kw, None
    if d == "bytesio_twice":
        import io

        from pyxform.xls2xform import convert

        b = io.BytesIO(raw)
        try:
            convert(xlsform=b, **kw)        # the caller converts the same stream object a second time
        except Exception:  # noqa: BLE001
            pass
        return b, kw, None
    if d in ("path_stem", "path_stem_odd"):
        p = os.path.join(tmpdir, f"census.{f}" if d == "path_stem" else f"census.{f.upper()}")
        with open(p, "wb") as fh:
            fh.write(raw)
        return p, kw, None
    p = os.path.join(tmpdir, f"{stem}.{f}")
    with open(p, "wb") as fh:
        fh.write(raw)
    if d == "path":
        return p, kw, None
    fh = open(p, "rb")
    return fh, kw, fh.close


def digest(x):
    return hashlib.sha1(repr(x).encode("utf-8")).hexdigest()[:16]


def canon_itemsets(text):
    """itemsets CSV with its columns sorted by header name (content without column order)"""
    import csv
    import io

    if not text:
        return text
    rows = list(csv.reader(io.StringIO(text)))
    if not rows:
        return text
    order = sorted(range(len(rows[0])), key=lambda i: rows[0][i])
    return [[r[i] if i < len(r) else "" for i in order] for r in rows]


def canon_xform(xform):
    """XForm text with the children of every secondary-instance <item> sorted by tag (content without choice-column order)"""
    import re

    if not xform:
        return xform

    def fix(m):
        kids = re.findall(r"<([A-Za-z_][\w.\-:]*)(?:\s[^>]*)?(?:/>|>.*?</\1>)", m.group(2), re.S)
        parts = [x.group(0) for x in re.finditer(r"<([A-Za-z_][\w.\-:]*)(?:\s[^>]*)?(?:/>|>.*?</\1>)", m.group(2), re.S)]
        if len(parts) != len(kids):
            return m.group(0)
        return m.group(1) + "".join(sorted(parts)) + m.group(3)

    return re.sub(r"(<item>)(.*?)(</item>)", fix, xform, flags=re.S)
