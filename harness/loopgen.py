"""Loops (Loop.tla): concretise a loop case, convert it, project the expansion and the C02 facts."""

from __future__ import annotations

import re

PIECE = {"lit": "text", "name": "%(name)s", "label": "%(label)s", "pct2": "%%", "pct": "%"}


def build(case):
    tr = bool(case.get("translated"))

    def lab(t, fr=None):
        return {"label::English (en)": t, "label::French (fr)": (fr if fr is not None else t)} if tr else {"label": t}

    rows = [{"type": "text", "name": "q0", **lab("Q0")}]
    if case["where"] == "group":
        rows.append({"type": "begin group", "name": "og", **lab("OG")})
    elif case["where"] == "repeat":
        rows.append({"type": "begin repeat", "name": "orp", **lab("ORP")})
    rows.append({"type": "begin loop over L", "name": "lp", **lab("LP")})
    if case["grp"] != "no":
        rows.append({"type": "begin group", "name": "ig_%(name)s" if case["grp"] == "named" else "ig", **lab("IG %(label)s")})
    for r in case["rows"]:
        text = "".join(PIECE[p] for p in r["text"])
        rows.append({"type": "text", "name": r["name"], **lab(text)})
    if case["grp"] != "no":
        rows.append({"type": "end group"})
    rows.append({"type": "end loop"})
    if case["where"] == "group":
        rows.append({"type": "end group"})
    elif case["where"] == "repeat":
        rows.append({"type": "end repeat"})
    cols = []
    for r in rows:
        for k in r:
            if k not in cols:
                cols.append(k)
    ch = [{"list_name": "L", "name": c, **lab("Label " + c)} for c in case["choices"]]
    ccols = ["list_name", "name"] + [k for k in ch[0] if k not in ("list_name", "name")]
    return {"sheets": [{"name": "survey", "header": cols, "rows": [[r.get(c) for c in cols] for r in rows]},
                       {"name": "choices", "header": ccols, "rows": [[c.get(k) for k in ccols] for c in ch]}]}


def run_case(case):
    from harness import conv, project, render, rowtrace

    wb = build(case)
    inp, kw = render.render(wb, "dict")
    res = conv.convert_case({"input": inp, "kwargs": kw, "events": False, "allow_malformed": True})
    real = {"status": res["status"] if res["status"] in ("ok", "pyxform_error") else "crash:" + str(res.get("errclass")), "paths": [], "labels": [], "message": (res.get("message") or "")[:200]}
    obs = {"inst": [], "body": [], "binds": [], "actions": [], "setv": [], "root": ""}
    if res["status"] == "ok":
        obs = rowtrace.observe(res["xform"])
        plain = [n["p"] for n in obs["inst"] if n["t"] == "no"]
        real["paths"] = [p for p in plain if p[0] in ("og", "orp", "lp")]
        root = project.parse(res["xform"])
        it = project.itext(root)
        body = {c["ref"]: c for c in project.body_preorder(root)}
        pre = {"top": [], "group": ["og"], "repeat": ["orp"]}[case["where"]]

        def shown(ref):
            c = body.get(ref)
            if not c or not c["label"]:
                return None
            m = re.match(r"jr:itext\('([^']*)'\)", c["label"]["ref"] or "")
            if m:
                lang = it["langs"][0] if it["langs"] else None
                vals = [v for v in it["texts"].get(lang, {}).get(m.group(1), []) if not v["form"]]
                return "".join(p[1] for p in vals[0]["pieces"]) if vals else None
            return "".join(p[1] for p in c["label"]["pieces"])

        for c in [x for x in case["choices"] if x != "none"]:
            base = pre + ["lp", c] + ([("ig_" + c) if case["grp"] == "named" else "ig"] if case["grp"] != "no" else [])
            real["labels"].append([shown("/" + "/".join([obs["root"]] + base + [r["name"]])) or "?" for r in case["rows"]])
    cfg = {"lists": ["L"], "formname": obs["root"] or "data", "omitid": False, "iname": False, "entity": False, "entlabel": False}
    free = [{"ev": "init", "cfg": cfg, "nwarn0": 0}, {"ev": "free", "status": real["status"], "obs": obs}]
    loop = [{"ev": "loop", "choices": case["choices"], "rows": case["rows"], "where": case["where"], "grp": case["grp"], "real": real}]
    return {"job": case, "wb": wb, "free": free, "loop": loop, "status": real["status"]}
