"""Build RowParser traces (init / row* / rows_done / end) from a recorded execution."""

from __future__ import annotations

from harness import abstract, project
from harness.render import canon_cell

YES = abstract.YES


def wb_cfg(wb, form_name=None) -> dict:
    """Form-level facts the row parser depends on, read from the abstract workbook (source side)."""
    lists = []
    settings = {}
    entity = False
    entlabel = False
    for s in wb["sheets"]:
        nm = s["name"].lower()
        hdr = [h.strip().lower() if isinstance(h, str) else h for h in s["header"]]
        if nm == "choices":
            for key in ("list_name", "list name"):
                if key in hdr:
                    ci = hdr.index(key)
                    for r in s["rows"]:
                        v = canon_cell(r[ci]) if ci < len(r) else None
                        if v is not None and v not in lists:
                            lists.append(v)
        elif nm == "settings" and s["rows"]:
            for h, c in zip(hdr, s["rows"][0]):
                if h is not None and canon_cell(c) is not None:
                    settings[h] = canon_cell(c)
        elif nm == "entities":
            entity = any(any(canon_cell(c) is not None for c in r) for r in s["rows"])
            if "label" in hdr and s["rows"]:
                li = hdr.index("label")
                entlabel = any(li < len(r) and canon_cell(r[li]) is not None for r in s["rows"])
    return {
        "lists": lists,
        "formname": settings.get("name") or form_name or "data",
        "omitid": settings.get("omit_instanceid") in YES,
        "iname": "instance_name" in settings,
        "entity": entity,
        "entlabel": entlabel,
    }


def _below_root(path, rootname):
    if path is None or not path or path[0] != rootname:
        return None
    return path[1:]


import re

_WS = re.compile(r"\s+")


def norm_obs_expr(v: str, rootname: str) -> str:
    """Observed expression with every substituted node path replaced by ${} and whitespace collapsed."""
    pat = re.compile(
        r"(instance\('__last-saved'\))?(current\(\)/)?((\.\./)+[\w.\-]+(/[\w.\-]+)*|(\.\./)*\.\.(?![\w/])|/" + re.escape(rootname) + r"(/[\w.\-]+)+)"
    )
    return _WS.sub(" ", pat.sub(" ${} ", v)).strip()


def norm_src_expr(v: str) -> str:
    return _WS.sub(" ", re.sub(r"\$\{[^}]*\}", " ${} ", v)).strip()


_LIT = re.compile(r"'[^']*'|\"[^\"]*\"")


def _outside_literals(v: str, fn) -> str:
    """apply fn to the stretches of v outside quoted string literals; the literals themselves are kept verbatim"""
    out, pos = [], 0
    for m in _LIT.finditer(v):
        out.append(fn(v[pos:m.start()]))
        out.append(m.group(0))
        pos = m.end()
    out.append(fn(v[pos:]))
    return "".join(out)


def norm_src_expr_lit(v: str) -> str:
    """like norm_src_expr, but whitespace inside quoted literals is data (sheets whose cells are not whitespace-cleaned)"""
    return _outside_literals(v, lambda t: _WS.sub(" ", re.sub(r"\$\{[^}]*\}", " ${} ", t))).strip()


def norm_obs_expr_lit(v: str, rootname: str) -> str:
    pat = re.compile(
        r"(instance\('__last-saved'\))?(current\(\)/)?((\.\./)+[\w.\-]+(/[\w.\-]+)*|(\.\./)*\.\.(?![\w/])|/" + re.escape(rootname) + r"(/[\w.\-]+)+)"
    )
    return _outside_literals(v, lambda t: _WS.sub(" ", pat.sub(" ${} ", t))).strip()


def _count_path(v, ctx, rootname):
    """jr:count value -> {has, p}: the node it names below the root, evaluated from the repeat node `ctx` (['?...'] when it names nothing)"""
    if v is None or ctx is None:
        return {"has": False, "p": []}
    t = v.strip()
    if t.startswith("/"):
        below = _below_root(project.split_path(t), rootname)
        return {"has": True, "p": below if below is not None else ["?" + t]}
    steps = [x for x in t.split("/") if x != ""]
    cur = list(ctx)
    for x in steps:
        if x == "..":
            if not cur:
                return {"has": True, "p": ["?" + t]}
            cur = cur[:-1]
        elif x == ".":
            continue
        elif re.fullmatch(r"[\w.\-]+", x):
            cur.append(x)
        else:
            return {"has": True, "p": ["?" + t]}
    return {"has": True, "p": cur}


def observe(xform: str) -> dict:
    """Project the emitted XForm into the facts the C04/C02 envelopes talk about."""
    root = project.parse(xform)
    prim = project.primary_root(root)
    rootname = project.local(prim.tag)
    inst = []

    def walk(e, path, troot):
        p = path + [project.local(e.tag)]
        is_troot = project.TEMPLATE_ATTR in e.attrib
        idx = len(inst) + 1
        if troot:
            t, tr = "tmpl", troot
        elif is_troot:
            t, tr = "tmpl", idx
        else:
            t, tr = "no", 0
        inst.append({"p": p, "t": t, "ta": is_troot, "tr": tr, "text": (e.text or "") if len(e) == 0 else "", "attrs": sorted(project.qname(a) for a in e.attrib if a != project.TEMPLATE_ATTR)})
        for k in list(e):
            walk(k, p, tr)

    for k in list(prim):
        walk(k, [], 0)

    body = []
    raw = project.body_preorder(root)
    for i, c in enumerate(raw):
        ref = c["nodeset"] if c["tag"] == "repeat" else c["ref"]
        sp = project.split_path(ref) if ref else None
        below = _below_root(sp, rootname)
        body.append(
            {
                "tag": c["tag"],
                "ref": below if below is not None else ["?" + str(ref)],
                "abs": below is not None,
                "par": (c["anc"][-1] + 1) if c["anc"] else 0,
                "attrs": [[k, v] for k, v in c["attrs"].items()],
                # jr:count of a repeat is a path too: evaluated from the repeat's node it must name an instance node
                "count": _count_path(c["attrs"].get("jr:count"), below, rootname),
            }
        )
    binds = []
    for b in project.binds(root):
        sp = project.split_path(b["nodeset"]) if b["nodeset"] else None
        attr = ""
        if sp and sp[-1].startswith("@"):
            attr = sp[-1][1:]
            sp = sp[:-1]
        below = _below_root(sp, rootname)
        binds.append({"p": below if below is not None else ["?" + str(b["nodeset"])], "attr": attr, "abs": below is not None,
                      "attrs": [[k, v, norm_obs_expr(v, rootname)] for k, v in b["attrs"].items()]})
    actions = []
    for a in project.all_setvalues(root) + [x for x in project.model_actions(root) if x["tag"] not in ("setvalue", "odk:setgeopoint")]:
        ref = a.get("ref")
        sp = project.split_path(ref) if ref else None
        attr = ""
        if sp and sp[-1].startswith("@"):
            sp = sp[:-1]
        below = _below_root(sp, rootname)
        actions.append({"p": below if below is not None else ["?" + str(ref)], "abs": below is not None, "tag": a["tag"]})
    setv = []
    for a in project.all_setvalues(root):
        sp = project.split_path(a.get("ref")) if a.get("ref") else None
        below = _below_root(sp, rootname)
        rp = _below_root(project.split_path(a["repeat"]), rootname) if a.get("repeat") else []
        pp = _below_root(project.split_path(a["parent_ref"]), rootname) if a.get("parent_ref") else []
        setv.append({"p": below if below is not None else ["?"], "tag": a["tag"], "where": a["where"], "rep": rp or [],
                     "parent": pp or [], "events": (a.get("event") or "").split(), "hasvalue": "value" in a,
                     "value": norm_obs_expr(a.get("value", ""), rootname)})
    return {"inst": inst, "body": body, "binds": binds, "actions": actions, "setv": setv, "root": rootname}


def _tl(v):
    if v is False or v is None:
        return "none"
    if v is True:
        return "armed"
    return str(v)


def _leaves(v):
    if isinstance(v, str):
        yield v
    elif isinstance(v, dict):
        for x in v.values():
            yield from _leaves(x)


def owners_of(events):
    """cell text -> path (below the root) of the only row that carries exactly that text in one of its cells"""
    seen = {}
    for e in events:
        if e.get("ev") != "row":
            continue
        row = e["row"]
        nm = row.get("name")
        if not nm:
            continue
        path = [str(x) for x in e["names"]] + [str(nm)]
        for t in set(_leaves(row)):
            seen.setdefault(t, []).append(path)
        # (a trigger cell is resolved from the survey root - only to check that the question exists - and, for the action, from the
        #  triggering question: substitutions of that text say nothing about the row that carries it)
        for t in _leaves(row.get("trigger") or ""):
            seen.setdefault(t, []).extend([path, path])
    return {t: ps[0] for t, ps in seen.items() if len(ps) == 1 and "${" in t}


def ref_event(e, rootname, owners=None):
    ctx = project.split_path(e["ctx"]) if e.get("ctx") else None
    ctxok = bool(ctx) and ctx[0] == rootname
    ev = {"ev": "ref", "name": e["name"], "ls": bool(e["last_saved"]), "ctx": ctx[1:] if ctxok else [], "ctxok": ctxok,
          "err": "error" in e, "parse_ok": False, "e": {"abs": True, "up": 0, "path": [], "cur": False, "inst": ""},
          "in_ir": False, "in_pred": False, "owner": (owners or {}).get(e.get("src") or "", [])}
    if ctxok and ctx[1:2] == ["meta"]:
        ev["owner"] = []      # (a settings cell, e.g. instance_name, may carry the same text as a survey cell: no claim about the owner)
    if "out" in e:
        pe = abstract.parse_ref_output(e["out"], rootname)
        if pe is not None:
            ev["parse_ok"] = True
            ev["e"] = pe
        ev["in_ir"], ev["in_pred"] = abstract.ref_position_facts(e.get("src") or "", e.get("pos") or 0)
    return ev


def output_refs(xform: str, rootname: str) -> list:
    """Every node path that occurs in an expression or text of the emitted XForm, with the node it is evaluated from.

    Independent of the substitution hook: read from the output alone (binds, body attributes, label/hint outputs, itemset
    predicates, setvalue values, itext values)."""
    root = project.parse(xform)
    tok = re.compile(r"(?<![\w/.'\)])(?:current\(\)/)?((?:\.\./)+[\w.\-]+(?:/[\w.\-]+)*|/" + re.escape(rootname) + r"(?:/[\w.\-]+)+)")
    out = []

    def below(path_text):
        sp = project.split_path(path_text) if path_text else None
        if sp and sp[-1].startswith("@"):
            sp = sp[:-1]
        return _below_root(sp, rootname)

    def scan(ctx, text, where):
        if ctx is None or not text:
            return
        for m in tok.finditer(text):
            pe = abstract.parse_ref_output(m.group(0), rootname)       # (with its current()/ anchor, if any)
            if pe is not None:
                # inside the argument list of indexed-repeat() paths are absolute by design
                before = text[:m.start()]
                k = before.rfind("indexed-repeat(")
                in_ir = k >= 0 and before[k:].count("(") > before[k:].count(")")
                # inside the predicate of a secondary-instance expression: instance('x')/root/item[ ... here ... ]
                k2 = before.rfind("instance(")
                in_pred = k2 >= 0 and before[k2:].count("[") > before[k2:].count("]")
                out.append({"ctx": ctx, "e": pe, "where": where, "in_ir": in_ir, "in_pred": in_pred})

    for b in project.binds(root):
        ctx = below(b["nodeset"])
        for a, v in b["attrs"].items():
            if a in ("calculate", "relevant", "constraint", "required", "readonly"):
                scan(ctx, v, "bind/@" + a)
    for c in project.body_preorder(root):
        ctx = below(c["nodeset"] if c["tag"] == "repeat" else c["ref"])
        for a, v in c["attrs"].items():
            if a != "jr:count":
                scan(ctx, v, "control/@" + a)
        for key in ("label", "hint"):
            for p in (c[key] or {}).get("pieces", []):
                if p[0] == "o":
                    scan(ctx, p[1], key + "/output")
        if c["itemset"] and "[" in (c["itemset"]["nodeset"] or ""):
            scan(ctx, c["itemset"]["nodeset"].split("[", 1)[1], "itemset predicate")
        elif c["itemset"] and (c["itemset"]["nodeset"] or "").startswith("randomize("):
            scan(ctx, c["itemset"]["nodeset"].split(",", 1)[1] if "," in c["itemset"]["nodeset"] else "", "itemset seed")
    for a in project.all_setvalues(root):
        scan(below(a.get("ref")), a.get("value"), "setvalue/@value")
    it = project.itext(root)
    for lang, texts in it["texts"].items():
        for tid, vals in texts.items():
            if ":" not in tid or not tid.startswith("/"):
                continue
            ctx = below(tid.rsplit(":", 1)[0] if not tid.endswith(("jr:constraintMsg", "jr:requiredMsg", "jr:noAppErrorString")) else tid.rsplit(":", 2)[0])
            for v in vals:
                for p in v["pieces"]:
                    if p[0] == "o":
                        scan(ctx, p[1], "itext output")
    return out


def residual_refs(xform: str) -> int:
    root = project.parse(xform)
    return sum(1 for _, _, v in project.all_attr_values(root) if "${" in v)


RE_ROWCITE = re.compile(r"\[row : (\d+)\]")


def diagnosis_facts(result, trace):
    """C17: which rows the error message cites, and which identifiers of the form it names (whole words)."""
    msg = result.get("message") or ""
    cited = sorted({int(m) for m in RE_ROWCITE.findall(msg)})
    vocab = set()
    for e in trace:
        if e["ev"] != "row":
            continue
        r = e["r"]
        vocab.update(x for x in (r["name"], r["lname"], r["type"], r["list"]) if x)
        vocab.update(r["refs"])
    fn = (trace[0].get("cfg") or {}).get("formname")
    if fn:
        vocab.add(fn)
    low = msg.lower()
    mentions = set()
    for v in vocab:
        if re.search(r"(?<![\w.\-])" + re.escape(v.lower()) + r"(?![\w\-])", low):
            mentions.update((v, v.lower()))
    return {"cited": cited, "mentions": sorted(mentions), "has_xform": bool(result.get("xform"))}


def build(result: dict, cfg: dict, with_refs: bool = False, src: dict | None = None):
    """-> (trace, in_fragment). result is conv.convert_case output (with events)."""
    rows = [e for e in result.get("events", []) if e["ev"] in ("row", "rows_done") or (with_refs and e["ev"] == "ref")]
    trace = []
    frag = True
    nwarn0 = next((e["nwarn"] for e in rows if "nwarn" in e), 0)
    trace.append({"ev": "init", "cfg": cfg, "nwarn0": nwarn0})
    owners = owners_of(rows) if with_refs else {}
    for e in rows:
        snap = {} if e["ev"] == "ref" else {
            "kinds": [k or "" for k in e["kinds"]],
            "names": [str(n) for n in e["names"]],
            "nchildren": e["nchildren"],
            "table_list": _tl(e["table_list"]),
            "nmeta": e["nmeta"],
            "nwarn": e["nwarn"],
        }
        if e["ev"] == "ref":
            trace.append(ref_event(e, cfg["formname"], owners))
            continue
        if e["ev"] == "row":
            a = abstract.alpha_row(e["row"])
            frag = frag and a["frag"]
            trace.append({"ev": "row", "n": e["n"], "r": abstract.tla_row(a), **snap})
        else:
            trace.append({"ev": "rows_done", **snap})
    end = {"ev": "end", "status": result["status"]}
    end.update(diagnosis_facts(result, trace))
    end["residual"] = 0
    if result["status"] == "ok":
        end["obs"] = observe(result["xform"])
        if with_refs:
            end["residual"] = residual_refs(result["xform"])
            end["outrefs"] = output_refs(result["xform"], cfg["formname"])
    else:
        end["obs"] = {"inst": [], "body": [], "binds": [], "actions": [], "setv": [], "root": ""}
    end.setdefault("outrefs", [])
    end["src"] = {"binds": [], "defaults": [], "triggers": []}
    if src:
        end["src"].update(src)
    trace.append(end)
    return trace, frag
