"""C13 (header level): concretise Headers.tla's abstract headers and run the real header processing on them."""

from __future__ import annotations


def seg_text(g):
    return (g["pre"] + ":" if g["pre"] else "") + (" " if g["lp"] else "") + g["core"] + (" " if g["rp"] else "")


def header_text(h):
    out = ""
    for i, g in enumerate(h["segs"]):
        out += seg_text(g)
        if i < len(h["seps"]):
            out += h["seps"][i]
    return out


def _tables(sheet):
    from pyxform import aliases
    from pyxform.question import MultipleChoiceQuestion, Option
    from pyxform.survey import Survey

    return {"survey": (aliases.survey_header, set(MultipleChoiceQuestion.get_slot_names())),
            "choices": (aliases.list_header, set(Option.get_slot_names())),
            "settings": (aliases.settings_header, set(Survey.get_slot_names()))}[sheet]


def run_header(job):
    """job: {sheet, h, udc} -> trace [header event]"""
    from pyxform.parsing.sheet_headers import process_header

    al, cols = _tables(job["sheet"])
    text = header_text(job["h"])
    real = {"status": "ok", "newh": [], "tokens": [], "message": ""}
    try:
        new, tokens = process_header(header=text, use_double_colon=bool(job["udc"]), header_aliases=al, header_columns=cols)
        real["newh"] = [new] if isinstance(new, str) else list(new)
        real["tokens"] = list(tokens)
    except Exception as e:  # noqa: BLE001
        real.update(status="crash:" + type(e).__name__, message=str(e)[:200])
    return {"job": job, "text": text, "trace": [{"ev": "header", "sheet": job["sheet"], "h": job["h"], "udc": bool(job["udc"]), "real": real}]}


def _leaves(d, path=()):
    out = []
    for k, v in d.items():
        if isinstance(v, dict):
            out += _leaves(v, path + (k,))
        else:
            out.append([list(path + (k,)), v])
    return out


def run_sheet(job):
    """job: {style, cols:[{id,h}]} -> trace [sheet event]: one data row through dealias_and_group_headers"""
    from pyxform.errors import PyXFormError
    from pyxform.parsing.sheet_headers import dealias_and_group_headers

    al, cols = _tables("survey")
    texts = [header_text(c["h"]) for c in job["cols"]]
    row = {t: "val_" + c["id"] for t, c in zip(texts, job["cols"])}
    real = {"status": "ok", "leaves": [], "message": ""}
    try:
        r = dealias_and_group_headers(sheet_name="survey", sheet_data=[dict(row)], sheet_header=[dict.fromkeys(texts)], header_aliases=al,
                                      header_columns=cols, default_language="default")
        real["leaves"] = sorted(_leaves(r.data[0]))
    except PyXFormError as e:
        real.update(status="duplicate" if "different names for the same column" in str(e) else "error", message=str(e)[:200])
    except Exception as e:  # noqa: BLE001
        real.update(status="crash:" + type(e).__name__, message=str(e)[:200])
    return {"job": job, "texts": texts, "trace": [{"ev": "sheet", "style": job["style"], "cols": job["cols"], "real": real}]}
