"""C12 / C13 / C17 (text containers): render TextTables.tla's line sequences as Markdown and as CSV, give each to the real reader
(md_to_dict / csv_to_dict) and to convert(), and project what was read."""

from __future__ import annotations

import csv
import io

SUPPORTED = ("survey", "choices", "settings", "external_choices", "entities", "osm")


def to_md(lines, style=0):
    out = []
    for ln in lines:
        k = ln["k"]
        if k == "row":
            cells = [ln["first"]] + list(ln["cells"])
            out.append("| " + " | ".join(cells) + " |" if style % 2 == 0 else "|" + "|".join(f" {c} " if c else "  " for c in cells) + "|")
        elif k == "sep":
            out.append("|---|---|")
        elif k == "comment":
            out.append("# a remark" if style % 3 else "   # an indented remark")
        else:
            out.append("")
    return "\n".join(out) + "\n"


def to_csv(lines, style=0):
    buf = io.StringIO(newline="")
    w = csv.writer(buf, quoting=csv.QUOTE_ALL if style % 2 == 0 else csv.QUOTE_MINIMAL)
    for ln in lines:
        if ln["k"] == "row":
            w.writerow([ln["first"]] + list(ln["cells"]))
        elif ln["k"] == "empty":
            buf.write("\r\n")
    return buf.getvalue()


def _reading(d):
    sheets = []
    for k in d:
        if k == "sheet_names" or k.endswith("_header"):
            continue
        hdr = d.get(f"{k}_header") or []
        header = ["" if h in (None, "None") else str(h) for h in (list(hdr[0].keys()) if hdr else [])]
        rows = [sorted(["" if a is None else str(a), str(b)] for a, b in r.items()) for r in d[k]]
        sheets.append({"name": k, "header": header, "rows": rows})
    return sheets


def _read(fn, data):
    from pyxform.errors import PyXFormError

    try:
        return {"status": "ok", "sheets": _reading(fn(io.BytesIO(data.encode("utf-8"))))}
    except PyXFormError as e:
        return {"status": "refused", "sheets": [], "message": str(e)[:120]}
    except Exception as e:  # noqa: BLE001
        import sys

        from harness import conv

        return {"status": "crash:" + type(e).__name__, "sheets": [], "message": str(e)[:100] + " @" + conv.innermost_pyxform_frame(sys.exc_info()[2])}


def _conv(data, ft):
    from pyxform.errors import PyXFormError
    from pyxform.xls2xform import convert

    try:
        convert(xlsform=data, file_type=ft)
        return "ok"
    except PyXFormError:
        return "refused"
    except Exception as e:  # noqa: BLE001
        return "crash:" + type(e).__name__


def run(job):
    from pyxform.xls2json_backends import csv_to_dict, md_to_dict

    lines, style = job["lines"], job.get("style", 0)
    md, cs = to_md(lines, style), to_csv(lines, style)
    ev = {"ev": "texttable", "lines": lines, "md": _read(md_to_dict, md), "csv": _read(csv_to_dict, cs), "conv_md": _conv(md, ".md"), "conv_csv": _conv(cs, ".csv")}
    return {"job": job, "md": md, "csv": cs, "trace": [ev]}
