"""C17/C03 (reference syntax): concretise RefSyntax.tla's piece sequences and run them through the real converter."""

from __future__ import annotations

import re

TEXT = {"start": "${", "end": "}", "name": "a", "digit": "7", "ls": "last-saved#", "ws": " ", "quote": "'", "other": "+"}


def cell_text(cell):
    return "".join(TEXT[p] for p in cell)


def run_cell(job):
    from pyxform.errors import PyXFormError
    from pyxform.xls2xform import convert

    text = "x" + cell_text(job["cell"]) + "y" if False else cell_text(job["cell"])
    col = "label" if job["kind"] == "text" else "relevant"
    row = {"type": "text", "name": "q", "label": "Q"}
    row[col] = text
    wb = {"survey": [{"type": "text", "name": "a", "label": "A"}, row]}
    real = {"status": "ok", "verdict": "ok", "nsub": 0, "message": ""}
    try:
        x = convert(xlsform=wb).xform
        if col == "label":
            m = re.search(r'<input ref="/data/q">\s*<label>(.*?)</label>', x, re.S)
            real["nsub"] = len(re.findall(r"<output ", m.group(1))) if m else -1
        else:
            m = re.search(r'<bind nodeset="/data/q"[^>]*?relevant="([^"]*)"', x)
            real["nsub"] = len(re.findall(r"/data/a\b", m.group(1))) if m else -1
    except PyXFormError as e:
        msg = str(e)
        real.update(status="pyxform_error", message=msg[:200],
                    verdict="syntax" if "Reference expressions must only include" in msg else "unknown" if "There is no survey element" in msg else "other")
    except Exception as e:  # noqa: BLE001
        real.update(status="crash:" + type(e).__name__, verdict="crash", message=str(e)[:200])
    return {"job": job, "text": text, "wb": wb, "trace": [{"ev": "refsyntax", "cell": job["cell"], "kind": job["kind"], "real": real}]}
