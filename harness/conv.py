"""Run the real pyxform (from /repo's working tree, hooks on) on cases, in a process pool."""

from __future__ import annotations

import io
import multiprocessing as mp
import os
import sys
import traceback

REPO = os.environ.get("VERIF_REPO", "/repo")


def _ensure_env():
    os.environ["PYXFORM_VERIF"] = "1"
    if sys.path[0] != REPO:
        sys.path.insert(0, REPO)


def _import():
    _ensure_env()
    import pyxform  # noqa: F401
    from pyxform import _verif

    assert os.path.realpath(pyxform.__file__).startswith(os.path.realpath(REPO)), pyxform.__file__
    return _verif


def innermost_pyxform_frame(tb) -> str:
    frames = traceback.extract_tb(tb)
    px = [fr for fr in frames if "/pyxform/" in fr.filename and "_verif" not in fr.filename]
    if px:
        # innermost pyxform frame plus its nearest pyxform caller in a different function (the crash *site*)
        inner = px[-1]
        sig = f"{os.path.basename(inner.filename)}:{inner.name}"
        for fr in reversed(px[:-1]):
            if (fr.filename, fr.name) != (inner.filename, inner.name):
                return sig + f"<{os.path.basename(fr.filename)}:{fr.name}"
        return sig
    if frames:
        fr = frames[-1]
        return f"{os.path.basename(fr.filename)}:{fr.name}"
    return "?"


def materialise(inp):
    """inp: {"kind": md|dict|bytes|path|..., "data": ...} -> object for convert(xlsform=...)."""
    k = inp["kind"]
    if k in ("md", "str", "dict", "path"):
        return inp["data"]
    if k == "bytes":
        return inp["data"] if isinstance(inp["data"], bytes) else bytes.fromhex(inp["data"])
    if k == "bytesio":
        d = inp["data"] if isinstance(inp["data"], bytes) else bytes.fromhex(inp["data"])
        return io.BytesIO(d)
    if k == "file":
        return open(inp["data"], "rb")
    raise ValueError(k)


def convert_case(case: dict) -> dict:
    """Run convert() once with hooks; never raises. case = {input, kwargs?, keep_events?, want?}"""
    verif = _import()
    from pyxform.errors import PyXFormError
    from pyxform.xls2xform import convert

    events = []
    want_events = case.get("events", True)
    verif.SINK = events.append if want_events else None
    res = {"id": case.get("id"), "status": None}
    kwargs = dict(case.get("kwargs") or {})
    wl = None
    if case.get("pass_warnings"):
        wl = []
        kwargs["warnings"] = wl
    obj = None
    try:
        obj = materialise(case["input"])
        import copy

        r = convert(xlsform=copy.deepcopy(obj) if isinstance(obj, dict) else obj, **kwargs)
        res.update(status="ok", xform=r.xform, warnings=list(r.warnings), itemsets=r.itemsets)
        if not case.get("allow_malformed"):
            # a "successful" conversion whose output no XML parser accepts cannot be projected; every check treats it
            # as an outcome of its own (a violation of that check's 'converted' / 'no_crash' clause), never as exit 2
            from harness import project

            if not project.wellformed(r.xform)["parse_ok"]:
                res["status"] = "malformed_output"
        if case.get("want_pyxform"):
            res["pyxform"] = r._pyxform
        if case.get("post"):
            res["post"] = case["post"](r, case["post_arg"]) if "post_arg" in case else case["post"](r)
    except PyXFormError as e:
        res.update(status="pyxform_error", errclass=type(e).__name__, message=str(e))
        if wl is not None:
            res["warnings"] = list(wl)
    except Exception as e:  # crash
        from pyxform.validators.odk_validate import ODKValidateError

        if isinstance(e, ODKValidateError):
            res.update(status="odk_error", errclass=type(e).__name__, message=str(e))
        elif isinstance(e, OSError) and kwargs.get("validate"):
            res.update(status="os_error", errclass=type(e).__name__, message=str(e))
        else:
            res.update(
                status="crash",
                errclass=type(e).__name__,
                message=str(e)[:500],
                frame=innermost_pyxform_frame(e.__traceback__),
            )
    finally:
        verif.SINK = None
        if hasattr(obj, "close"):
            try:
                obj.close()
            except Exception:
                pass
    if want_events:
        for ev in events:
            ev.pop("thread", None)
        res["events"] = events
    return res


def _call(args):
    fn, case = args
    try:
        return fn(case)
    except BaseException as e:  # harness bug: report, don't hang the pool
        return {"id": case.get("id") if isinstance(case, dict) else None, "status": "harness_error", "message": f"{type(e).__name__}: {e}", "tb": traceback.format_exc()[-1500:]}


_POOL = None


def pool(procs=None):
    global _POOL
    if _POOL is None:
        _ensure_env()
        ctx = mp.get_context("fork")
        _POOL = ctx.Pool(processes=procs or min(16, os.cpu_count() or 4), maxtasksperchild=2000)
    return _POOL


def close_pool():
    global _POOL
    if _POOL is not None:
        _POOL.close()
        _POOL.join()
        _POOL = None


def map_cases(fn, cases, chunksize=8):
    """Apply module-level function fn(case)->dict over cases in the pool, order preserved."""
    if not cases:
        return []
    return pool().map(_call, [(fn, c) for c in cases], chunksize=chunksize)
