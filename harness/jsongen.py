"""C16: build a form from a feature set (JsonIR.tla) and run both JSON round trips on the real code."""

from __future__ import annotations

import json


ALL_FEATURES = ["group_relevant", "group_appearance", "repeat_count", "repeat_relevant", "choice_extra", "choice_media", "parameters", "translations", "question_media",
                "constraint_msg", "guidance", "dyn_default", "trigger", "or_other", "instance_attr", "settings", "entity", "external_instance", "audit", "table_list",
                "last_saved", "namespaces", "search", "osm", "rank_and_multi", "from_file", "external_select", "select_from_repeat", "background_geopoint",
                "range_decimal", "note_editable", "explicit_bind_type", "nested_repeat_bind", "empty_sections", "deep_nesting"]


def build(feats):
    F = set(feats)
    q = [
        {"type": "text", "name": "q1", "label": "Q1"},
        {"type": "integer", "name": "q2", "label": "Q2"},
        {"type": "begin group", "name": "g1", "label": "G1"},
        {"type": "select_one L", "name": "s1", "label": "S1"},
        {"type": "text", "name": "q3", "label": "Q3"},
        {"type": "end group"},
        {"type": "begin repeat", "name": "r1", "label": "R1"},
        {"type": "decimal", "name": "q4", "label": "Q4"},
        {"type": "end repeat"},
    ]
    by = {r.get("name"): r for r in q}
    choices = [{"list_name": "L", "name": "l1", "label": "L1"}, {"list_name": "L", "name": "l2", "label": "L2"}]
    settings, extra = {}, []
    if "group_relevant" in F:
        by["g1"]["relevant"] = "${q1} = 'a'"
    if "group_appearance" in F:
        by["g1"]["appearance"] = "field-list"
    if "repeat_count" in F:
        by["r1"]["repeat_count"] = "${q2} + 1"
    if "repeat_relevant" in F:
        by["r1"]["relevant"] = "${q2} > 0"
    if "choice_extra" in F:
        for i, c in enumerate(choices):
            c["grp"] = f"g{i}"
        if "or_other" not in F:
            by["s1"]["choice_filter"] = "grp = ${q1}"
    if "choice_media" in F:
        choices[0]["image"] = "l1.png"
    if "parameters" in F:
        by["s1"]["parameters"] = "randomize=true seed=3"
    if "translations" in F:
        for r in q:
            if "label" in r:
                r["label::French (fr)"] = r["label"] + " fr"
        for c in choices:
            c["label::French (fr)"] = c["label"] + " fr"
    if "question_media" in F:
        by["q1"]["image"] = "q1.png"
        by["q1"]["audio"] = "q1.mp3"
    if "constraint_msg" in F:
        by["q2"].update({"constraint": ". > 0", "constraint_message": "positive", "required": "yes", "required_message": "needed"})
    if "guidance" in F:
        by["q1"].update({"hint": "a hint", "guidance_hint": "some guidance"})
    if "dyn_default" in F:
        by["q3"]["default"] = "concat(${q1}, 'x')"
        by["q4"]["default"] = "${q2} * 2"
    if "trigger" in F:
        q.insert(2, {"type": "calculate", "name": "tc", "calculation": "now()", "trigger": "${q1}"})
    if "or_other" in F:
        by["s1"]["type"] = "select_one L or_other"
    if "instance_attr" in F:
        by["q1"]["instance::custom"] = "cv"
        by["q1"]["bind::foo"] = "bar"
    if "settings" in F:
        settings.update({"form_title": "A Title", "form_id": "fid", "version": "7", "style": "pages", "submission_url": "http://s/u", "instance_name": "concat('i', ${q1})"})
    if "namespaces" in F:
        settings.update({"namespaces": 'ex="http://example.com/ex" ex2="http://example.com/ex2"', "attribute::ex:marker": "m1"})
        by["q2"]["bind::ex2:flag"] = "f2"
    if "entity" in F:
        extra.append({"name": "entities", "header": ["dataset", "label"], "rows": [["people", "${q1}"]]})
        by["q1"]["save_to"] = "pname"
    if "external_instance" in F:
        q.append({"type": "csv-external", "name": "extcsv"})
        q.append({"type": "calculate", "name": "pd", "calculation": "pulldata('pfile', 'a', 'b', ${q1})"})
    if "audit" in F:
        q.append({"type": "audit", "name": "audit", "parameters": "location-priority=balanced location-min-interval=10 location-max-age=20"})
    if "table_list" in F:
        q += [{"type": "begin group", "name": "tl", "label": "TL", "appearance": "table-list"}, {"type": "select_one L", "name": "t1", "label": "T1"},
              {"type": "select_one L", "name": "t2", "label": "T2"}, {"type": "end group"}]
    if "last_saved" in F:
        q.append({"type": "text", "name": "ls", "label": "LS", "default": "${last-saved#q1}"})
    if "search" in F:
        choices.append({"list_name": "SL", "name": "sl1", "label": "SL1"})
        q.append({"type": "select_one SL", "name": "srch", "label": "Search", "appearance": "search('mfile')"})
    if "osm" in F:
        q.append({"type": "osm building_tags", "name": "osmq", "label": "OSM"})
        extra.append({"name": "osm", "header": ["list_name", "name", "label"], "rows": [["building_tags", "building", "Building"], ["building_tags", "roof", "Roof"]]})
    if "rank_and_multi" in F:
        q.append({"type": "rank L", "name": "rk", "label": "RK"})
        q.append({"type": "select_multiple L", "name": "mu", "label": "MU", "appearance": "minimal"})
    if "from_file" in F:
        q.append({"type": "select_one_from_file ff.csv", "name": "ffq", "label": "FF", "parameters": "value=v label=l"})
        q.append({"type": "select_multiple_from_file fg.geojson", "name": "fgq", "label": "FG"})
    if "external_select" in F:
        q.append({"type": "select_one_external X", "name": "exq", "label": "EX", "choice_filter": "state=${q1}"})
        extra.append({"name": "external_choices", "header": ["list_name", "name", "label", "state"], "rows": [["X", "x1", "X1", "s1"]]})
    if "select_from_repeat" in F:
        q.append({"type": "select_one ${q4}", "name": "sfr", "label": "SFR"})
    if "background_geopoint" in F:
        q.append({"type": "background-geopoint", "name": "bgp", "trigger": "${q1}"})
    if "range_decimal" in F:
        q.append({"type": "range", "name": "rgd", "label": "RGD", "parameters": "start=0.5 end=5.5 step=0.5"})
    if "note_editable" in F:
        q.append({"type": "note", "name": "nte", "label": "NTE", "read_only": "no"})
    if "explicit_bind_type" in F:
        q.append({"type": "text", "name": "ebt", "label": "EBT", "bind::type": "int"})
    if "nested_repeat_bind" in F:
        q += [{"type": "begin group", "name": "hh", "label": "HH"},
              {"type": "begin repeat", "name": "member", "label": "Member", "relevant": "${q2} > 1", "bind::foo": "rb"},
              {"type": "text", "name": "mname", "label": "MName"}, {"type": "end repeat"}, {"type": "end group"}]
    if "empty_sections" in F:
        q += [{"type": "begin group", "name": "eg", "label": "EG"}, {"type": "end group"},
              {"type": "begin group", "name": "og", "label": "OG"}, {"type": "begin repeat", "name": "er", "label": "ER"}, {"type": "end repeat"}, {"type": "end group"}]
    if "deep_nesting" in F:
        q += [{"type": "begin group", "name": "d1", "label": "D1"}, {"type": "begin repeat", "name": "d2", "label": "D2"},
              {"type": "begin group", "name": "d3", "label": "D3", "appearance": "field-list"},
              {"type": "integer", "name": "dq", "label": "DQ", "relevant": "${q2} > 2", "constraint": ". < 9", "required": "yes"},
              {"type": "end group"}, {"type": "end repeat"}, {"type": "end group"}]
    cols = []
    for r in q:
        for k in r:
            if k not in cols:
                cols.append(k)
    ccols = []
    for c in choices:
        for k in c:
            if k not in ccols:
                ccols.append(k)
    sheets = [{"name": "survey", "header": cols, "rows": [[r.get(c) for c in cols] for r in q]},
              {"name": "choices", "header": ccols, "rows": [[c.get(k) for k in ccols] for c in choices]}]
    if settings:
        sheets.append({"name": "settings", "header": list(settings), "rows": [list(settings.values())]})
    return {"sheets": sheets + extra}


def roundtrips(wb, fmt="dict"):
    """-> event facts. Uses only public API: convert(), ConvertResult._pyxform/_survey, builder, to_json_dict, to_xml."""
    from harness import conv, render
    from pyxform import builder
    from pyxform.errors import PyXFormError
    from pyxform.xls2xform import convert

    inp, kw = render.render(wb, fmt)
    ev = {"ev": "json", "status": "ok", "a_dict_equal": False, "a_xform_equal": False, "b_dump_stable": False, "b_xform_equal": False, "detail": {}}
    try:
        r = convert(xlsform=conv.materialise(inp), **kw)
        x1 = r.xform
        # path A
        pyx = r._pyxform
        text = json.dumps(pyx)
        back = json.loads(text)
        ev["a_dict_equal"] = back == pyx
        s3 = builder.create_survey_element_from_dict(back)
        x3 = s3.to_xml(validate=False, pretty_print=False)
        ev["a_xform_equal"] = x3 == x1
        # path B
        s = r._survey
        d1 = s.to_json_dict()
        s2 = builder.create_survey_element_from_dict(json.loads(json.dumps(d1)))
        d2 = s2.to_json_dict()
        ev["b_dump_stable"] = d2 == d1
        x2 = s2.to_xml(validate=False, pretty_print=False)
        ev["b_xform_equal"] = x2 == x1
        if not ev["b_xform_equal"]:
            import difflib

            a = x1.replace("><", ">\n<").split("\n")
            b = x2.replace("><", ">\n<").split("\n")
            ev["detail"]["b_diff"] = [l for l in difflib.unified_diff(a, b, lineterm="", n=0) if l[:1] in "+-" and l[:3] not in ("+++", "---")][:8]
        if not ev["a_xform_equal"]:
            import difflib

            a = x1.replace("><", ">\n<").split("\n")
            b = x3.replace("><", ">\n<").split("\n")
            ev["detail"]["a_diff"] = [l for l in difflib.unified_diff(a, b, lineterm="", n=0) if l[:1] in "+-" and l[:3] not in ("+++", "---")][:8]
    except PyXFormError as e:
        ev["status"] = "pyxform_error"
        ev["detail"]["message"] = str(e)[:300]
    except Exception as e:  # a crash on reload is a loss too
        ev["status"] = "crash"
        ev["detail"]["message"] = f"{type(e).__name__}: {e}"[:300]
    return ev


LOGIC_COLS = {"relevant", "relevance", "required", "read_only", "readonly", "constraint", "calculation", "calculate"}


def features_of(wb):
    """which of JsonIR's lossy features an arbitrary workbook contains (source-side reading of the sheets)"""
    out = set()
    for sh in wb["sheets"]:
        hdr = [h for h in sh["header"]]
        if sh["name"].lower() == "choices":
            for h in hdr:
                base = (h or "").split("::")[0].strip().lower()
                if base and base not in ("list_name", "list name", "name", "label", "image", "audio", "video", "big-image", "media"):
                    if any(r[i] is not None for r in sh["rows"] for i, hh in enumerate(hdr) if hh == h and i < len(r)):
                        out.add("choice_extra")
        if sh["name"].lower() == "survey":
            ti = hdr.index("type") if "type" in hdr else None
            for r in sh["rows"]:
                t = r[ti] if ti is not None and ti < len(r) else None
                if isinstance(t, str) and t.strip().lower().startswith("osm"):
                    out.add("osm")
                if any(isinstance(c, str) and "search(" in c for i, c in enumerate(r) if i < len(hdr) and isinstance(hdr[i], str) and "appearance" in hdr[i].lower()):
                    out.add("search")
                if isinstance(t, str) and t.replace("_", " ").startswith("begin group"):
                    for i, h in enumerate(hdr):
                        if i < len(r) and r[i] is not None and isinstance(h, str) and (h.split("::")[0].strip().lower() in LOGIC_COLS or h.lower().startswith("bind::")):
                            out.add("group_relevant")
    return sorted(out)
