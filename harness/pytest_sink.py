"""pytest plugin (-p harness.pytest_sink): records every convert() the repository's own test-suite performs.

Needs PYXFORM_VERIF=1 (hooks) and VERIF_TRACE_OUT=<dir>.  One JSON line per conversion: the workbook the row loop
received, the hook events (row / rows_done / ref), and the outcome.  Nothing in the tests is changed; the wrapper
returns / raises exactly what the original does."""

from __future__ import annotations

import dataclasses
import json
import os
import threading

_local = threading.local()


def _safe(v, d=0):
    if d > 10:
        return "<deep>"
    if isinstance(v, dict):
        return {str(k): _safe(x, d + 1) for k, x in v.items()}
    if isinstance(v, list | tuple):
        return [_safe(x, d + 1) for x in v]
    if isinstance(v, str | int | float | bool) or v is None:
        return v
    return str(v)


def pytest_configure(config):
    out = os.environ.get("VERIF_TRACE_OUT")
    if not out or not os.environ.get("PYXFORM_VERIF"):
        return
    os.makedirs(out, exist_ok=True)
    from pyxform import _verif, xls2xform
    from pyxform.errors import PyXFormError

    path = os.path.join(out, f"conv-{os.getpid()}.jsonl")
    orig_convert = xls2xform.convert
    orig_w2j = xls2xform.workbook_to_json

    def w2j(workbook_dict, *a, **kw):
        rec = getattr(_local, "rec", None)
        if rec is not None and "wb" not in rec:
            try:
                rec["wb"] = _safe(dataclasses.asdict(workbook_dict))
                rec["form_name"] = kw.get("form_name") if "form_name" in kw else (a[0] if a else None)
            except Exception as e:  # noqa: BLE001
                rec["wb_error"] = repr(e)
        return orig_w2j(workbook_dict, *a, **kw)

    def convert(*a, **kw):
        if getattr(_local, "rec", None) is not None:  # nested
            return orig_convert(*a, **kw)
        rec = {"events": []}
        _local.rec = rec
        prev = _verif.SINK
        _verif.SINK = lambda ev: rec["events"].append(ev) if ev.get("ev") in ("row", "rows_done", "ref") else None
        try:
            r = orig_convert(*a, **kw)
            rec.update(status="ok", xform=r.xform, warnings=list(r.warnings))
            return r
        except PyXFormError as e:
            rec.update(status="pyxform_error", message=str(e))
            raise
        except Exception as e:  # noqa: BLE001
            rec.update(status="other:" + type(e).__name__, message=str(e)[:300])
            raise
        finally:
            _verif.SINK = prev
            _local.rec = None
            rec["test"] = os.environ.get("PYTEST_CURRENT_TEST", "")
            for ev in rec["events"]:
                ev.pop("thread", None)
            try:
                with open(path, "a") as f:
                    f.write(json.dumps(rec) + "\n")
            except Exception:  # noqa: BLE001
                pass

    xls2xform.workbook_to_json = w2j
    xls2xform.convert = convert
