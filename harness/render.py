"""Concretisation: abstract workbook -> dict / md / csv / xlsx / xls.

Abstract workbook: {"sheets": [{"name": str, "header": [str|None,...], "rows": [[cell,...],...]}]}
cell: None | str | int | float | bool.  Typed cells only make sense for xlsx/xls.
"""

from __future__ import annotations

import csv
import io
import struct


def canon_cell(c):
    """What a text format would spell for a typed cell (the C12 envelope's Canon)."""
    if c is None:
        return None
    if c is True:
        return "TRUE"
    if c is False:
        return "FALSE"
    if isinstance(c, int):
        return str(c)
    if isinstance(c, float):
        if c.is_integer():
            return str(int(c))
        return repr(c)
    s = str(c).replace(" ", " ").strip()
    return s if s else None


def sheet(wb, name):
    for s in wb["sheets"]:
        if s["name"] == name:
            return s
    return None


def to_dict(wb, raw=False) -> dict:
    """raw=True: typed cells (int / float / bool) are handed over as they are, as a JSON-borne dict would carry them"""
    d = {"sheet_names": [s["name"] for s in wb["sheets"]]}
    if wb.get("fallback_form_name") is not None:
        d["fallback_form_name"] = wb["fallback_form_name"]
    for s in wb["sheets"]:
        key = s["name"].lower()
        if key not in ("survey", "choices", "settings", "external_choices", "entities", "osm"):
            continue
        hdr = [h for h in s["header"] if h is not None]
        rows = []
        for r in s["rows"]:
            row = {}
            for h, c in zip(s["header"], r):
                cc = c if (raw and isinstance(c, (int, float)) and not isinstance(c, bool)) else canon_cell(c)
                if h is not None and cc is not None:
                    row[h] = cc
            rows.append(row)
        d[key] = rows
        d[f"{key}_header"] = [{h: None for h in hdr}] if hdr else []
    return d


def _md_cell(c):
    c = canon_cell(c)
    if c is None:
        return ""
    return c.replace("|", "\\|")


def to_md(wb) -> str:
    lines = []
    for s in wb["sheets"]:
        lines.append(f"| {s['name']} |")
        lines.append("| | " + " | ".join(_md_cell(h) for h in s["header"]) + " |")
        for r in s["rows"]:
            cells = list(r) + [None] * (len(s["header"]) - len(r))
            lines.append("| | " + " | ".join(_md_cell(c) for c in cells) + " |")
    return "\n".join(lines) + "\n"


def to_csv(wb) -> str:
    buf = io.StringIO(newline="")
    w = csv.writer(buf, quoting=csv.QUOTE_ALL)
    for s in wb["sheets"]:
        w.writerow([s["name"]])
        w.writerow([""] + [canon_cell(h) or "" for h in s["header"]])
        for r in s["rows"]:
            cells = list(r) + [None] * (len(s["header"]) - len(r))
            w.writerow([""] + [canon_cell(c) or "" for c in cells])
    return buf.getvalue()


def to_csv_ragged(wb) -> str:
    """the same CSV with the trailing empty cells of every row left out (what csv.writer gives for trimmed rows)"""
    buf = io.StringIO(newline="")
    w = csv.writer(buf, quoting=csv.QUOTE_ALL)
    for s in wb["sheets"]:
        w.writerow([s["name"]])
        w.writerow([""] + [canon_cell(h) or "" for h in s["header"]])
        for r in s["rows"]:
            cells = [""] + [canon_cell(c) or "" for c in r]
            while len(cells) > 2 and cells[-1] == "":
                cells.pop()
            w.writerow(cells)
    return buf.getvalue()


def to_xlsx(wb, typed=True) -> bytes:
    from openpyxl import Workbook

    book = Workbook()
    book.remove(book.active)
    for s in wb["sheets"]:
        ws = book.create_sheet(title=s["name"])
        for ci, h in enumerate(s["header"], start=1):
            if h is not None:
                ws.cell(row=1, column=ci, value=h)
        for ri, r in enumerate(s["rows"], start=2):
            for ci, c in enumerate(r, start=1):
                if c is None:
                    continue
                ws.cell(row=ri, column=ci, value=c if typed else canon_cell(c))
    buf = io.BytesIO()
    book.save(buf)
    return buf.getvalue()


# ---- raw BIFF8 writer (xlrd reads a bare workbook stream without an OLE2 container) ----


def _rec(op, data=b""):
    return struct.pack("<HH", op, len(data)) + data


def _ustr16(s):
    return struct.pack("<HB", len(s), 1) + s.encode("utf-16-le")


def _ustr8(s):
    return struct.pack("<BB", len(s), 1) + s.encode("utf-16-le")


def to_xls(wb) -> bytes:
    sheets = wb["sheets"]
    bof_g = _rec(0x0809, struct.pack("<HHHHII", 0x0600, 0x0005, 0x0DBB, 0x07CC, 0, 6))
    codepage = _rec(0x0042, struct.pack("<H", 1200))
    eof = _rec(0x000A)
    bodies = []
    for s in sheets:
        b = _rec(0x0809, struct.pack("<HHHHII", 0x0600, 0x0010, 0x0DBB, 0x07CC, 0, 6))
        grid = [list(s["header"])] + [list(r) for r in s["rows"]]
        nrows = len(grid)
        ncols = max((len(r) for r in grid), default=0)
        b += _rec(0x0200, struct.pack("<IIHHH", 0, nrows, 0, ncols, 0))
        for ri, r in enumerate(grid):
            for ci, c in enumerate(r):
                if c is None:
                    continue
                if c is True or c is False:
                    b += _rec(0x0205, struct.pack("<HHHBB", ri, ci, 0, 1 if c else 0, 0))
                elif isinstance(c, int | float):
                    b += _rec(0x0203, struct.pack("<HHHd", ri, ci, 0, float(c)))
                else:
                    text = str(c)
                    if text == "":
                        continue
                    b += _rec(0x0204, struct.pack("<HHH", ri, ci, 0) + _ustr16(text))
        b += eof
        bodies.append(b)
    # compute boundsheet offsets
    bs_len = sum(4 + 6 + 2 + 2 * len(s["name"]) for s in sheets)
    pos = len(bof_g) + len(codepage) + bs_len + len(eof)
    bss = b""
    for s, b in zip(sheets, bodies):
        bss += _rec(0x0085, struct.pack("<IBB", pos, 0, 0) + _ustr8(s["name"]))
        pos += len(b)
    return bof_g + codepage + bss + eof + b"".join(bodies)


def render(wb, fmt: str):
    """Return a convert()-ready `input` descriptor for conv.convert_case (in-memory channels)."""
    if fmt == "dict":
        return {"kind": "dict", "data": to_dict(wb)}, {}
    if fmt == "dict_raw":
        return {"kind": "dict", "data": to_dict(wb, raw=True)}, {}
    if fmt == "md":
        return {"kind": "md", "data": to_md(wb)}, {}
    if fmt == "csv":
        return {"kind": "str", "data": to_csv(wb)}, {}
    if fmt == "xlsx":
        return {"kind": "bytes", "data": to_xlsx(wb)}, {"file_type": ".xlsx"}
    if fmt == "xls":
        return {"kind": "bytes", "data": to_xls(wb)}, {"file_type": ".xls"}
    raise ValueError(fmt)


def wb_from_tables(**sheets):
    """wb_from_tables(survey=(header, rows), choices=(header, rows)) keeping the given order."""
    return {"sheets": [{"name": k, "header": list(v[0]), "rows": [list(r) for r in v[1]]} for k, v in sheets.items() if v is not None]}
