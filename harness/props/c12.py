"""C12 - container format and delivery channel do not matter."""

from __future__ import annotations

import copy
import itertools
import random
import shutil
import tempfile

from harness import conv, corpus, formgen, tlc

PROP = "C12"


def _cfg(maxempty):
    return corpus._cfg(f"Trace_Workbook_{maxempty}.cfg", f"SPECIFICATION TSpec\nCONSTANT MaxEmpty = {maxempty}\nCONSTANT MaxLen = 0\nCONSTRAINT Accepted\nCHECK_DEADLOCK FALSE\n")


def _run_runs(job):
    from harness import render, wbgen

    pat = job["pattern"]
    wb = wbgen.rows_workbook(pat) if job["dim"] == "rows" else wbgen.cols_workbook(pat)
    inp, kw = render.render(wb, job["fmt"])
    res = conv.convert_case({"input": inp, "kwargs": kw, "events": False})
    if job["dim"] == "rows":
        kept, pos = wbgen.observe_rows(res)
    else:
        kept = wbgen.observe_cols(res)
        pos = kept
        kept_all = [k for k in kept]
    data_idx = [k for k, d in enumerate(pat, start=1) if d]
    if job["dim"] == "cols":
        # the three leading columns are always there (the form would not convert otherwise)
        kept = [1, 2, 3] + kept if res["status"] == "ok" else kept
        pos = kept
    ev = {"ev": "runs", "status": res["status"], "pattern": pat, "kept": kept, "positions": pos}
    return {"job": job, "res": {k: v for k, v in res.items() if k not in ("xform", "events")}, "trace": [ev]}


def _run_cells(job):
    from harness import render, wbgen

    wb = wbgen.cells_workbook()
    inp, kw = render.render(wb, job["fmt"])
    res = conv.convert_case({"input": inp, "kwargs": kw, "events": False})
    ev = {"ev": "cells", "status": res["status"], "cells": wbgen.observe_cells(res)}
    return {"job": job, "res": {k: v for k, v in res.items() if k not in ("xform", "events")}, "trace": [ev]}


def _run_matrix(job):
    from harness import wbgen

    wb = job["wb"]
    tmp = tempfile.mkdtemp(prefix="c12-", dir="/var/tmp")
    results = []
    try:
        for f, d, ft in job["matrix"]:
            obj, kw, closer = wbgen.deliver(wb, f, d, ft, tmp)
            try:
                res = conv.convert_case({"input": {"kind": "path" if isinstance(obj, str) and d in ("path", "path_stem", "path_stem_odd") else ("dict" if f in ("dict", "dict_rows") else "md"), "data": obj}, "kwargs": kw, "events": False})
            finally:
                if closer:
                    closer()
            results.append({"f": f, "d": d, "ft": ft, "status": res["status"], "xform": wbgen.digest(res.get("xform")), "warnings": wbgen.digest(res.get("warnings")),
                            "itemsets": wbgen.digest(res.get("itemsets")), "xform_canon": wbgen.digest(wbgen.canon_xform(res.get("xform"))),
                            "itemsets_canon": wbgen.digest(wbgen.canon_itemsets(res.get("itemsets"))), "message": (res.get("message") or "")[:200]})
    finally:
        shutil.rmtree(tmp, ignore_errors=True)
    return {"job": {k: v for k, v in job.items() if k not in ("wb",)}, "wb": wb, "trace": [{"ev": "matrix", "results": results}]}


def _typed_variant(wb, rnd):
    """re-type some cells of a workbook: digit strings become numbers, TRUE/FALSE booleans, text gets padding / NBSP"""
    wb = copy.deepcopy(wb)
    for s in wb["sheets"]:
        for r in s["rows"]:
            for i, c in enumerate(r):
                if not isinstance(c, str):
                    continue
                h = s["header"][i] if i < len(s["header"]) else None
                if h in ("type", "list_name", "list name"):
                    continue
                x = rnd.random()
                if c.isdigit() and not c.startswith("0") and len(c) < 10 and x < 0.7:
                    r[i] = int(c) if x < 0.35 else float(c)
                elif c in ("TRUE", "FALSE") and x < 0.7:
                    r[i] = c == "TRUE"
                elif x < 0.08 and h not in ("name",):
                    r[i] = "  " + c + " "
                elif x < 0.12 and " " in c and h not in ("name",):
                    r[i] = c.replace(" ", " ", 1)
    return wb


def run(rep):
    from harness import choicegen, wbgen

    rep.rule = ("Workbook.tla: the empty-run scan of the spreadsheet readers as a machine; TLC checks NoTruncation / KeptIsPrefix / ScanAllAgrees on every "
                "emptiness pattern of length <= 9 with limit 2 (1,023 patterns). Conformance: run-length-encoded sheets built at the real limits (empty runs of "
                "0/1/59/60/61 rows, 0/1/19/20/21 columns, trailing runs) are written as real .xlsx and .xls files and read by the real readers; TLC "
                "(Trace_Workbook with MaxEmpty = 60 / 20) checks surviving rows/columns and reported row numbers. Typed cells (ints, integral floats, decimals, "
                "booleans, padded and NBSP text) in xlsx and xls are compared with Canon in the spec. The delivery matrix (formats x path/bytes/BytesIO/open "
                "file/str x file_type given or not; 46 valid combinations from the spec) is run for feature-rich workbooks incl. external choices and typed "
                "cells; TLC checks that XForm, warnings and itemsets agree across all channels.")
    rep.assumptions = ["blank rows are layout (C13): the matrix uses blank-free content because Markdown cannot represent blank rows", "xls files come from the harness's raw BIFF8 writer (no date cells)"]
    r = tlc.model_check("Workbook", corpus._cfg("MC_Workbook.cfg", "SPECIFICATION MSpec\nCONSTANT MaxEmpty = 2\nCONSTANT MaxLen = 9\nINVARIANT NoTruncation\nINVARIANT KeptIsPrefix\nINVARIANT ScanAllAgrees\nCHECK_DEADLOCK FALSE\n"),
                        workers=8, required_actions=("Scan",), tag="mcwb")
    if r["violation"]:
        raise tlc.MachineryError(f"Workbook invariant {r['violation']} violated")
    rep.add_mc(r, "Workbook: scan machine, all patterns <= 9, limit 2: NoTruncation, KeptIsPrefix, ScanAllAgrees")
    cases, g = tlc.generate("Gen_Workbook", corpus._cfg("Gen_Workbook.cfg", "SPECIFICATION MSpec\nCONSTANT MaxEmpty = 2\nCONSTANT MaxLen = 0\nCONSTRAINT Emit\nCHECK_DEADLOCK FALSE\n"), tag="genwb")
    matrix = [m for c in cases if "matrix" in c for m in c["matrix"]]
    if len(matrix) < 30:
        raise tlc.MachineryError(f"delivery matrix too small: {len(matrix)}")
    rep.bounds["delivery_matrix"] = len(matrix)
    # (1) run-length encoded sheets at the real limits
    jobs = []
    runs_r, runs_c = [0, 1, 59, 60, 61], [0, 1, 19, 20, 21]
    nblocks = 2 if rep.tier == "quick" else 3
    for n in range(1, nblocks + 1):
        for runs in itertools.product(runs_r, repeat=n):
            for trail in (0, 3, 61):
                pat = wbgen.rle_to_pattern(list(runs), trail)
                for fmt in ("xlsx", "xls"):
                    jobs.append({"dim": "rows", "pattern": pat, "fmt": fmt})
        for runs in itertools.product(runs_c, repeat=n):
            for trail in (0, 2, 25):
                pat = wbgen.rle_to_pattern(list(runs), trail, lead_data=3)
                for fmt in ("xlsx", "xls"):
                    jobs.append({"dim": "cols", "pattern": pat, "fmt": fmt})
    outs = conv.map_cases(_run_runs, jobs, chunksize=4)
    for dim, me in (("rows", 60), ("cols", 20)):
        sub = [o for o in outs if o["job"]["dim"] == dim]
        acc, info = tlc.validate_traces("Trace_Workbook", _cfg(me), [o["trace"] for o in sub], shards=8, tag=f"trwb{dim}")
        rep.traces_validated += len(acc)
        rep.extra.setdefault("trace_runs", []).append({"source": f"run-length sheets ({dim}, limit {me}) in xlsx and xls", "traces": len(sub), "accepted": len(acc), "wall_s": round(info["wall"], 1)})
        for i, o in enumerate(sub):
            rep.case({"dim": dim, "pattern_rle": str(o["job"]["pattern"])[:80], "len": len(o["job"]["pattern"]), "fmt": o["job"]["fmt"], "h": hash(tuple(o["job"]["pattern"]))})
            if i not in acc:
                l, clause = info["progress"].get(i, (0, "unexplained_event"))
                rep.violation(f"{PROP}:{dim}:{clause}", f"clause {clause}; {dim} pattern of {len(o['job']['pattern'])} entries fmt={o['job']['fmt']} kept={o['trace'][0]['kept']} status={o['res']['status']} {o['res'].get('message')}"[:400],
                              {"runs": True, "job": o["job"], "clause": clause})
        if dim == "rows":
            okr = [o for i, o in enumerate(sub) if i in acc]
    # (2) typed cells
    outs_c = [_run_cells({"fmt": f}) for f in ("xlsx", "xls")]
    acc, info = tlc.validate_traces("Trace_Workbook", _cfg(60), [o["trace"] for o in outs_c], shards=1, tag="trwbcells")
    rep.traces_validated += len(acc)
    for i, o in enumerate(outs_c):
        rep.case({"cells": o["job"]["fmt"]})
        if i not in acc:
            l, clause = info["progress"].get(i, (0, "unexplained_event"))
            bad = [c for c in o["trace"][0]["cells"]]
            rep.violation(f"{PROP}:cells:{clause}", f"clause {clause}; fmt={o['job']['fmt']} cells={[(c['cell'], c['seen']) for c in bad]}"[:900], {"cells": True, "job": o["job"], "clause": clause})
    rep.sample({"typed_cells": outs_c[0]["trace"][0]["cells"][:6]})
    # (3) delivery matrix on feature-rich workbooks
    rnd = random.Random(f"c12:{rep.seed}")
    wbs = []
    shapes, g = corpus.gen_shapes("ok", 4)
    nforms = 30 if rep.tier == "quick" else 200
    for i, c in enumerate(corpus.pick([s for s in shapes if len(s["rows"]) == 4 and not any(r[0] == "blank" for r in s["rows"])], nforms, rep.seed)):
        f = formgen.decorate(c["rows"], seed=rep.seed + i, feat=corpus.ALL_FEAT)
        wb = f.wb()
        wbs.append(({"shapes": c["rows"]}, wb))
        wbs.append(({"shapes": c["rows"], "typed": True}, _typed_variant(wb, rnd)))
    for i in range(12 if rep.tier == "quick" else 60):
        cfg = {"nl": rnd.choice([1, 3]), "nm": 2, "nu": 0, "xc": 2, "fill": rnd.choice(["all", "alt"]), "inter": True, "dup": False, "depth": i % 3, "extras": rnd.choice([0, 3, 5]), "ext": rnd.choice([2, 3, 4])}
        sels = rnd.sample(["one", "filter", "randseed", "csv", "external", "other", "geojson_v"], 3)
        if "external" not in sels:
            sels.append("external")
        wb, _ = choicegen.build(cfg, sels)
        wbs.append(({"choices_cfg": cfg, "sels": sels}, _typed_variant(wb, rnd) if i % 2 else wb))
    # cell text containing Unicode line / paragraph separators and NEL (legal XML characters; not row boundaries in any container)
    wbs.append(({"unicode_line_separators": True}, {"sheets": [
        {"name": "survey", "header": ["type", "name", "label", "hint"], "rows": [["text", "q1", "line\u2028sep", "para\u2029sep"], ["text", "q2", "nel\u0085here", None],
                                                                                 ["select_one L", "q3", "Q3", "fs\u001c?".replace("\u001c?", "x")]]},
        {"name": "choices", "header": ["list_name", "name", "label"], "rows": [["L", "a", "c\u2028l"], ["L", "b", "B"]]}]}))
    # a misspelled optional sheet ("setting") beside the supported ones: the same notice from every container
    wbs.append(({"misspelled_sheet": "setting"}, {"sheets": [
        {"name": "survey", "header": ["type", "name", "label"], "rows": [["text", "q1", "Q1"], ["select_one L", "q2", "Q2"]]},
        {"name": "choices", "header": ["list_name", "name", "label"], "rows": [["L", "a", "A"], ["L", "b", "B"]]},
        {"name": "setting", "header": ["form_title"], "rows": [["T"]]}, {"name": "notes", "header": ["x"], "rows": [["y"]]}]}))
    stem_matrix = [m for m in matrix if m[1] in ("path_stem", "path_stem_odd")]
    matrix = [m for m in matrix if m[1] not in ("path_stem", "path_stem_odd")]
    mjobs = [{"tag": t, "wb": wb, "matrix": matrix} for t, wb in wbs]
    # the file stem supplies the default form id: the same stem under a regular and under an odd suffix (compared with each other)
    mjobs += [{"tag": {**t, "stem_channels": True}, "wb": wb, "matrix": stem_matrix} for t, wb in wbs[:6] + wbs[-2:]]
    mouts = conv.map_cases(_run_matrix, mjobs, chunksize=1)
    for o in mouts:
        if o.get("status") == "harness_error":
            raise tlc.MachineryError(o["message"] + "\n" + o.get("tb", ""))
    acc, info = tlc.validate_traces("Trace_Workbook", _cfg(60), [o["trace"] for o in mouts], shards=4, tag="trwbmatrix")
    rep.traces_validated += len(acc)
    rep.extra.setdefault("trace_runs", []).append({"source": f"delivery matrix ({len(matrix)} channels) x {len(mouts)} workbooks", "traces": len(mouts), "accepted": len(acc), "wall_s": round(info["wall"], 1)})
    nok = 0
    for i, o in enumerate(mouts):
        rep.case({"matrix": o["job"]["tag"]})
        nok += all(r["status"] == "ok" for r in o["trace"][0]["results"])
        if i not in acc:
            l, clause = info["progress"].get(i, (0, "unexplained_event"))
            rs = o["trace"][0]["results"]
            ref = rs[0]
            diff = [(r["f"], r["d"], r["ft"], r["status"], r["message"][:80]) for r in rs if (r["status"], r["xform"], r["warnings"], r["itemsets"]) != (ref["status"], ref["xform"], ref["warnings"], ref["itemsets"])]
            rep.violation(f"{PROP}:matrix:{clause}", f"clause {clause}; workbook {o['job']['tag']}: channels differing from {ref['f']}/{ref['d']}: {diff[:6]}"[:700], {"matrix": True, "wb": o["wb"], "clause": clause, "tag": o["job"]["tag"]})
    rep.extra["matrix_workbooks_all_ok"] = nok
    if nok < len(mouts) * 0.8 and not rep.violations:      # (with violations recorded, they are the verdict)
        raise tlc.MachineryError(f"matrix workbooks mostly not converting: {nok}/{len(mouts)}")
    # canaries
    base = next(o for o in okr if len(o["trace"][0]["kept"]) >= 2)
    cans = []
    t = copy.deepcopy(base["trace"]); t[0]["kept"] = t[0]["kept"][:-1]; t[0]["positions"] = t[0]["positions"][:-1]; cans.append(("last_row_truncated", t))
    t = copy.deepcopy(base["trace"]); t[0]["positions"] = [p + 1 for p in t[0]["positions"]]; cans.append(("row_numbers_shifted", t))
    mb = next(o for i, o in enumerate(mouts) if i in acc)
    t = copy.deepcopy(mb["trace"]); t[0]["results"][3]["xform"] = "different"; cans.append(("one_channel_differs", t))
    t = copy.deepcopy(mb["trace"]); t[0]["results"][5]["itemsets"] = "different"; cans.append(("itemsets_differ", t))
    t = copy.deepcopy(outs_c[0]["trace"]); t[0]["cells"][3]["seen"] = "3.0"; cans.append(("integral_float_not_canonical", t))
    a, _ = tlc.validate_traces("Trace_Workbook", _cfg(60), [c[1] for c in cans] + [base["trace"]], shards=1, tag="canary")
    wrongly = [cans[i][0] for i in a if i < len(cans)]
    if wrongly or len(cans) not in a:
        raise tlc.MachineryError(f"canary failure: accepted {wrongly}; control accepted={len(cans) in a}")
    rep.extra["canaries_rejected"] = [c[0] for c in cans]
    # the line machines of the two text containers (TextTables.tla), this property's clauses
    from harness.props import _texttables

    _texttables.run(rep, PROP)


def replay(rep, case):
    c = case["case"]
    if c.get("texttable"):
        from harness.props import _texttables

        return _texttables.replay(rep, PROP, c)
    if c.get("runs"):
        o = _run_runs(c["job"])
        acc, info = tlc.validate_traces("Trace_Workbook", _cfg(60 if c["job"]["dim"] == "rows" else 20), [o["trace"]], shards=1, tag="replay")
    elif c.get("cells"):
        o = _run_cells(c["job"])
        acc, info = tlc.validate_traces("Trace_Workbook", _cfg(60), [o["trace"]], shards=1, tag="replay")
    else:
        cases, g = tlc.generate("Gen_Workbook", corpus._cfg("Gen_Workbook.cfg", "SPECIFICATION MSpec\nCONSTANT MaxEmpty = 2\nCONSTANT MaxLen = 0\nCONSTRAINT Emit\nCHECK_DEADLOCK FALSE\n"), tag="genwb")
        matrix = [m for x in cases if "matrix" in x for m in x["matrix"]]
        o = _run_matrix({"tag": c.get("tag"), "wb": c["wb"], "matrix": matrix})
        acc, info = tlc.validate_traces("Trace_Workbook", _cfg(60), [o["trace"]], shards=1, tag="replay")
    rep.traces_validated += len(acc)
    if 0 not in acc:
        rep.violation(f"{PROP}:{info['progress'].get(0, (0, '?'))[1]}", "replay", c)
