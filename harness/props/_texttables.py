"""TextTables.tla bound to the two text readers (md_to_dict, csv_to_dict) and to convert().

C12 / C13: a text of the documented shape, with any noise lines, is read as the workbook it denotes by both readers;
C17: no line sequence makes a reader or the conversion end in anything but a result or the library's error."""

import copy

INVS = ["ReadersMeetEnvelope", "NoiseFree", "NoSheetFromNowhere"]


def _gcfg(n, wild):
    from harness import corpus

    inv = "".join(f"INVARIANT {i}\n" for i in INVS)
    return corpus._cfg(f"Gen_TextTables_{n}_{int(wild)}.cfg",
                       f"SPECIFICATION TTSpec\nCONSTANT MaxLines = {n}\nCONSTANT Wild = {'TRUE' if wild else 'FALSE'}\n{inv}CONSTRAINT Emit\nCHECK_DEADLOCK FALSE\n")


def _tcfg():
    from harness import corpus

    return corpus._cfg("Trace_TextTables.cfg", "SPECIFICATION TSpec\nCONSTANT MaxLines = 0\nCONSTANT Wild = TRUE\nCONSTRAINT TAccepted\nCHECK_DEADLOCK FALSE\n")


def run(rep, prop):
    from harness import conv, texttablegen, tlc

    nt, nw = (5, 3) if rep.tier == "quick" else (6, 4)
    tame, r1 = tlc.generate("Gen_TextTables", _gcfg(nt, False), tag="gentt", timeout=1500)
    wild, r2 = tlc.generate("Gen_TextTables", _gcfg(nw, True), tag="genttw", timeout=1500)
    rep.add_mc(r1, f"Gen_TextTables (documented shape): every text of <= {nt} lines (sheet / header / data incl. short and blank rows / separator / comment / blank line); "
                   "ReadersMeetEnvelope (MdRead = CsvRead = Canon), NoiseFree, NoSheetFromNowhere")
    rep.add_mc(r2, f"Gen_TextTables (any line sequence): every text of <= {nw} lines incl. rows wider than the header, a header on the sheet line, repeated and unknown sheets")
    seen = set()
    cases = []
    for c in tame + wild:
        k = repr(c["lines"])
        if k not in seen:
            seen.add(k)
            cases.append(c)
    rep.bounds["text_tables"] = {"documented_max_lines": nt, "wild_max_lines": nw, "texts": len(cases), "documented_shape": sum(1 for c in cases if c["dom"])}
    outs = conv.map_cases(texttablegen.run, [{"lines": c["lines"], "style": i} for i, c in enumerate(cases)], chunksize=64)
    for o in outs:
        if o.get("status") == "harness_error":
            raise tlc.MachineryError(o["message"] + "\n" + o.get("tb", ""))
    acc, info = tlc.validate_traces("Trace_TextTables", _tcfg(), [o["trace"] for o in outs], shards=8, env={"PROP": prop}, tag="trtt", timeout=1500)
    rep.traces_validated += len(acc)
    rep.extra.setdefault("trace_runs", []).append({"source": "TextTables line sequences rendered as Markdown and as CSV, read by md_to_dict / csv_to_dict and converted",
                                                   "traces": len(outs), "accepted": len(acc), "drift_from_transcription": len(info["drift"]), "wall_s": round(info["wall"], 1)})
    if info["drift"]:
        rep.drift.append(f"{len(info['drift'])} texts outside the documented shape are read differently from TextTables!MdRead / CsvRead "
                         "(a header cell written twice: the later column's value is kept)")
    for i, o in enumerate(outs):
        rep.case({"texttable": o["md"]})
        if i in acc:
            continue
        l, clause = info["progress"].get(i, (0, "unexplained_event"))
        e = o["trace"][0]
        rep.violation(f"{prop}:texttable:{clause}", f"clause {clause}; markdown {o['md']!r} md={e['md']} csv={e['csv']} conv={e['conv_md']}/{e['conv_csv']}"[:600],
                      {"texttable": True, "job": o["job"], "clause": clause})
    _canaries(rep, prop, outs, acc)


def _canaries(rep, prop, outs, acc):
    from harness import tlc

    base = next((o for i, o in enumerate(outs) if i in acc and o["trace"][0]["md"]["status"] == "ok" and o["trace"][0]["csv"]["status"] == "ok"
                 and any(s["rows"] and any(r for r in s["rows"]) for s in o["trace"][0]["md"]["sheets"])), None)
    if base is None:
        if rep.violations:
            return
        raise tlc.MachineryError("texttables: no accepted execution to corrupt")
    cans = []
    if prop in ("C12", "C13"):
        t = copy.deepcopy(base["trace"]); s = next(s for s in t[0]["md"]["sheets"] if s["rows"]); s["rows"] = s["rows"][:-1]; cans.append(("markdown_row_lost", t))
        t = copy.deepcopy(base["trace"]); s = next(s for s in t[0]["csv"]["sheets"] if s["rows"] and any(s["rows"]))
        r = next(r for r in s["rows"] if r); r[0][1] = "zz"; cans.append(("csv_cell_changed", t))
        t = copy.deepcopy(base["trace"]); t[0]["md"]["sheets"][0]["header"] = t[0]["md"]["sheets"][0]["header"][::-1]; cans.append(("header_order_changed", t))
    if prop == "C17":
        t = copy.deepcopy(base["trace"]); t[0]["md"] = {"status": "crash:IndexError", "sheets": []}; cans.append(("markdown_reader_crash", t))
        t = copy.deepcopy(base["trace"]); t[0]["conv_csv"] = "crash:KeyError"; cans.append(("csv_conversion_crash", t))
    a, _ = tlc.validate_traces("Trace_TextTables", _tcfg(), [c[1] for c in cans] + [base["trace"]], shards=1, env={"PROP": prop}, tag="canarytt")
    if any(i in a for i in range(len(cans))) or len(cans) not in a:
        raise tlc.MachineryError(f"texttables canary failure ({prop}): accepted {[cans[i][0] for i in a if i < len(cans)]}, control accepted: {len(cans) in a}")
    rep.extra.setdefault("canaries_rejected", []).extend(c[0] for c in cans)


def replay(rep, prop, c):
    from harness import texttablegen, tlc

    o = texttablegen.run(c["job"])
    acc, info = tlc.validate_traces("Trace_TextTables", _tcfg(), [o["trace"]], shards=1, env={"PROP": prop}, tag="replay")
    rep.traces_validated += len(acc)
    rep.case({"texttable": o["md"]})
    if 0 not in acc:
        clause = info["progress"].get(0, (0, "?"))[1]
        rep.violation(f"{prop}:texttable:{clause}", f"replay: clause {clause}; md={o['trace'][0]['md']} csv={o['trace'][0]['csv']}"[:500], c)
