"""C05 - logic cells reach the right bind unchanged, with the type the table prescribes."""

import copy

from harness.props import _logic

PROP = "C05"


def _canaries(sub, acc):
    base = next(o for i, o in enumerate(sub) if i in acc and o["res"]["status"] == "ok" and len(o["trace"][-1]["src"]["binds"]) >= 2
                and any(a[2] == "lit" and a[0] not in ("type",) for b in o["trace"][-1]["src"]["binds"] for a in b[1]))
    cans = []
    t = copy.deepcopy(base["trace"])
    b = next(b for b in t[-1]["obs"]["binds"] if len(b["attrs"]) >= 2)
    b["attrs"] = b["attrs"][:-1]
    cans.append(("attribute_dropped", t))
    t = copy.deepcopy(base["trace"])
    bs = [b for b in t[-1]["obs"]["binds"] if b["attrs"]]
    bs[0]["attrs"], bs[1]["attrs"] = bs[1]["attrs"], bs[0]["attrs"]
    cans.append(("binds_swapped_between_rows", t))
    t = copy.deepcopy(base["trace"])
    for b in t[-1]["obs"]["binds"]:
        for a in b["attrs"]:
            if a[0] == "type":
                a[1] = "int" if a[1] != "int" else "string"
                break
        else:
            continue
        break
    cans.append(("type_changed", t))
    cans.append(("control", base["trace"]))
    return cans


def run(rep):
    rep.rule = ("row structures from TLC (Gen_RowParser); each question/section row gets a random subset of the logic columns "
                "(relevant, required, read only, constraint, constraint/required message, calculation, bind::custom, bind::odk:length, "
                "parameter-derived bind attributes) under a random documented alias spelling, in shuffled column order, values unique "
                "per (row, column), yes/no spellings, references. The end event carries the source-side meaning of every cell; TLC "
                "(Trace_RowParser, PROP=C05) checks each node's bind = frozen type-table bind (+) cells, exactly once, nothing extra.")
    rep.assumptions = ["alias catalogue and type table are the specification's own (logicgen.SPELL, TypeTable.tla)",
                       "values with references are compared after path tokens are normalised on both sides (C03 judges the paths)"]
    _logic.run(rep, PROP, "binds", _canaries)


def replay(rep, case):
    _logic.replay(rep, PROP, case)
