"""C05 - logic cells reach the right bind unchanged, with the type the table prescribes."""

import copy

from harness.props import _logic

PROP = "C05"


def _canaries(sub, acc):
    base = next(o for i, o in enumerate(sub) if i in acc and o["res"]["status"] == "ok" and len(o["trace"][-1]["src"]["binds"]) >= 2
                and any(a[2] == "lit" and a[0] not in ("type",) for b in o["trace"][-1]["src"]["binds"] for a in b[1]))
    cans = []
    t = copy.deepcopy(base["trace"])
    b = next(b for b in t[-1]["obs"]["binds"] if len(b["attrs"]) >= 2)
    b["attrs"] = b["attrs"][:-1]
    cans.append(("attribute_dropped", t))
    t = copy.deepcopy(base["trace"])
    bs = [b for b in t[-1]["obs"]["binds"] if b["attrs"]]
    bs[0]["attrs"], bs[1]["attrs"] = bs[1]["attrs"], bs[0]["attrs"]
    cans.append(("binds_swapped_between_rows", t))
    t = copy.deepcopy(base["trace"])
    for b in t[-1]["obs"]["binds"]:
        for a in b["attrs"]:
            if a[0] == "type":
                a[1] = "int" if a[1] != "int" else "string"
                break
        else:
            continue
        break
    cans.append(("type_changed", t))
    cans.append(("control", base["trace"]))
    return cans


def run(rep):
    rep.rule = ("row structures from TLC (Gen_RowParser); each question/section row gets a random subset of the logic columns "
                "(relevant, required, read only, constraint, constraint/required message, calculation, bind::custom, bind::odk:length, "
                "parameter-derived bind attributes) under a random documented alias spelling, in shuffled column order, values unique "
                "per (row, column), yes/no spellings, references. The end event carries the source-side meaning of every cell; TLC "
                "(Trace_RowParser, PROP=C05) checks each node's bind = frozen type-table bind (+) cells, exactly once, nothing extra.")
    rep.assumptions = ["alias catalogue and type table are the specification's own (logicgen.SPELL, TypeTable.tla)",
                       "values with references are compared after path tokens are normalised on both sides (C03 judges the paths)"]
    _logic.run(rep, PROP, "binds", _canaries)
    part_parameters(rep)
    # the per-type decision table of the parameters cell (TypeParams.tla), this property's clauses
    from harness.props import _typeparams

    _typeparams.run(rep, PROP)
    # a logic attribute given to one question of a live Survey object (builder API) belongs to that question's bind only,
    # in every later render (SurveyObject.tla: Mark)
    from harness.props import c02

    c02.part_histories(rep, PROP)


PAR_CFG = "SPECIFICATION TSpec\nCONSTANT MaxItems = 0\nCONSTRAINT Accepted\nCHECK_DEADLOCK FALSE\n"


def part_parameters(rep):
    """Parameters.tla: the `parameters` cell grammar (envelope Meaning + transcription Parse) against the real parser."""
    from harness import conv, corpus, paramgen, tlc

    n = 3 if rep.tier == "quick" else 4
    cfg = corpus._cfg(f"Gen_Parameters_{n}.cfg", f"SPECIFICATION PSpec\nCONSTANT MaxItems = {n}\nINVARIANT TranscriptionMeetsEnvelope\nINVARIANT SeparatorsAgree\nCONSTRAINT Emit\nCHECK_DEADLOCK FALSE\n")
    if n == 3:
        cases, r = tlc.generate("Gen_Parameters", cfg, tag="genpar", timeout=900)
    else:
        c3, r = tlc.generate("Gen_Parameters", corpus._cfg("Gen_Parameters_3.cfg", "SPECIFICATION PSpec\nCONSTANT MaxItems = 3\nINVARIANT TranscriptionMeetsEnvelope\nINVARIANT SeparatorsAgree\nCONSTRAINT Emit\nCHECK_DEADLOCK FALSE\n"), tag="genpar", timeout=900)
        c4, _ = tlc.generate("Gen_Parameters", cfg, tag="genpar4", simulate="num=40000", depth=7, seed=rep.seed + 5, timeout=900)
        cases = c3 + [c for c in c4 if len(c["cell"]["items"]) == 4]
    rep.add_mc(r, "Gen_Parameters: every cell of <= 3 key=value items x 6 separator styles x blanks around '='; TranscriptionMeetsEnvelope, SeparatorsAgree")
    rep.bounds["parameter_cells"] = {"max_items": n, "cases": len(cases), "documented_style": sum(1 for c in cases if c["dom"])}
    outs = conv.map_cases(paramgen.run, [{"cell": c["cell"], "text": c["text"]} for c in cases], chunksize=512)
    for o in outs:
        if o.get("status") == "harness_error":
            raise tlc.MachineryError(o["message"] + "\n" + o.get("tb", ""))
    tcfg = corpus._cfg("Trace_Parameters.cfg", PAR_CFG)
    acc, info = tlc.validate_traces("Trace_Parameters", tcfg, [o["trace"] for o in outs], shards=8, tag="trpar", timeout=1200)
    rep.traces_validated += len(acc)
    rep.extra.setdefault("trace_runs", []).append({"source": "parameter cells through the real parameters_generic.parse", "traces": len(outs), "accepted": len(acc),
                                                   "drift_from_transcription": len(info["drift"]), "wall_s": round(info["wall"], 1)})
    if info["drift"]:
        rep.drift.append(f"{len(info['drift'])} parameter cells parse differently from Parameters!Parse (envelope intact)")
    for i, o in enumerate(outs):
        rep.case({"parameters": o["job"]["text"]})
        if i in acc:
            continue
        l, clause = info["progress"].get(i, (0, "unexplained_event"))
        rep.violation(f"{PROP}:parameters:{clause}", f"clause {clause}; cell {o['job']['text']!r} real={o['trace'][0]['real']}"[:400], {"parameters": True, "job": o["job"], "clause": clause})
    ok = [o for i, o in enumerate(outs) if i in acc and len(o["trace"][0]["real"]["pairs"]) >= 2 and o["trace"][0]["real"]["status"] == "ok"]
    dom = [o for o in ok if all(s == ";" for s in o["job"]["cell"]["seps"]) and all(i["eq"] == "=" for i in o["job"]["cell"]["items"])]
    if not dom:
        if rep.violations:
            return
        raise tlc.MachineryError("parameters: no accepted execution to corrupt")
    cans = []
    t = copy.deepcopy(dom[0]["trace"]); t[0]["real"]["pairs"] = t[0]["real"]["pairs"][:-1]; cans.append(("parameter_dropped", t))
    t = copy.deepcopy(dom[0]["trace"]); t[0]["real"]["status"] = "crash:ValueError"; cans.append(("parameter_parser_crash", t))
    t = copy.deepcopy(dom[0]["trace"]); t[0]["real"]["status"] = "pyxform_error"; t[0]["real"]["pairs"] = []; cans.append(("documented_cell_refused", t))
    a, _ = tlc.validate_traces("Trace_Parameters", tcfg, [c[1] for c in cans] + [dom[0]["trace"]], shards=1, tag="canary")
    if any(i in a for i in range(len(cans))) or len(cans) not in a:
        raise tlc.MachineryError(f"parameters canary failure: accepted {[cans[i][0] for i in a if i < len(cans)]}")
    rep.extra.setdefault("canaries_rejected", []).extend(c[0] for c in cans)


def replay(rep, case):
    c = case["case"]
    if "history" in c:
        from harness.props import c02

        return c02.replay_history(rep, PROP, c)
    if c.get("typeparams"):
        from harness.props import _typeparams

        return _typeparams.replay(rep, PROP, c)
    if c.get("parameters"):
        from harness import corpus, paramgen, tlc

        o = paramgen.run(c["job"])
        acc, info = tlc.validate_traces("Trace_Parameters", corpus._cfg("Trace_Parameters.cfg", PAR_CFG), [o["trace"]], shards=1, tag="replay")
        rep.traces_validated += len(acc)
        rep.case(c["job"]["text"])
        if 0 not in acc:
            rep.violation(f"{PROP}:parameters:{info['progress'].get(0, (0, '?'))[1]}", "replay", c)
        return
    _logic.replay(rep, PROP, case)
