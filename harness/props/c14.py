"""C14 - conversion is a pure function of its input."""

from __future__ import annotations

import copy
import json
import os
import shutil
import subprocess
import sys
import tempfile
import threading

from harness import conv, corpus, formgen, tlc

PROP = "C14"
CFG = 'CONSTANT Forms = {"f1", "f2", "f3"}\nCONSTANT Threads = {"t1", "t2"}\nCONSTANT MaxConv = 3\nCONSTANT MaxAgain = 1\n'
TRACE_CFG = "SPECIFICATION TSpec\n" + CFG + "CONSTRAINT Accepted\nCHECK_DEADLOCK FALSE\n"
_STATE = {}


def _replay(job):
    """replay histories in this worker process (state accumulates across histories on purpose)"""
    from harness import procsim

    if "stepper" not in _STATE:
        tmp = tempfile.mkdtemp(prefix="c14-", dir="/var/tmp")
        os.environ["TMPDIR"] = tmp
        tempfile.tempdir = tmp
        _STATE.update(tmp=tmp, forms=procsim.corpus_forms(), tables=procsim.tables_digest())
        _STATE["stepper"] = procsim.Stepper(_STATE["forms"])
    st = _STATE["stepper"]
    canon = job["canon"]
    trace = []
    for t, op, f in job["hist"]:
        d = st.step(t, op, f)
        trace.append({"ev": "step", "t": t, "op": op, "f": f, "digest": d, "canon": (canon[f][1] if op == "again" else canon[f][0]) if d else "",
                      "tables_ok": procsim.tables_digest() == _STATE["tables"], "tmp_ok": os.listdir(_STATE["tmp"]) == []})
    return {"hist": job["hist"], "trace": trace}


SEED_DRIVER = r'''
import json, sys
sys.path.insert(0, sys.argv[1]); sys.path.insert(0, sys.argv[2])
from harness import procsim, render
from pyxform.xls2xform import convert
wbs = json.loads(sys.stdin.read())
out = []
for wb in wbs:
    try:
        if isinstance(wb, dict) and "sheets" in wb:
            wb = render.to_dict(wb)
        # the same input object is converted twice: the second result must equal the first (a conversion must not consume its input)
        for _ in range(2):
            r = convert(xlsform=wb, validate=False, pretty_print=False)
            out.append(procsim.digest(r.xform, r.warnings, r.itemsets))
    except Exception as e:
        out.append("error:" + type(e).__name__ + ":" + str(e)[:60])
        out.append("error")
# the same path read again after the file was replaced: the result is that of the new content (no cache keyed on the path)
import os, tempfile, shutil
paths = []
sheets = [w for w in wbs if isinstance(w, dict) and "sheets" in w][:10]
root = tempfile.mkdtemp(prefix="c14p-", dir="/var/tmp")
try:
    da, db = os.path.join(root, "a"), os.path.join(root, "b")
    os.mkdir(da); os.mkdir(db)
    pa, pb = os.path.join(da, "form.xlsx"), os.path.join(db, "form.xlsx")
    for i in range(len(sheets) - 1):
        try:
            open(pa, "wb").write(render.to_xlsx(sheets[i]))
            convert(xlsform=pa, validate=False, pretty_print=False)
            open(pa, "wb").write(render.to_xlsx(sheets[i + 1]))
            r1 = convert(xlsform=pa, validate=False, pretty_print=False)
            open(pb, "wb").write(render.to_xlsx(sheets[i + 1]))
            r2 = convert(xlsform=pb, validate=False, pretty_print=False)
            paths.append([procsim.digest(r1.xform, r1.warnings, r1.itemsets), procsim.digest(r2.xform, r2.warnings, r2.itemsets)])
        except Exception as e:
            paths.append(["error:" + type(e).__name__ + ":" + str(e)[:60], "fresh"])
finally:
    shutil.rmtree(root, ignore_errors=True)
print("@@" + json.dumps({"out": out, "paths": paths}))
'''


def _seed_run(args):
    wbs, seed, repo = args
    env = dict(os.environ, PYTHONHASHSEED=str(seed), PYTHONPATH=repo)
    env.pop("PYXFORM_VERIF", None)
    import json

    p = subprocess.run([sys.executable, "-c", SEED_DRIVER, repo, "/verif"], input=json.dumps(wbs), env=env, capture_output=True, text=True, timeout=900)
    if "@@" not in p.stdout:
        raise tlc.MachineryError("seed driver failed: " + p.stderr[-400:])
    return json.loads(p.stdout.split("@@")[1])


COLD_DRIVER = r'''
import builtins, json, os, sys, threading
sys.path.insert(0, sys.argv[1]); sys.path.insert(0, sys.argv[2])
from harness import procsim
import pyxform
from pyxform.xls2xform import convert
forms = json.loads(sys.stdin.read()); k = int(sys.argv[3])
pkg = os.path.dirname(pyxform.__file__)
real_open = builtins.open
count = {"n": 0}; reached = threading.Event(); gate = threading.Event()
def patched(file, *a, **kw):
    # thread A is descheduled at its k-th read of a data file of the package (a blocking call: the interpreter lock is released there)
    if threading.current_thread().name == "A" and str(file).startswith(pkg) and not str(file).endswith((".py", ".pyc")):
        count["n"] += 1
        if count["n"] == k:
            reached.set(); gate.wait(60)
    return real_open(file, *a, **kw)
builtins.open = patched
out = {}
def work(name, f):
    try:
        r = convert(xlsform=forms[f], validate=False, pretty_print=False)
        out[name] = procsim.digest(r.xform, r.warnings, r.itemsets)
    except Exception as e:
        out[name] = "error:" + type(e).__name__ + ":" + str(e)[:80]
ta = threading.Thread(target=work, args=("A", sys.argv[4]), name="A"); ta.start()
hit = reached.wait(30)
tb = threading.Thread(target=work, args=("B", sys.argv[5]), name="B"); tb.start(); tb.join(60)
gate.set(); ta.join(60)
print("@@" + json.dumps({"out": out, "paused": hit}))
'''


def cold_forms():
    """forms whose first conversion in a process loads package data lazily (language subtag lists), with 2-letter and longer subtags, known and unknown"""
    c1 = """| survey |
| | type | name | label::Filipino (fil) | label::English (en) | hint::Cebuano (ceb) |
| | text | q1 | Q1 fil | Q1 en | h ceb |
| | integer | q2 | Q2 fil | Q2 en | |
"""
    c2 = """| survey |
| | type | name | label::French (fr) | label::Klingon (tlh) | label::Nolang (zzzz) |
| | text | q1 | Q1 fr | Q1 tlh | Q1 zz |
"""
    return {"c1": c1, "c2": c2}


def twin_forms():
    """pairs of forms that agree in every name and path but differ in structure or content: whatever is remembered about one must not
    answer a question about the other"""
    head = "| survey |\n| | type | name | label | calculation |\n"
    ta = head + "| | begin repeat | r1 | R1 | |\n| | begin group | g1 | G1 | |\n| | text | a | A | |\n| | end group | | | |\n| | begin group | g2 | G2 | |\n| | calculate | b | | ${a} + 1 |\n| | end group | | | |\n| | end repeat | | | |\n"
    tb = head + "| | begin repeat | r1 | R1 | |\n| | begin repeat | g1 | G1 | |\n| | text | a | A | |\n| | end repeat | | | |\n| | begin group | g2 | G2 | |\n| | calculate | b | | ${a} + 1 |\n| | end group | | | |\n| | end repeat | | | |\n"
    tc = "| survey |\n| | type | name | label |\n| | select_one L | s | S ${s} |\n| choices |\n| | list_name | name | label |\n| | L | x | X one |\n| | L | y | Y |\n"
    td = "| survey |\n| | type | name | label |\n| | select_one L | s | S ${s} |\n| choices |\n| | list_name | name | label |\n| | L | x | X other |\n"
    return [("group_or_repeat", {"tA": ta, "tB": tb}), ("same_list_other_choices", {"tC": tc, "tD": td})]


def _cold_and_twins(repo, quick):
    """-> list of fact events"""
    from harness import procsim

    facts = []
    cf = cold_forms()
    canon = {k: procsim.canon({k: v}, repo)[k][0] for k, v in cf.items()}        # each in an interpreter of its own
    env = dict(os.environ, PYTHONHASHSEED="0", PYTHONPATH=repo)
    env.pop("PYXFORM_VERIF", None)
    paused = 0
    for a in cf:
        for b in cf:
            for k in (1, 2):
                p = subprocess.run([sys.executable, "-c", COLD_DRIVER, repo, "/verif", str(k), a, b], input=json.dumps(cf), env=env, capture_output=True, text=True, timeout=300)
                if "@@" not in p.stdout:
                    raise tlc.MachineryError("cold-start driver failed: " + p.stderr[-400:])
                o = json.loads(p.stdout.split("@@")[1])
                paused += bool(o["paused"])
                for t, f in (("A", a), ("B", b)):
                    facts.append({"ev": "fact", "digest": o["out"].get(t, "error:no result"), "canon": canon[f],
                                  "what": f"cold start: thread A ({a}) descheduled at its read #{k} of a package data file while thread B ({b}) converts; result of {t}"})
    if paused == 0:
        raise tlc.MachineryError("cold-start schedules: thread A never reached a package data file read")
    for name, pair in twin_forms():
        can = {k: procsim.canon({k: v}, repo)[k][0] for k, v in pair.items()}
        ks = list(pair)
        for order in (ks, ks[::-1], ks + ks[::-1]):
            res = procsim.canon({f"{i}:{k}": pair[k] for i, k in enumerate(order)}, repo)
            for key, v in res.items():
                facts.append({"ev": "fact", "digest": v[0], "canon": can[key.split(":")[1]], "what": f"twin forms {name}: batch order {order}, result of {key}"})
        # ... and converted by free-running threads at the same time (what one render remembers about a path must not answer the other's question)
        for f, d in _free_running(pair, can, 8, 12 if quick else 60):
            facts.append({"ev": "fact", "digest": d, "canon": can[f], "what": f"twin forms {name}: free-running threads, result of {f}"})
    return facts


def _free_running(forms, canon, nthreads, rounds):
    from pyxform.xls2xform import convert

    from harness import procsim

    old = sys.getswitchinterval()
    sys.setswitchinterval(1e-6)
    res = []
    lock = threading.Lock()

    def work(i):
        names = sorted(forms)
        for k in range(rounds):
            f = names[(i + k) % len(names)]
            try:
                r = convert(xlsform=forms[f], validate=False, pretty_print=False)
                d = procsim.digest(r.xform, r.warnings, r.itemsets)
            except Exception as e:  # noqa: BLE001
                d = "error:" + type(e).__name__
            with lock:
                res.append((f, d))

    try:
        ts = [threading.Thread(target=work, args=(i,)) for i in range(nthreads)]
        for t in ts:
            t.start()
        for t in ts:
            t.join()
    finally:
        sys.setswitchinterval(old)
    return res


def run(rep):
    from harness import procsim

    repo = os.environ.get("VERIF_REPO", "/repo")
    rep.rule = ("Process.tla models conversions as multi-step operations (Parse, Build, Xml, re-render) of 2 threads over 3 forms sharing memo caches (content-keyed "
                "and survey-identity-keyed); TLC checks ResultPure, CacheCoherent and IdentitiesDistinct on every history of 3 conversions (160k states) and emits the "
                "complete histories. A sample of them (all distinct step sequences of the quick budget) is replayed in real worker processes: real threads are parked at "
                "the phase yield points of the hooks and released in the TLC order; every step must be enabled in the model and every returned result (XForm, warnings, "
                "itemsets; re-rendered XForm) must equal the canonical digest computed in a fresh interpreter; module-level tables and the private temp dir are compared "
                "after every step. Plus: free-running threads with a 1 microsecond switch interval, and a PYTHONHASHSEED sweep over a corpus of feature-rich forms.")
    rep.assumptions = ["interleavings below phase granularity are sampled (free-running threads), not enumerated",
                       "canonical result = fresh interpreter, PYTHONHASHSEED=0, hooks off"]
    cfg = corpus._cfg("Gen_Process.cfg", "SPECIFICATION PSpec\n" + CFG + "INVARIANT ResultPure\nINVARIANT CacheCoherent\nINVARIANT IdentitiesDistinct\nCONSTRAINT Emit\nCHECK_DEADLOCK FALSE\n")
    cases, r = tlc.generate("Gen_Process", cfg, tag="genproc", timeout=1500, heap="8g")
    rep.add_mc(r, "Process: every history of 3 conversions x 2 threads x 3 forms, re-render <= 1: ResultPure, CacheCoherent, IdentitiesDistinct")
    hists = [c["hist"] for c in cases if "hist" in c]
    lim = 320 if rep.tier == "quick" else 6000
    sel = corpus.pick(hists, lim, rep.seed)
    rep.bounds["histories"] = {"complete": len(hists), "replayed": len(sel)}
    forms = procsim.corpus_forms()
    canon = procsim.canon(forms, repo)
    for k, v in canon.items():
        if v[0].startswith("error"):
            raise tlc.MachineryError(f"corpus form {k} does not convert: {v[0]}")
    outs = conv.map_cases(_replay, [{"hist": h, "canon": canon} for h in sel], chunksize=4)
    for o in outs:
        if o.get("status") == "harness_error":
            raise tlc.MachineryError(o["message"] + "\n" + o.get("tb", ""))
    traces = [o["trace"] for o in outs]
    # free-running threads
    fr = _free_running(forms, canon, 8, 6 if rep.tier == "quick" else 40)
    traces.append([{"ev": "fact", "digest": d, "canon": canon[f][0], "what": "free-running"} for f, d in fr])
    # cold start (first use of lazily loaded package data with another thread running) and twin forms (same names, other structure)
    cold = _cold_and_twins(repo, rep.tier == "quick")
    traces.append(cold)
    rep.bounds["cold_start_and_twins"] = {"facts": len(cold)}
    # hash-seed sweep
    shapes, g = corpus.gen_shapes("ok", 4)
    nforms = 40 if rep.tier == "quick" else 300
    wbs = [formgen.decorate(c["rows"], seed=rep.seed + i, feat=corpus.ALL_FEAT).wb() for i, c in enumerate(corpus.pick(shapes, nforms, rep.seed))]
    # the workbooks the repository's own test-suite converts (frozen input corpus), accepted ones
    from harness import suitecorpus

    sw = [it["wb"] for it in suitecorpus.load() if it["status_at_freeze"] == "ok"]
    wbs += sw if rep.tier == "thorough" else corpus.pick(sw, 200, rep.seed)
    wbs += [forms["f1"], forms["f2"], forms["f3"]] + procsim.extra_forms()       # (the named forms stay last)
    seeds = list(range(8)) if rep.tier == "quick" else list(range(48))
    from concurrent.futures import ThreadPoolExecutor

    with ThreadPoolExecutor(max_workers=8) as ex:
        sweeps = list(ex.map(_seed_run, [(wbs, s, repo) for s in seeds]))
    # canonical value of form i = its FIRST conversion under seed 0; every (seed, repetition) must reproduce it
    ref = [sweeps[0]["out"][2 * (i // 2)] for i in range(len(sweeps[0]["out"]))]
    for s, sw in zip(seeds, sweeps):
        traces.append([{"ev": "fact", "digest": d, "canon": c, "what": f"seed {s} form {i // 2} conversion {i % 2 + 1}"} for i, (d, c) in enumerate(zip(sw["out"], ref))])
        traces.append([{"ev": "fact", "digest": d, "canon": c, "what": f"seed {s} path pair {i}: the same path read again after its file was replaced"} for i, (d, c) in enumerate(sw["paths"])])
    rep.bounds["hash_seeds"] = {"seeds": len(seeds), "forms": len(wbs)}
    tcfg = corpus._cfg("Trace_Process.cfg", TRACE_CFG)
    acc, info = tlc.validate_traces("Trace_Process", tcfg, traces, shards=8, tag="trc14")
    rep.traces_validated += len(acc)
    rep.extra.setdefault("trace_runs", []).append({"source": "replayed histories + free-running threads + seed sweep", "traces": len(traces), "accepted": len(acc), "wall_s": round(info["wall"], 1)})
    for i, t in enumerate(traces):
        rep.case({"trace": i, "len": len(t), "first": t[0] if t else None})
        if i in acc:
            continue
        l, clause = info["progress"].get(i, (0, "unexplained_event"))
        ev = t[l - 1] if 0 < l <= len(t) else {}
        kind = "history" if ev.get("ev") == "step" else ("path" if "path pair" in str(ev.get("what")) else "cold_start" if "cold start" in str(ev.get("what")) else
                                                          "twins" if "twin forms" in str(ev.get("what")) else "seed" if "seed" in str(ev.get("what")) else "threads")
        which = ""
        if kind == "seed":
            idx = int(str(ev["what"]).split("form ")[1].split()[0])
            names = ["f1", "f2", "f3", "pulldata_many_files", "many_namespaces", "dict_external_choices_without_header", "dict_form_id_and_id_string", "several_misspelled_sheets"]
            which = ":" + names[idx - (len(wbs) - len(names))] if idx >= len(wbs) - len(names) else ":decorated_form"
            which += ":second_conversion_of_same_object" if str(ev["what"]).endswith("conversion 2") and "seed 0 " in str(ev["what"]) + " " else ""
        rep.violation(f"{PROP}:{clause}:{kind}{which}", f"clause {clause} at event {l}: {ev} history={outs[i]['hist'] if i < len(outs) else ''}"[:700],
                      {"kind": kind, "event": ev, "hist": outs[i]["hist"] if i < len(outs) else None, "wb": (wbs[int(str(ev['what']).split('form ')[1].split()[0])] if kind == 'seed' else None), "seed": ev.get("what")})
    rep.sample({"history": outs[0]["hist"], "steps": outs[0]["trace"][:3]})
    ok = [i for i in range(len(outs)) if i in acc]
    base = traces[ok[0]]
    cans = []
    t = copy.deepcopy(base); next(e for e in t if e["digest"])["digest"] = "somethingelse"; cans.append(("result_depends_on_history", t))
    t = copy.deepcopy(base); t[1]["tables_ok"] = False; cans.append(("module_table_mutated", t))
    t = copy.deepcopy(base); t[-1]["tmp_ok"] = False; cans.append(("temp_file_left", t))
    t = copy.deepcopy(base); t[0]["op"] = "xml"; cans.append(("not_a_model_behaviour", t))   # rendering before anything was parsed
    a, _ = tlc.validate_traces("Trace_Process", tcfg, [c[1] for c in cans] + [base], shards=1, tag="canary")
    wrongly = [cans[i][0] for i in a if i < len(cans)]
    if wrongly or len(cans) not in a:
        raise tlc.MachineryError(f"canary failure: accepted {wrongly}; control accepted={len(cans) in a}")
    rep.extra["canaries_rejected"] = [c[0] for c in cans]
    # a render must leave nothing behind that changes a later render of the same (meanwhile extended) Survey object: SurveyObject.tla histories
    # with references, repeats attached between renders and a re-parented group, judged by the clauses of PROP=C03 (a stale memo keyed on the
    # survey object shows as a reference of the earlier tree)
    from harness.props import c02

    c02.part_histories(rep, "C03")


def replay(rep, case):
    c = case["case"]
    rep.sample({"note": "C14 replays need a fresh process; re-run ./check C14", "event": c.get("event")})
    run(rep)
