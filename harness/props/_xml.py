"""Shared driver for C01 / C06 / C15 (XmlWriter.tla, Trace_Xml.tla)."""

from __future__ import annotations

import copy
import json

from harness import conv, corpus, tlc

TRACE_CFG = 'SPECIFICATION TSpec\nCONSTANT MaxStr = 0\nCONSTANT MaxKids = 0\nCONSTRAINT Accepted\nCHECK_DEADLOCK FALSE\n'
NOFACTS = {"parse_ok": False, "n_roots": 0, "n_decl": 0, "unbound": [], "root": "", "n_title": 0, "n_model": 0, "n_body": 0,
           "first_instance_attrs": [], "first_instance_nchild": 0, "primary_root_has_id": False, "primary_is_first_instance": False, "error": ""}
_BENIGN = {}


def expected_form_id(wb):
    """the form id the author set on the settings sheet (form_id / id_string), or None when it is left to the fallbacks"""
    found, headers = set(), 0
    for sh in (wb or {}).get("sheets", []):
        if sh["name"].strip().lower() == "settings" and sh["rows"]:
            for h, v in zip(sh["header"], sh["rows"][0]):
                if isinstance(h, str) and h.strip().lower() in ("form_id", "id_string", "set_form_id"):
                    headers += 1
                    if isinstance(v, str) and v.strip():
                        found.add(v.strip())
    # (both aliases present, even with one cell empty: which one wins is not C01's subject)
    return found.pop() if len(found) == 1 and headers == 1 else None


def facts(xform, form_id=None):
    from harness import project

    f = dict(NOFACTS)
    w = project.wellformed(xform)
    f.update(parse_ok=w["parse_ok"], n_roots=w["n_roots"], n_decl=w["n_decl"], unbound=w["unbound"], error=w["error"] or "")
    if w["parse_ok"]:
        try:
            root = project.parse(xform)
            sk = project.skeleton(root)
            f.update(root=sk["root"], n_title=sk["n_title"], n_model=sk["n_model"], n_body=sk["n_body"], first_instance_attrs=sk["first_instance_attrs"],
                     first_instance_nchild=sk["first_instance_nchild"],
                     # "carrying the form id": present, and equal to the id the author set when there is one
                     primary_root_has_id=sk["primary_root_has_id"] and (form_id is None or sk.get("primary_root_id") == form_id), primary_is_first_instance=sk["primary_is_first_instance"])
        except Exception as e:
            # expat accepted the document but ElementTree cannot read it (its own namespace separator '}' occurs in a
            # namespace name): the projection is unavailable, which is the harness's limit, not a fact about the document
            f["error"] = f"projection_unavailable {type(e).__name__}: {e}"
    return f


def _convert(wb, fmt, pretty, kwargs=None):
    from harness import render

    inp, kw = render.render(wb, fmt)
    kw["pretty_print"] = pretty
    kw.update(kwargs or {})
    return conv.convert_case({"input": inp, "kwargs": kw, "events": False, "allow_malformed": True})


def run_doc(job):
    """job: {classes, only?, fmt} (hostile string form) or {wb, fmt} (arbitrary form); parts: which facts to compute"""
    from harness import project, xmlgen

    parts = job.get("parts", ("c01",))
    chans = {}
    if "wb" in job:
        wb = job["wb"]
    else:
        wb, chans = xmlgen.build(job["classes"], only=job.get("only"))
    fmt = job.get("fmt", "dict")
    rc = _convert(wb, fmt, False, job.get("kwargs"))
    rp = _convert(wb, fmt, True, job.get("kwargs"))
    ev = {"ev": "doc", "status": rc["status"] if rc["status"] == rp["status"] else f"{rc['status']}/{rp['status']}",
          "c01": {"c": dict(NOFACTS), "p": dict(NOFACTS)}, "channels": [], "classes": list(job.get("classes") or []), "default_place": "n/a", "skeleton_same": True, "structure_equal": True, "texts_c": [], "texts_p": []}
    if rc["status"] == "ok" and rp["status"] == "ok":
        fid = expected_form_id(wb) if isinstance(wb, dict) else None
        ev["c01"] = {"c": facts(rc["xform"], fid), "p": facts(rp["xform"], fid)}
        if ev["c01"]["c"]["error"].startswith("projection_unavailable") or ev["c01"]["p"]["error"].startswith("projection_unavailable"):
            ev["status"] = "projection_unavailable"
        okc, okp = ev["c01"]["c"]["parse_ok"], ev["c01"]["p"]["parse_ok"]
        if "c06" in parts and chans:
            recc = xmlgen.recover(rc["xform"], chans) if okc else {}
            recp = xmlgen.recover(rp["xform"], chans) if okp else {}
            for ch, text in chans.items():
                ev["channels"].append({"name": ch, "src": xmlgen.src_elem(ch, text), "rec": recc.get(ch) or {"k": "none"}, "rec_p": recp.get(ch) or {"k": "none"}})
            if "default" in chans and okc:
                ev["default_place"] = xmlgen.default_place(rc["xform"])
            wi = "label_instance" in chans
            key = json.dumps([job.get("only"), fmt, wi])
            if key not in _BENIGN:
                wb0, _ = xmlgen.build(["p"], only=job.get("only"), with_instance=wi)
                r0 = _convert(wb0, fmt, False)
                _BENIGN[key] = xmlgen.skeleton_sig(r0["xform"]) if r0["status"] == "ok" else None
            ev["skeleton_same"] = okc and _BENIGN[key] is not None and xmlgen.skeleton_sig(rc["xform"]) == _BENIGN[key]
        if "c15" in parts and okc and okp:
            a, b = project.parse(rc["xform"]), project.parse(rp["xform"])

            def struct(e):
                return (project.qname(e.tag), tuple(sorted((project.qname(k), v) for k, v in e.attrib.items())), tuple(struct(k) for k in e))

            ev["structure_equal"] = struct(a) == struct(b)
            ev["texts_c"] = xmlgen.text_elements(rc["xform"])
            ev["texts_p"] = xmlgen.text_elements(rp["xform"])
    return {"job": {k: v for k, v in job.items() if k != "wb"}, "wb": wb, "fmt": fmt, "status": ev["status"],
            "res": {"c": {k: v for k, v in rc.items() if k not in ("xform", "events")}, "p": {k: v for k, v in rp.items() if k not in ("xform", "events")}},
            "trace": [ev]}


def run_writer(job):
    from harness import xmlgen

    return {"job": job, "trace": [xmlgen.writer_event(job["dom"])]}


def mc_writer(rep, tier):
    ms, mk = (2, 2) if tier == "quick" else (2, 3)
    cfg = corpus._cfg("MC_XmlWriter.cfg", f"SPECIFICATION XSpec\nCONSTANT MaxStr = {ms}\nCONSTANT MaxKids = {mk}\nINVARIANT WellFormedBothModes\nINVARIANT TextIsData\nINVARIANT PrettyIsCosmetic\nCHECK_DEADLOCK FALSE\n")
    r = tlc.run("XmlWriter", cfg, workers=16, timeout=1500, tag="mcxml", heap="6g")
    if r["hard_error"] or r["violation"]:
        raise tlc.MachineryError(f"XmlWriter model check failed: {r['hard_error'] or r['violation']}\n{r['out'][-1500:]}")
    rep.add_mc(r, f"XmlWriter: every DOM (text <= {ms} chars over 8 classes, <= {mk} mixed children, groups of labels): WellFormedBothModes, TextIsData, PrettyIsCosmetic")
    rep.bounds["writer_model"] = {"MaxStr": ms, "MaxKids": mk, "doms": r["distinct"]}


def writer_conformance(rep, tier, prop):
    """Every model DOM is built with the real node()/PatchedText and serialised by the real writexml (both modes)."""
    cfg = corpus._cfg("Gen_Xml_dom.cfg", 'SPECIFICATION GSpec\nCONSTANT MaxStr = 2\nCONSTANT MaxKids = 2\nCONSTANT MaxLen = 0\nCONSTANT Mode = "dom"\nCONSTRAINT Emit\nCHECK_DEADLOCK FALSE\n')
    cases, r = tlc.generate("Gen_Xml", cfg, tag="genxmldom", timeout=900)
    doms = [c["dom"] for c in cases if "dom" in c]
    outs = conv.map_cases(run_writer, [{"dom": d} for d in doms], chunksize=32)
    for o in outs:
        if o.get("status") == "harness_error":
            raise tlc.MachineryError(o["message"] + "\n" + o.get("tb", ""))
    tcfg = corpus._cfg("Trace_Xml.cfg", TRACE_CFG)
    acc, info = tlc.validate_traces("Trace_Xml", tcfg, [o["trace"] for o in outs], shards=8, env={"PROP": prop}, tag="trxmlw")
    rep.traces_validated += len(acc)
    rep.extra.setdefault("trace_runs", []).append({"source": "model DOMs through the real writer (unit-level binding)", "traces": len(outs), "accepted": len(acc), "wall_s": round(info["wall"], 1)})
    for i, o in enumerate(outs):
        rep.case({"dom": o["job"]["dom"]})
        if i not in acc:
            l, clause = info["progress"].get(i, (0, "unexplained_event"))
            rep.violation(f"{prop}:{clause}", f"real writer output for model DOM violates {clause}: dom={json.dumps(o['job']['dom'])[:300]}", {"writer": True, "dom": o["job"]["dom"], "clause": clause})
    # canaries: corrupt the real token stream of one accepted DOM
    base = next(o for i, o in enumerate(outs) if i in acc and any(t["t"] == "c" and t["c"] == "E_amp" for t in o["trace"][0]["real_c"]) and len(o["job"]["dom"]["kids"]) >= 2)
    cans = []
    t = copy.deepcopy(base["trace"])
    for x in t[0]["real_c"]:
        if x["t"] == "c" and x["c"] == "E_amp":
            x["c"] = "amp"
    t[0]["expat_c"] = False
    cans.append(("unescaped_ampersand", t))
    t = copy.deepcopy(base["trace"]); t[0]["real_p"] = [x for x in t[0]["real_p"] if not (x["t"] == "c" and x["c"] not in ("sp", "nl"))]; cans.append(("text_dropped_in_pretty", t))
    t = copy.deepcopy(base["trace"]); t[0]["real_c"] = t[0]["real_c"][:-1]; t[0]["expat_c"] = False; cans.append(("unclosed_element", t))
    a, _ = tlc.validate_traces("Trace_Xml", tcfg, [c[1] for c in cans] + [base["trace"]], shards=1, env={"PROP": prop}, tag="canary")
    wrongly = [cans[i][0] for i in a if i < len(cans)]
    if wrongly or len(cans) not in a:
        raise tlc.MachineryError(f"writer canary failure: accepted {wrongly}; control accepted={len(cans) in a}")
    rep.extra.setdefault("canaries_rejected", []).extend(c[0] for c in cans)


def hostile_strings(rep, tier, seed):
    n = 2 if tier == "quick" else 3
    cfg = corpus._cfg("Gen_Xml_str.cfg", f'SPECIFICATION GSpec\nCONSTANT MaxStr = 0\nCONSTANT MaxKids = 0\nCONSTANT MaxLen = {n}\nCONSTANT Mode = "str"\nCONSTRAINT Emit\nCHECK_DEADLOCK FALSE\n')
    cases, r = tlc.generate("Gen_Xml", cfg, tag="genxmlstr", timeout=900)
    strs = [c["classes"] for c in cases if "classes" in c and c["classes"]]
    rep.add_mc(r, f"Gen_Xml: every hostile class string of length <= {n} over 22 classes")
    extra = []
    if tier == "quick":
        cfg3 = corpus._cfg("Gen_Xml_str3.cfg", 'SPECIFICATION GSpec\nCONSTANT MaxStr = 0\nCONSTANT MaxKids = 0\nCONSTANT MaxLen = 4\nCONSTANT Mode = "str"\nCONSTRAINT Emit\nCHECK_DEADLOCK FALSE\n')
        c3, _ = tlc.generate("Gen_Xml", cfg3, tag="genxmlstr3", simulate="num=120", depth=6, seed=seed + 2)
        extra = [c["classes"] for c in c3 if len(c.get("classes", [])) >= 3]
    rep.bounds["hostile_strings"] = {"exhaustive_length": n, "count": len(strs), "simulated_longer": len(extra)}
    seen, out = set(), []
    for s in strs + extra:
        k = tuple(s)
        if k not in seen:
            seen.add(k)
            out.append(s)
    return out


def validate_docs(rep, prop, outs, label, sig_fn=None):
    skipped = {}
    sub = []
    for o in outs:
        if o.get("status") == "harness_error":
            raise tlc.MachineryError(o["message"] + "\n" + o.get("tb", ""))
        if o["status"] != "ok":
            skipped[o["status"]] = skipped.get(o["status"], 0) + 1
            continue
        sub.append(o)
    tcfg = corpus._cfg("Trace_Xml.cfg", TRACE_CFG)
    acc, info = tlc.validate_traces("Trace_Xml", tcfg, [o["trace"] for o in sub], shards=12, env={"PROP": prop}, tag=f"tr{prop}", timeout=1500)
    rep.traces_validated += len(acc)
    rep.extra.setdefault("trace_runs", []).append({"source": label, "traces": len(sub), "accepted": len(acc), "not_converted": skipped, "wall_s": round(info["wall"], 1)})
    rejected = []
    for i, o in enumerate(sub):
        rep.case(o["job"] if "classes" in o["job"] or "tag" in o["job"] else {"wbhash": json.dumps(o["wb"], sort_keys=True)[:200]})
        if i not in acc:
            l, clause = info["progress"].get(i, (0, "unexplained_event"))
            rejected.append((o, clause))
    return sub, acc, rejected
