"""C01 - every successful conversion returns a well-formed, namespace-valid XForm with the ODK skeleton."""

from __future__ import annotations

import copy

from harness import conv, corpus, formgen, fuzz, tlc
from harness.props import _xml

PROP = "C01"

# tokens written where user text becomes an XML *name* (element name, attribute name, prefix)
NAME_TOKENS = {"valid": "okname", "declared_prefix": "odk:okname", "undeclared_prefix": "foo:bar", "digit_first": "1x", "space": "x y", "lt": "a<b",
               "quote": 'a"b', "amp": "a&b", "dot_dash": "a.b-c", "non_ascii": "énom"}
# characters no XML 1.0 document may contain, written into *text* positions
TEXT_TOKENS = {"ctrl_01": "a\x01b", "ctrl_0b": "a\x0bb", "ctrl_1f": "a\x1fb", "del_7f": "a\x7fb", "nonchar_fffe": "a￾b", "tab_newline": "a\tb\nc", "nel_85": "a\x85b"}
# tokens at the edges of the XML Name character classes (× U+00D7 and ÷ U+00F7 sit *between* letter ranges; U+00B7 and combining
# marks are name characters but not name-start characters; U+037E is excluded), for the places that take element names
EDGE_TOKENS = {"division_sign_inside": "a÷b", "multiplication_sign_inside": "a×b", "division_sign_first": "÷a", "middle_dot_inside": "a·b",
               "middle_dot_first": "·a", "greek_question_mark": "a;b", "combining_mark_inside": "áb", "combining_mark_first": "́ab", "latin_letters_around": "ö_ø_ÿ",
               "colon_inside": "a:b", "underscore_first": "_ab", "hyphen_first": "-ab", "dot_first": ".ab",
               # a character range spelled out as text, capital letters of the Latin-1 block (À U+00C0 .. Ö U+00D6) as name and name-start characters
               "range_spelled_out": "À-Ö]x", "bracket_inside": "a]b", "latin1_capital_first": "Àge", "latin1_capitals": "ÉCOLE", "latin1_capital_inside": "aÖb"}
ELEMENT_NAME_CHANNELS = ["question_name", "group_name", "repeat_name", "settings_name"]
NAME_CHANNELS = ["choices_column", "bind_suffix", "instance_suffix", "body_suffix", "settings_attribute", "namespaces_prefix"]
TEXT_CHANNELS = ["label", "hint", "choice_label", "default", "title", "constraint_message", "itext_label", "choice_extra", "appearance"]


def name_form(channel, tok):
    if channel in ELEMENT_NAME_CHANNELS:
        rows = [["text", "q1", "Q1"]]
        settings = None
        if channel == "question_name":
            rows.append(["integer", tok, "Q"])
        elif channel in ("group_name", "repeat_name"):
            k = channel.split("_")[0]
            rows += [[f"begin {k}", tok, "S"], ["text", "inner", "I"], [f"end {k}", None, None]]
        else:
            settings = {"name": "settings", "header": ["name"], "rows": [[tok]]}
        return {"sheets": [{"name": "survey", "header": ["type", "name", "label"], "rows": rows}] + ([settings] if settings else [])}
    survey = {"name": "survey", "header": ["type", "name", "label"], "rows": [["text", "q1", "Q1"], ["select_one L", "q2", "Q2"]]}
    choices = {"name": "choices", "header": ["list_name", "name", "label"], "rows": [["L", "l1", "L1"]]}
    settings = None
    if channel == "choices_column":
        choices["header"].append(tok)
        choices["rows"][0].append("v")
    elif channel in ("bind_suffix", "instance_suffix", "body_suffix"):
        survey["header"].append(channel.split("_")[0] + "::" + tok)
        survey["rows"][0].append("v")
        survey["rows"][1].append(None)
    elif channel == "settings_attribute":
        settings = {"name": "settings", "header": ["attribute::" + tok], "rows": [["v"]]}
    elif channel == "namespaces_prefix":
        settings = {"name": "settings", "header": ["namespaces", "attribute::" + tok.split(":")[0] + ":att"], "rows": [[f'{tok.split(":")[0]}="http://example.com/ns"', "v"]]}
    return {"sheets": [survey, choices] + ([settings] if settings else [])}


def text_form(channel, text):
    cols = ["type", "name", "label", "hint", "default", "constraint", "constraint_message", "appearance", "label::English (en)"]
    r = {"type": "text", "name": "q1", "label": "Q1"}
    ch = {"list_name": "L", "name": "l1", "label": "L1", "xcol": None}
    st = {}
    if channel in ("label", "hint", "default", "constraint_message", "appearance"):
        r[channel] = text
        if channel == "constraint_message":
            r["constraint"] = ". != 'x'"
    elif channel == "itext_label":
        del r["label"]
        r["label::English (en)"] = text
    elif channel == "choice_label":
        ch["label"] = text
    elif channel == "choice_extra":
        ch["xcol"] = text
    elif channel == "title":
        st["form_title"] = text
    sheets = [{"name": "survey", "header": cols, "rows": [[r.get(c) for c in cols], ["select_one L", "q2", "Q2"] + [None] * (len(cols) - 3)]},
              {"name": "choices", "header": ["list_name", "name", "label", "xcol"], "rows": [[ch["list_name"], ch["name"], ch["label"], ch["xcol"]]]}]
    if st:
        sheets.append({"name": "settings", "header": list(st), "rows": [list(st.values())]})
    return {"sheets": sheets}


def _fuzz_doc(job):
    from harness import abstract

    wb = fuzz.workbook(job["seed"], job["idx"])
    # user text in XML-name positions is the subject of the channel x token matrix (classified there); the fuzz corpus
    # is used for everything else, so forms with such headers are left out here
    for sh in wb["sheets"]:
        for h in sh["header"]:
            if not isinstance(h, str):
                continue
            parts = [p.strip() for p in h.replace("::", "\0").split("\0")]
            if sh["name"].lower() == "choices" and parts[0] not in ("list_name", "list name", "name", "label", "image", "audio", "video", "media") and not abstract.is_name(parts[0].replace(":", "_") if ":" in parts[0] else parts[0]):
                return {"status": "skipped_name_position", "job": job, "wb": wb, "fmt": "dict", "res": {}, "trace": []}
            if sh["name"].lower() == "choices" and ":" in parts[0]:
                return {"status": "skipped_name_position", "job": job, "wb": wb, "fmt": "dict", "res": {}, "trace": []}
            if parts[0] in ("bind", "instance", "body", "attribute") and len(parts) > 1 and not abstract.is_name(parts[1]):
                return {"status": "skipped_name_position", "job": job, "wb": wb, "fmt": "dict", "res": {}, "trace": []}
    return _xml.run_doc({"wb": wb, "fmt": "dict", "parts": ("c01",), "tag": {"fuzz": [job["seed"], job["idx"]]}})


def run(rep):
    rep.rule = ("XmlWriter.tla model-checked (WellFormedBothModes on every DOM in bounds; the model's recogniser is cross-checked against expat on the real "
                "writer's output for every model DOM). Then every successful conversion, compact and pretty, of: (a) the hostile-string forms (22 classes + 4 function-like texts, "
                "28 channels), (b) TLC-generated row structures decorated with every feature (languages, media, settings, namespaces...), (c) the vocabulary "
                "fuzz corpus, (d) a matrix channel x token for the six places where user text becomes an XML name (choices column header, bind::/instance::/"
                "body:: suffix, settings attribute::, namespaces prefix) x 10 token classes, and nine text channels x 7 characters illegal in XML 1.0 - is "
                "parsed by expat (namespace-aware) on the returned bytes; TLC (Trace_Xml, PROP=C01) checks parse, one root, one declaration, no unbound "
                "prefix, html root, one title, one model, one body, primary instance first with no id/src and exactly one child carrying @id.")
    rep.assumptions = ["expat is the reference parser; ElementTree projects the skeleton", "forms rejected by the converter are not cases of C01"]
    _xml.mc_writer(rep, rep.tier)
    _xml.writer_conformance(rep, rep.tier, PROP)
    jobs = []
    strs = _xml.hostile_strings(rep, rep.tier, rep.seed)
    for i, s in enumerate(strs):
        jobs.append({"classes": s, "fmt": "dict" if i % 4 else "md", "parts": ("c01",)})
    # one channel at a time for every single hostile class: a failure in one channel (e.g. an internal error while
    # re-parsing a label that mixes text and references) must not hide another channel's malformed output
    from harness import xmlgen
    for c in sorted(xmlgen.HOSTILE):
        for ch in xmlgen.CHANNELS:
            jobs.append({"classes": [c], "only": [ch], "fmt": "dict", "parts": ("c01",)})
    # every pair of form features (entities, namespaces, settings, translations, external instances ...) - name spaces interact
    from harness import jsongen
    feats = sorted(jsongen.ALL_FEATURES)
    for i, a in enumerate(feats):
        for b in feats[i:]:
            jobs.append({"wb": jsongen.build(sorted({a, b})), "fmt": "dict", "parts": ("c01",), "tag": {"features": sorted({a, b})}})
    n = 3 if rep.tier == "quick" else 4
    shapes, g = corpus.gen_shapes("ok", n)
    lim = 1500 if rep.tier == "quick" else 20000
    picked = corpus.pick(shapes, lim, rep.seed)
    for i, c in enumerate(picked):
        f = formgen.decorate(c["rows"], seed=rep.seed + i, feat=corpus.ALL_FEAT)
        jobs.append({"wb": f.wb(), "fmt": "dict" if i % 7 else "xlsx", "parts": ("c01",), "tag": {"shapes": c["rows"]}})
    for ch in NAME_CHANNELS:
        for cls, tok in NAME_TOKENS.items():
            if ch == "namespaces_prefix" and ":" in tok:
                continue
            jobs.append({"wb": name_form(ch, tok), "fmt": "dict", "parts": ("c01",), "tag": {"name_channel": ch, "token": cls}})
    for ch in ELEMENT_NAME_CHANNELS:
        for cls, tok in {**NAME_TOKENS, **EDGE_TOKENS}.items():
            jobs.append({"wb": name_form(ch, tok), "fmt": "dict", "parts": ("c01",), "tag": {"name_channel": ch, "token": cls}})
    # values of the namespaces setting: empty URIs, reserved prefixes, the same prefix twice, URIs with blanks / metacharacters
    for i, ns in enumerate(['foo=""', "foo=", 'xmlns="http://x.y/z"', 'xml="http://x.y/z"', "foo='http://a' foo='http://b'", 'foo="http://a b"', 'foo="http://a&b<c"',
                            'foo="http://a" bar="http://a"', "=http://a", 'foo="http://a"=x', 'xml="http://www.w3.org/XML/1998/namespace"', 'h="http://other"', 'odk="urn:x"']):
        wbx = {"sheets": [{"name": "survey", "header": ["type", "name", "label", "bind::foo:a"], "rows": [["text", "q1", "Q1", "v" if ns.startswith("foo=") else None]]},
                          {"name": "settings", "header": ["namespaces"], "rows": [[ns]]}]}
        jobs.append({"wb": wbx, "fmt": "dict", "parts": ("c01",), "tag": {"namespaces_value": i}})
    # a namespace declared by an attribute written on some element (xmlns:foo through attribute:: / instance:: / bind:: / body::) is in scope
    # below that element only; the prefix is used on the same row, on another row, in the model and in the body
    for di, decl in enumerate(("attribute::xmlns:foo", "instance::xmlns:foo", "bind::xmlns:foo", "body::xmlns:foo")):
        for ui, (use, row) in enumerate((("bind::foo:bar", 0), ("body::foo:widget", 0), ("instance::foo:x", 0), ("instance::foo:x", 1), ("bind::foo:bar", 1), ("body::foo:widget", 1))):
            hdr = ["type", "name", "label", use] + ([decl] if not decl.startswith("attribute::") else [])
            rows = [["text", "q1", "Q1", None] + ([None] if len(hdr) > 4 else []), ["text", "q2", "Q2", None] + ([None] if len(hdr) > 4 else [])]
            rows[row][3] = "v"
            if len(hdr) > 4:
                rows[0][4] = "http://example.com/foo"
            sheets = [{"name": "survey", "header": hdr, "rows": rows}]
            if decl.startswith("attribute::"):
                sheets.append({"name": "settings", "header": [decl], "rows": [["http://example.com/foo"]]})
            jobs.append({"wb": {"sheets": sheets}, "fmt": "dict", "parts": ("c01",), "tag": {"scoped_declaration": decl, "use": use, "use_row": row}})
    # ... and the same prefixed name used in two places of one form, of which one may be inside the declaring element and the other outside
    # (a validator that remembers names it has already looked at must not forget where the declaration is in scope)
    import itertools as _it
    uses = [(u, r) for u in ("instance::foo:x", "bind::foo:bar", "body::foo:w") for r in (0, 1, 3)]      # rows: 0 = group g, 1 = q1 inside g, 3 = q2 after g
    for decl, drow in (("instance::xmlns:foo", 0), ("instance::xmlns:foo", 1), ("bind::xmlns:foo", 1), ("body::xmlns:foo", 0), ("body::xmlns:foo", 1), ("attribute::xmlns:foo", None)):
        for (ua, ra), (ub, rb) in _it.combinations(uses, 2):
            cols = [ua] if ua == ub else [ua, ub]
            hdr = ["type", "name", "label"] + cols + ([decl] if drow is not None else [])
            rows = [["begin group", "g", "G"], ["text", "q1", "Q1"], ["end group", None, None], ["text", "q2", "Q2"]]
            rows = [r + [None] * (len(hdr) - 3) for r in rows]
            rows[ra][3 + cols.index(ua)] = "v"
            rows[rb][3 + cols.index(ub)] = "v"
            if drow is not None:
                rows[drow][len(hdr) - 1] = "http://example.com/foo"
            sheets = [{"name": "survey", "header": hdr, "rows": rows}]
            if drow is None:
                sheets.append({"name": "settings", "header": [decl], "rows": [["http://example.com/foo"]]})
            jobs.append({"wb": {"sheets": sheets}, "fmt": "dict", "parts": ("c01",), "tag": {"scoped_declaration": decl, "decl_row": drow, "uses": [[ua, ra], [ub, rb]]}})
    # the reserved corners of "Namespaces in XML": the prefixes xml / xmlns and the two namespace names bound to them cannot be (re)declared,
    # a prefix cannot be undeclared (empty URI), and xmlns: is not a prefix an element name can carry - whichever way the declaration arrives
    XML_NS, XMLNS_NS = "http://www.w3.org/XML/1998/namespace", "http://www.w3.org/2000/xmlns/"
    for di, dcol in enumerate(("instance::", "bind::", "body::", "attribute::", "namespaces")):
        for pi, (pfx, uri) in enumerate((("xml", "http://example.com/x"), ("xmlns", "http://example.com/x"), ("zz", XML_NS), ("zz", XMLNS_NS), ("jr", XMLNS_NS), ("zz", ""), ("xml", XML_NS))):
            survey = {"name": "survey", "header": ["type", "name", "label"], "rows": [["begin group", "g", "G"], ["text", "q1", "Q1"], ["end group", None, None]]}
            sheets = [survey]
            if dcol == "namespaces":
                sheets.append({"name": "settings", "header": ["namespaces"], "rows": [[f'{pfx}="{uri}"']]})
            elif dcol == "attribute::":
                sheets.append({"name": "settings", "header": [f"attribute::xmlns:{pfx}"], "rows": [[uri]]})
            else:
                for row in (0, 1):
                    sv = {"name": "survey", "header": survey["header"] + [f"{dcol}xmlns:{pfx}"], "rows": [r + [None] for r in survey["rows"]]}
                    sv["rows"][row][3] = uri
                    jobs.append({"wb": {"sheets": [sv]}, "fmt": "dict", "parts": ("c01",), "tag": {"reserved_namespace": [dcol, pfx, uri], "row": row}})
                continue
            jobs.append({"wb": {"sheets": sheets}, "fmt": "dict", "parts": ("c01",), "tag": {"reserved_namespace": [dcol, pfx, uri]}})
    for kind, nm in (("text", "xmlns:foo"), ("begin group", "xmlns:foo"), ("begin repeat", "xmlns:r"), ("text", "xml:foo"), ("text", "xmlns"), ("calculate", "xmlns:c")):
        rows = [[kind, nm, "L", "1" if kind == "calculate" else None]] + ([["text", "inner", "I", None], [kind.replace("begin", "end"), None, None, None]] if kind.startswith("begin") else [])
        jobs.append({"wb": {"sheets": [{"name": "survey", "header": ["type", "name", "label", "calculation"], "rows": rows}]}, "fmt": "dict", "parts": ("c01",), "tag": {"reserved_prefix_in_element_name": [kind, nm]}})
    for ch in TEXT_CHANNELS:
        for cls, text in TEXT_TOKENS.items():
            jobs.append({"wb": text_form(ch, text), "fmt": "dict", "parts": ("c01",), "tag": {"text_channel": ch, "token": cls}})
    # custom primary-instance attributes (settings attribute::*) whose names collide with the built-in ones: the root keeps the form id
    for cols in (["attribute::id"], ["attribute::version"], ["attribute::id", "version"], ["attribute::id", "attribute::xyz"], ["attribute::ID"]):
        hdr = ["form_id", "form_title"] + cols
        wbx = {"sheets": [{"name": "survey", "header": ["type", "name", "label"], "rows": [["text", "q1", "Q1"]]},
                          {"name": "settings", "header": hdr, "rows": [["the_form_id", "T"] + [f"custom_{i}" for i in range(len(cols))]]}]}
        jobs.append({"wb": wbx, "fmt": "dict", "parts": ("c01",), "tag": {"settings_attribute_collision": cols}})
    # the workbooks the repository's own test-suite converts (frozen input corpus)
    from harness import suitecorpus

    sj = suitecorpus.doc_jobs(("c01",))
    jobs += sj
    outs = conv.map_cases(_xml.run_doc, jobs, chunksize=8)
    nf = 2500 if rep.tier == "quick" else 40000
    outs += [o for o in conv.map_cases(_fuzz_doc, [{"seed": rep.seed, "idx": i} for i in range(nf)], chunksize=32)]
    rep.bounds["forms"] = {"hostile": len(strs), "decorated_structures": len(picked), "name_matrix": len(NAME_CHANNELS) * len(NAME_TOKENS), "illegal_char_matrix": len(TEXT_CHANNELS) * len(TEXT_TOKENS), "fuzz": nf, "suite_corpus": len(sj)}
    # vacuity: the one-channel family must really convert (it once did not: every excluded channel was left empty and the form was refused)
    fam = [o for o in outs if isinstance(o.get("job"), dict) and o["job"].get("only")]
    fam_ok = sum(1 for o in fam if o.get("status") == "ok")
    rep.bounds["one_channel_family"] = {"jobs": len(fam), "converted": fam_ok}
    if fam and fam_ok * 2 < len(fam) and not rep.violations:
        raise tlc.MachineryError(f"vacuity: only {fam_ok} of {len(fam)} one-channel hostile forms convert")
    sub, acc, rejected = _xml.validate_docs(rep, PROP, outs, "all form families, compact and pretty")
    for o, clause in rejected:
        tag = o["job"].get("tag") or {}
        if "name_channel" in tag and tag["name_channel"] in ELEMENT_NAME_CHANNELS:
            # element names are validated by the converter; what it lets through is classified by token family
            fam = "colon" if tag["token"] in ("colon_inside", "undeclared_prefix", "declared_prefix") else tag["token"]
            sig = f"{PROP}:unvalidated_xml_name:{tag['name_channel']}:{fam}"
        elif "name_channel" in tag:
            sig = f"{PROP}:unvalidated_xml_name:{tag['name_channel']}"
        elif "text_channel" in tag:
            sig = f"{PROP}:illegal_xml_character"
        else:
            sig = f"{PROP}:{clause}"
        f = o["trace"][0]["c01"]
        rep.violation(sig, f"clause {clause}; job={o['job']} expat: {f['c']['error'] or f['p']['error']}"[:400], {"wb": o["wb"], "fmt": o["fmt"], "clause": clause, "job": o["job"]})
    for o in sub[3:5]:
        rep.sample({"job": o["job"], "facts": o["trace"][0]["c01"]["c"]})
    ok = [o for i, o in enumerate(sub) if i in acc]
    base = ok[0]
    cans = []
    t = copy.deepcopy(base["trace"]); t[0]["c01"]["p"]["parse_ok"] = False; cans.append(("pretty_not_wellformed", t))
    t = copy.deepcopy(base["trace"]); t[0]["c01"]["c"]["unbound"] = ["?"]; cans.append(("unbound_prefix", t))
    t = copy.deepcopy(base["trace"]); t[0]["c01"]["c"]["n_model"] = 2; cans.append(("two_models", t))
    t = copy.deepcopy(base["trace"]); t[0]["c01"]["c"]["primary_is_first_instance"] = False; cans.append(("primary_instance_not_first", t))
    t = copy.deepcopy(base["trace"]); t[0]["c01"]["p"]["n_decl"] = 2; cans.append(("second_xml_declaration", t))
    t = copy.deepcopy(base["trace"]); t[0]["c01"]["c"]["primary_root_has_id"] = False; cans.append(("root_without_id", t))
    a, _ = tlc.validate_traces("Trace_Xml", corpus._cfg("Trace_Xml.cfg", _xml.TRACE_CFG), [c[1] for c in cans] + [base["trace"]], shards=1, env={"PROP": PROP}, tag="canary")
    wrongly = [cans[i][0] for i in a if i < len(cans)]
    if wrongly or len(cans) not in a:
        raise tlc.MachineryError(f"canary failure: accepted {wrongly}; control accepted={len(cans) in a}")
    rep.extra.setdefault("canaries_rejected", []).extend(c[0] for c in cans)


def replay(rep, case):
    c = case["case"]
    if c.get("writer"):
        o = _xml.run_writer({"dom": c["dom"]})
        acc, info = tlc.validate_traces("Trace_Xml", corpus._cfg("Trace_Xml.cfg", _xml.TRACE_CFG), [o["trace"]], shards=1, env={"PROP": PROP}, tag="replay")
        if 0 not in acc:
            rep.violation(f"{PROP}:{info['progress'].get(0, (0, '?'))[1]}", "writer replay", c)
        return
    o = _xml.run_doc({"wb": c["wb"], "fmt": c.get("fmt", "dict"), "parts": ("c01",), "tag": (c.get("job") or {}).get("tag"), "kwargs": (c.get("job") or {}).get("kwargs")})
    sub, acc, rejected = _xml.validate_docs(rep, PROP, [o], "replay")
    for o, clause in rejected:
        rep.violation(f"{PROP}:{clause}", f"clause {clause}", c)
