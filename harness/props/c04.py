"""C04 - survey rows map one-to-one, in order and nesting, onto instance and body."""

from harness import corpus
from harness.props import _rp

PROP = "C04"


def run(rep):
    rep.rule = ("row-shape sequences enumerated by TLC from Gen_RowParser (exhaustive to N rows, hash-sampled and "
                "simulated deeper), decorated with cells, converted by the real code with hooks on; each execution "
                "is one trace validated by TLC against Trace_RowParser (PROP=C04). Non-trivial = accepted form with "
                "at least one non-skip row; distinct by (shape sequence, features, container).")
    rep.assumptions = [
        "alpha (harness/abstract.py) and the XForm projection (harness/project.py, rowtrace.observe) are trusted",
        "the specification's frozen TypeTable.tla prescribes the control tag of each question type",
        "forms outside the modelled fragment (loop, osm, external instances, flat) are abstained on",
    ]
    _rp.mc(rep, rep.tier)
    jobs, meta = _rp.jobs_ok(rep.tier, rep.seed)
    rep.bounds["generation"] = meta
    outs = corpus.run_forms(jobs)
    sub, acc, rejected = _rp.validate(rep, PROP, outs, "TLC-generated forms")
    for o, l, clause in rejected:
        rep.violation(f"{PROP}:{clause}", f"trace rejected at event {l} clause {clause}; shapes={o['shapes']}",
                      {"shapes": o["shapes"], "seed": o["seed"], "feat": o["feat"], "fmt": o["fmt"], "clause": clause,
                       "event": l, "wb": o["wb"], "status": o["res"]["status"], "message": o["res"].get("message")})
    for o in sub[:3]:
        rep.sample({"rows": o["shapes"], "survey_sheet": o["wb"]["sheets"][0], "trace_events": len(o["trace"]), "outcome": o["res"]["status"]})
    _rp.run_canaries(rep, PROP, sub, acc)
    _rp.suite_part(rep, PROP)
    # the per-type decision table of the parameters cell (TypeParams.tla), this property's clauses
    from harness.props import _typeparams

    _typeparams.run(rep, PROP)


def replay(rep, case):
    c = case["case"]
    if c.get("typeparams"):
        from harness.props import _typeparams

        return _typeparams.replay(rep, PROP, c)
    if "suite_test" in c:
        outs = corpus.run_forms([{"wb": c["wb"], "fmt": "dict", "shapes": ["suite"], "tag": {"suite_test": c["suite_test"]}}])
        sub, acc, rejected = _rp.validate(rep, PROP, outs, "replay")
        for o, l, clause in rejected:
            rep.violation(f"{PROP}:{clause}:suite", f"trace rejected at event {l} clause {clause}", c)
        return
    outs = corpus.run_forms([{"shapes": c["shapes"], "seed": c["seed"], "feat": c["feat"], "fmt": c["fmt"]}])
    sub, acc, rejected = _rp.validate(rep, PROP, outs, "replay")
    for o, l, clause in rejected:
        rep.violation(f"{PROP}:{clause}", f"trace rejected at event {l} clause {clause}", c)
    rep.sample({"rows": c["shapes"]})
