"""Reference-syntax part of C17 and C03 (RefSyntax.tla): design checks by TLC, then every piece sequence through the real converter."""

from __future__ import annotations

import copy

from harness import conv, corpus, tlc

INVS = ("MalformedIsRefused", "WellFormedIsAccepted")
TCFG = "SPECIFICATION TSpec\nCONSTANT MaxLen = 0\nCONSTRAINT Accepted\nCHECK_DEADLOCK FALSE\n"


def part(rep, prop):
    from harness import refsyntaxgen

    n = 4 if rep.tier == "quick" else 5
    cfg = corpus._cfg(f"Gen_RefSyntax_{n}.cfg", f"SPECIFICATION RSpec\nCONSTANT MaxLen = {n}\n" + "".join(f"INVARIANT {i}\n" for i in INVS) + "CONSTRAINT Emit\nCHECK_DEADLOCK FALSE\n")
    cases, r = tlc.generate("Gen_RefSyntax", cfg, tag="genrs", timeout=2400, heap="6g")
    rep.add_mc(r, f"Gen_RefSyntax: every sequence of <= {n} lexical pieces (8 pieces) x text / expression cell: the transcribed validator + substitution refuse every "
                  "malformed reference outside the apostrophe hole and accept every well-formed reference to an existing question")
    # the model predicts the hole: paired apostrophes in a text cell hide an unfinished reference from the validator
    h = tlc.run("RefSyntax", corpus._cfg("MC_RefSyntax_hole.cfg", "SPECIFICATION RSpec\nCONSTANT MaxLen = 3\nINVARIANT NoApostropheHole\nCHECK_DEADLOCK FALSE\n"), workers=4, tag="mcrs")
    rep.extra["model_predicts_apostrophe_hole"] = bool(h["violation"])
    if not h["violation"]:
        rep.drift.append("RefSyntax transcription no longer predicts the apostrophe hole")
    if rep.tier != "quick":
        cases = corpus.pick(cases, 40000, rep.seed) + [c for c in cases if c["hole"] or c["wellformed"]]
    outs = conv.map_cases(refsyntaxgen.run_cell, cases, chunksize=128)
    for o in outs:
        if o.get("status") == "harness_error":
            raise tlc.MachineryError(o["message"] + "\n" + o.get("tb", ""))
    nm, nw = sum(1 for c in cases if c["malformed"]), sum(1 for c in cases if c["wellformed"])
    rep.bounds["reference_cells"] = {"cells": len(cases), "malformed": nm, "well_formed_known": nw, "max_pieces": n}
    if (nm < 100 or nw < 10) and not rep.violations:
        raise tlc.MachineryError("reference syntax: the generator no longer produces malformed and well-formed cells")
    tcfg = corpus._cfg("Trace_RefSyntax.cfg", TCFG)
    acc, info = tlc.validate_traces("Trace_RefSyntax", tcfg, [o["trace"] for o in outs], shards=8, tag="trrs", env={"PROP": prop}, timeout=1500)
    rep.traces_validated += len(acc)
    rep.extra.setdefault("trace_runs", []).append({"source": "reference cells (label / relevant) through the real converter", "traces": len(outs), "accepted": len(acc),
                                                   "drift_from_transcription": len(info.get("drift", [])), "wall_s": round(info["wall"], 1)})
    if info.get("drift"):
        rep.drift.append(f"{len(info['drift'])} reference cells judged differently from RefSyntax.Verdict, e.g. {outs[info['drift'][0]]['text']!r}")
    for i, o in enumerate(outs):
        rep.case({"reference_cell": o["text"], "kind": o["job"]["kind"]})
        if i in acc:
            continue
        l, clause = info["progress"].get(i, (0, "unexplained_event"))
        rep.violation(f"{prop}:refsyntax:{clause}", f"clause {clause}; {o['job']['kind']} cell {o['text']!r} -> {o['trace'][0]['real']}"[:500],
                      {"refsyntax": True, "job": {"cell": o["job"]["cell"], "kind": o["job"]["kind"]}, "clause": clause})
    rep.sample({"reference_cell": outs[11]["text"], "real": outs[11]["trace"][0]["real"]})
    # canaries
    bad = [o for i, o in enumerate(outs) if i in acc and o["job"]["malformed"] and not o["job"]["hole"]]
    good = [o for i, o in enumerate(outs) if i in acc and o["job"]["wellformed"] and o["job"]["nrefs"] >= 1]
    if not bad or not good:
        if rep.violations:
            return
        raise tlc.MachineryError("reference syntax: no accepted execution to corrupt for the self-test")
    cans = []
    if prop == "C17":
        t = copy.deepcopy(bad[0]["trace"]); t[0]["real"].update(status="ok", verdict="ok"); cans.append(("malformed_reference_accepted", t))
    else:
        t = copy.deepcopy(good[0]["trace"]); t[0]["real"]["nsub"] -= 1; cans.append(("reference_left_unsubstituted", t))
        t = copy.deepcopy(good[0]["trace"]); t[0]["real"].update(status="pyxform_error", verdict="syntax"); cans.append(("well_formed_reference_refused", t))
    t = copy.deepcopy(good[0]["trace"]); t[0]["real"].update(status="crash:KeyError", verdict="crash"); cans.append(("reference_cell_crash", t))
    a, _ = tlc.validate_traces("Trace_RefSyntax", tcfg, [c[1] for c in cans] + [good[0]["trace"]], shards=1, tag="canary", env={"PROP": prop})
    wrongly = [cans[i][0] for i in a if i < len(cans)]
    if wrongly or len(cans) not in a:
        raise tlc.MachineryError(f"reference syntax canary failure: accepted {wrongly}; control accepted={len(cans) in a}")
    rep.extra.setdefault("canaries_rejected", []).extend(c[0] for c in cans)


def replay(rep, prop, c):
    from harness import refsyntaxgen

    o = refsyntaxgen.run_cell(c["job"])
    acc, info = tlc.validate_traces("Trace_RefSyntax", corpus._cfg("Trace_RefSyntax.cfg", TCFG), [o["trace"]], shards=1, tag="replay", env={"PROP": prop})
    rep.traces_validated += len(acc)
    rep.case({"reference_cell": o["text"]})
    if 0 not in acc:
        rep.violation(f"{prop}:refsyntax:{info['progress'].get(0, (0, '?'))[1]}", "replay", c)
