"""C06 - user text is data, never markup."""

from __future__ import annotations

import copy

from harness import conv, tlc, xmlgen
from harness.props import _xml

PROP = "C06"


def _segs(e):
    """harness-side mirror of XmlWriter.Segs/Norm, used only to *name* the failing channel in the signature"""
    def norm(t):
        out = []
        for c in t:
            c = "sp" if c in ("sp", "nl") else c
            if c == "sp" and (not out or out[-1] == "sp"):
                continue
            out.append(c)
        if out and out[-1] == "sp":
            out.pop()
        return out
    segs, cur, outs = [], [], []
    for k in e["kids"]:
        if k["k"] == "t":
            cur += k["s"]
        else:
            segs.append(norm(cur))
            cur = []
            outs.append(sorted((a[0], tuple(norm(a[1]))) for a in k["attrs"]))
    segs.append(norm(cur))
    return segs, outs


def _failing_channels(o):
    out = []
    for c in o["trace"][0]["channels"]:
        for r in (c["rec"], c["rec_p"]):
            if r.get("k") != "e":
                out.append(c["name"] + ":missing")
            elif _segs(r) != _segs(c["src"]):
                out.append(c["name"])
    return sorted(set(out))


def _sig(o, clause):
    if clause.startswith("text_recovered"):
        ch = _failing_channels(o)
        return f"{PROP}:{clause}:{','.join(sorted(set(x.split(':')[0] for x in ch))[:3])}"
    return f"{PROP}:{clause}"


def run(rep):
    rep.rule = ("XmlWriter.tla model-checked (TextIsData on every DOM in bounds) and bound to the real writer (every model DOM serialised by the real "
                "node()/writexml and judged by TLC); then TLC (Gen_Xml) enumerates every hostile class string of length <=2 (quick; <=3 thorough, 4 simulated) "
                "over 22 classes (+ 4 function-like texts) (< > & quotes ]]> &amp; comment, processing instruction, tag-like text, &#10;, braces, $, astral, RTL ...); each string is "
                "written into 28 text-bearing channels of one form (labels with/without ${refs}, hints, guidance, messages, choice labels and extra columns, "
                "default, title, version, appearance, bind/instance/body/settings custom attributes, itext label/hint/choice label, label and hint of a row copied by a loop) and converted in both "
                "print modes; the text recovered by ElementTree from the corresponding place must equal the source modulo whitespace cleaning (TLA+ Norm/"
                "SameData), and the document's element/attribute structure must equal that of the benign baseline form; a default without expression markers must be literal instance text (no action element).")
    rep.assumptions = ["'the corresponding place' per channel is harness/xmlgen.recover", "forms the converter rejects (e.g. '${' opening a malformed reference) are not counted"]
    _xml.mc_writer(rep, rep.tier)
    _xml.writer_conformance(rep, rep.tier, PROP)
    strs = _xml.hostile_strings(rep, rep.tier, rep.seed)
    jobs = [{"classes": s, "fmt": "dict" if i % 6 else ("xlsx" if i % 12 else "md"), "parts": ("c01", "c06")} for i, s in enumerate(strs)]
    outs = conv.map_cases(_xml.run_doc, jobs, chunksize=8)
    sub, acc, rejected = _xml.validate_docs(rep, PROP, outs, "hostile strings x 28 channels")
    # hostile text that makes the converter fall over (anything but its own PyXFormError) changed more than an element
    ncrash = 0
    for o in outs:
        if "crash" in o["status"]:
            ncrash += 1
            r = o["res"]["c"] if o["res"]["c"].get("status") == "crash" else o["res"]["p"]
            rep.violation(f"{PROP}:crash_on_hostile_text:{r.get('errclass')}@{r.get('frame')}", f"classes={o['job']['classes']} {r.get('message')}"[:400],
                          {"classes": o["job"]["classes"], "fmt": o["fmt"], "clause": "crash_on_hostile_text", "wb": o["wb"]})
    if len(sub) < 0.6 * len(outs) and not ncrash:
        bad = next(o for o in outs if o["status"] != "ok")
        raise tlc.MachineryError(f"too many hostile forms rejected ({len(outs) - len(sub)}/{len(outs)}): {bad['res']['c'].get('message')}")
    for o, clause in rejected:
        rep.violation(_sig(o, clause), f"clause {clause}; classes={o['job']['classes']} failing_channels={_failing_channels(o)} parse={o['trace'][0]['c01']['c']['error']}"[:500],
                      {"classes": o["job"]["classes"], "fmt": o["fmt"], "clause": clause, "wb": o["wb"]})
    for o in sub[40:42]:
        rep.sample({"classes": o["job"]["classes"], "string": "".join(xmlgen.HOSTILE[c] for c in o["job"]["classes"]), "channels": [c["name"] for c in o["trace"][0]["channels"]]})
    ok = [o for i, o in enumerate(sub) if i in acc]
    base = next(o for o in ok if "amp" in o["job"]["classes"] or "lt" in o["job"]["classes"])
    cans = []
    t = copy.deepcopy(base["trace"]); t[0]["channels"][0]["rec"]["kids"][0]["s"] = t[0]["channels"][0]["rec"]["kids"][0]["s"][:-2]; cans.append(("text_truncated", t))
    t = copy.deepcopy(base["trace"]); t[0]["channels"][1]["rec"]["kids"].append({"k": "e", "tag": "output", "attrs": [], "kids": []}); cans.append(("element_injected", t))
    t = copy.deepcopy(base["trace"]); t[0]["skeleton_same"] = False; cans.append(("structure_changed_by_text", t))
    t = copy.deepcopy(base["trace"]); t[0]["channels"][2]["rec_p"] = {"k": "none"}; cans.append(("text_lost_in_pretty", t))
    plain = {"p", "lt", "gt", "amp", "quot", "apos", "sp", "entity", "dollar", "astral", "rtl", "numref", "tag", "pi", "zwnj", "rlm", "zwsp"}
    basep = next(o for o in ok if set(o["job"]["classes"]) <= plain and o["trace"][0]["default_place"] == "instance")
    t = copy.deepcopy(basep["trace"]); t[0]["default_place"] = "setvalue"; cans.append(("plain_default_became_an_action", t))
    a, _ = tlc.validate_traces("Trace_Xml", _xml.corpus._cfg("Trace_Xml.cfg", _xml.TRACE_CFG), [c[1] for c in cans] + [base["trace"]], shards=1, env={"PROP": PROP}, tag="canary")
    wrongly = [cans[i][0] for i in a if i < len(cans)]
    if wrongly or len(cans) not in a:
        raise tlc.MachineryError(f"canary failure: accepted {wrongly}; control accepted={len(cans) in a}")
    rep.extra.setdefault("canaries_rejected", []).extend(c[0] for c in cans)
    # instance() expressions inside label text (InstanceExpr.tla), this property's clauses
    from harness.props import _instexpr

    _instexpr.run(rep, PROP)


def replay(rep, case):
    c = case["case"]
    if c.get("instexpr"):
        from harness.props import _instexpr

        return _instexpr.replay(rep, PROP, c)
    if c.get("writer"):
        outs = [_xml.run_writer({"dom": c["dom"]})]
        acc, info = tlc.validate_traces("Trace_Xml", _xml.corpus._cfg("Trace_Xml.cfg", _xml.TRACE_CFG), [o["trace"] for o in outs], shards=1, env={"PROP": PROP}, tag="replay")
        if 0 not in acc:
            rep.violation(f"{PROP}:{info['progress'].get(0, (0, '?'))[1]}", "writer replay", c)
        return
    o = _xml.run_doc({"classes": c["classes"], "fmt": c.get("fmt", "dict"), "parts": ("c01", "c06")})
    sub, acc, rejected = _xml.validate_docs(rep, PROP, [o], "replay")
    for o, clause in rejected:
        rep.violation(_sig(o, clause), f"clause {clause}", c)
    rep.sample({"classes": c["classes"]})
