"""C15 - pretty_print is purely cosmetic."""

from __future__ import annotations

import copy

from harness import conv, corpus, formgen, tlc, xmlgen
from harness.props import _xml

PROP = "C15"


def _label_text(kids):
    out = ""
    for k in kids:
        if k["k"] == "t":
            out += "".join(xmlgen.CONCRETE[c] for c in k["s"])
        else:
            out += "${q0}"
    return out


def _piece_form(dom, i):
    """a model label DOM (text / output pieces) written into label, hint, translated label and a choice label"""
    t = _label_text(dom["kids"]) or "x"
    if not t.strip():
        t = "x" + t + "y" if i % 2 else t + "z"
    rows = [["text", "q0", "Q0", None, None], ["text", "q1", t, t, t + " fr"], ["select_one L", "q2", "S", None, None], ["note", "q3", t + " ${q1}", None, None]]
    return {"sheets": [{"name": "survey", "header": ["type", "name", "label", "hint", "label::French (fr)"], "rows": rows},
                       {"name": "choices", "header": ["list_name", "name", "label"], "rows": [["L", "l1", t], ["L", "l2", "two"]]}]}


MULTILINE = ["L1\n${q0}\nL2", "L1\n${q0}\n${q9}\nL2", "\n${q0}\n", "L1\n  ${q0}  \nL2", "L1\n${q0}", "${q0}\nL2", "L1\n\n${q0}\n\nL2", "L1\n\t${q0}\n\tL2",
             "L1 \n ${q0} \n L2 ${q9}\n", "line one\nline two\nline three", "${q0}\n${q9}", "a\r\n${q0}\r\nb",
             "${q0}\u3000${q9}", "${q9}\u00a0${q0}", "\u2003${q0}\u2003",
             "para one\n\npara two", "para one\n \npara two ${q0}", "x\u2028y", "x\u0085y ${q0}", "x\u2029\u2029y"]


def _multiline_form(t):
    """multi-line cell text with references on lines of their own, in label / hint / translated label / choice label / note"""
    rows = [["text", "q0", "Q0", None, None], ["text", "q9", "Q9", None, None], ["text", "q1", t, t, t.replace("L1", "F1")], ["select_one L", "q2", "S", None, None],
            ["note", "q3", "N " + t, None, None]]
    return {"sheets": [{"name": "survey", "header": ["type", "name", "label", "hint", "label::French (fr)"], "rows": rows},
                       {"name": "choices", "header": ["list_name", "name", "label"], "rows": [["L", "l1", t], ["L", "l2", "two"]]}]}


def run(rep):
    rep.rule = ("XmlWriter.tla model-checked (PrettyIsCosmetic on every DOM in bounds) and bound to the real writer; then (a) every model label DOM "
                "(sequences of text / output pieces with leading, trailing and only-space text) is written into label, hint, translated label, choice "
                "label and a second label with a trailing reference, (b) TLC-generated row structures decorated with every feature, (c) the hostile-string "
                "forms of C06 - each converted compact and pretty; TLC (Trace_Xml, PROP=C15) checks: same elements/attributes, and for every text-bearing "
                "element (own text, or label/hint/value/title) XmlWriter.SameTree(pretty, compact), i.e. identical pieces except whitespace-only text in "
                "elements with no text of their own.")
    rep.assumptions = ["structure (tags, attribute sets and values, order) is compared by the harness on ElementTree; the significant-whitespace rule is decided by TLC per text-bearing element"]
    _xml.mc_writer(rep, rep.tier)
    _xml.writer_conformance(rep, rep.tier, PROP)
    cfg = corpus._cfg("Gen_Xml_dom.cfg", 'SPECIFICATION GSpec\nCONSTANT MaxStr = 2\nCONSTANT MaxKids = 2\nCONSTANT MaxLen = 0\nCONSTANT Mode = "dom"\nCONSTRAINT Emit\nCHECK_DEADLOCK FALSE\n')
    cases, r = tlc.generate("Gen_Xml", cfg, tag="genxmldom", timeout=900)
    doms = [c["dom"] for c in cases if "dom" in c and c["dom"]["tag"] == "label"]
    if rep.tier == "quick":
        doms = corpus.pick(doms, 700, rep.seed)
    jobs = [{"wb": _piece_form(d, i), "fmt": "dict", "parts": ("c01", "c15"), "tag": {"pieces": i}} for i, d in enumerate(doms)]
    n = 3 if rep.tier == "quick" else 4
    shapes, g = corpus.gen_shapes("ok", n)
    lim = 500 if rep.tier == "quick" else 8000
    for i, c in enumerate(corpus.pick(shapes, lim, rep.seed)):
        f = formgen.decorate(c["rows"], seed=rep.seed + i, feat=corpus.ALL_FEAT)
        jobs.append({"wb": f.wb(), "fmt": "dict" if i % 5 else "md", "parts": ("c01", "c15"), "tag": {"shapes": c["rows"]}})
    strs = _xml.hostile_strings(rep, "quick", rep.seed)
    for i, s in enumerate(strs if rep.tier == "thorough" else corpus.pick(strs, 300, rep.seed)):
        jobs.append({"classes": s, "fmt": "dict", "parts": ("c01", "c15")})
    rep.bounds["forms"] = {"label_piece_forms": len(doms), "decorated_structures": lim, "hostile": len(jobs) - len(doms) - lim}
    for i, t in enumerate(MULTILINE):
        for fmt in ("dict", "xlsx"):
            jobs.append({"wb": _multiline_form(t), "fmt": fmt, "parts": ("c01", "c15"), "tag": {"multiline": i}})
    rep.bounds["forms"]["multiline_templates"] = len(MULTILINE)
    # a JSON-borne dict with numeric cells (choice names, extra choice columns, defaults): numbers become text nodes too
    numwb = {"sheets": [{"name": "survey", "header": ["type", "name", "label", "default"], "rows": [["select_one L", "s1", "S1", None], ["integer", "n1", "N1", 7], ["decimal", "d1", "D1", 2.5]]},
                        {"name": "choices", "header": ["list_name", "name", "label", "weight"], "rows": [["L", 1, "One", 10], ["L", 2, "Two", 2.5], ["L", 3, 3, 0]]}]}
    jobs.append({"wb": numwb, "fmt": "dict_raw", "parts": ("c01", "c15"), "tag": {"numeric_cells": True}})
    # the workbooks the repository's own test-suite converts (frozen input corpus): every accepted one in both print modes
    from harness import suitecorpus

    sj = suitecorpus.doc_jobs(("c01", "c15"))
    jobs += sj
    rep.bounds["forms"]["suite_corpus"] = len(sj)
    outs = conv.map_cases(_xml.run_doc, jobs, chunksize=8)
    sub, acc, rejected = _xml.validate_docs(rep, PROP, outs, "forms converted compact and pretty")
    for o, clause in rejected:
        rep.violation(f"{PROP}:{clause}", f"clause {clause}; job={o['job']}"[:400], {"wb": o["wb"], "fmt": o["fmt"], "clause": clause, "job": o["job"]})
    for o in sub[5:7]:
        rep.sample({"job": o["job"], "text_bearing_elements": len(o["trace"][0]["texts_c"])})
    ok = [o for i, o in enumerate(sub) if i in acc and len(o["trace"][0]["texts_c"]) >= 4]
    base = ok[0]
    cans = []
    t = copy.deepcopy(base["trace"])
    el = next(e for e in t[0]["texts_p"] if any(k["k"] == "t" for k in e[1]["kids"]))
    el[1]["kids"] = [k for k in el[1]["kids"] if k["k"] != "t"] + [{"k": "t", "s": ["nl", "sp", "sp"]}]
    cans.append(("text_replaced_by_indentation_in_pretty", t))
    t = copy.deepcopy(base["trace"])
    el = next(e for e in t[0]["texts_p"] if any(k["k"] == "t" for k in e[1]["kids"]))
    next(k for k in el[1]["kids"] if k["k"] == "t")["s"].insert(0, "nl")
    cans.append(("newline_inside_text_in_pretty", t))
    t = copy.deepcopy(base["trace"]); t[0]["structure_equal"] = False; cans.append(("structure_differs", t))
    t = copy.deepcopy(base["trace"]); t[0]["texts_p"] = t[0]["texts_p"][:-1]; cans.append(("text_element_missing_in_pretty", t))
    a, _ = tlc.validate_traces("Trace_Xml", corpus._cfg("Trace_Xml.cfg", _xml.TRACE_CFG), [c[1] for c in cans] + [base["trace"]], shards=1, env={"PROP": PROP}, tag="canary")
    wrongly = [cans[i][0] for i in a if i < len(cans)]
    if wrongly or len(cans) not in a:
        raise tlc.MachineryError(f"canary failure: accepted {wrongly}; control accepted={len(cans) in a}")
    rep.extra.setdefault("canaries_rejected", []).extend(c[0] for c in cans)
    # one Survey object rendered again and again between edits (SurveyObject.tla histories): at every render the pretty and the
    # compact rendering are the same document - neither may lag behind the object's state
    from harness.props import c02

    c02.part_histories(rep, PROP)


def replay(rep, case):
    c = case["case"]
    if "history" in c:
        from harness.props import c02

        return c02.replay_history(rep, PROP, c)
    if c.get("writer"):
        o = _xml.run_writer({"dom": c["dom"]})
        acc, info = tlc.validate_traces("Trace_Xml", corpus._cfg("Trace_Xml.cfg", _xml.TRACE_CFG), [o["trace"]], shards=1, env={"PROP": PROP}, tag="replay")
        if 0 not in acc:
            rep.violation(f"{PROP}:{info['progress'].get(0, (0, '?'))[1]}", "writer replay", c)
        return
    o = _xml.run_doc({"wb": c["wb"], "fmt": c.get("fmt", "dict"), "parts": ("c01", "c15"), "kwargs": (c.get("job") or {}).get("kwargs")})
    sub, acc, rejected = _xml.validate_docs(rep, PROP, [o], "replay")
    for o, clause in rejected:
        rep.violation(f"{PROP}:{clause}", f"clause {clause}", c)
