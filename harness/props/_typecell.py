"""Type-cell part of C13 and C17 (TypeCell.tla): design checks by TLC, then every generated type cell through the real converter."""

from __future__ import annotations

import copy

from harness import conv, corpus, tlc

INVS = ("TranscriptionMeetsEnvelope", "CanonicalSpellingMeansTheSame", "SeparatorsAgree", "DocumentedCellsAreOrderIndependent")


def _tcfg(wide):
    return corpus._cfg(f"Trace_TypeCell_{int(wide)}.cfg", f"SPECIFICATION TSpec\nCONSTANT Wide = {'TRUE' if wide else 'FALSE'}\nCONSTRAINT Accepted\nCHECK_DEADLOCK FALSE\n")


def part(rep, prop):
    from harness import typecellgen

    wide = rep.tier == "thorough"
    cfg = corpus._cfg(f"Gen_TypeCell_{int(wide)}.cfg", f"SPECIFICATION GSpec\nCONSTANT Wide = {'TRUE' if wide else 'FALSE'}\n" + "".join(f"INVARIANT {i}\n" for i in INVS)
                      + "CONSTRAINT Emit\nCHECK_DEADLOCK FALSE\n")
    cases, r = tlc.generate("Gen_TypeCell", cfg, tag="gentc", timeout=1500)
    rep.add_mc(r, "Gen_TypeCell: every control / select / osm alias x separator x tail of <= 2 words (+ or-other spellings), near misses: transcription meets envelope, "
                  "canonical spelling means the same, separators agree, documented cells do not depend on the regex alternation order")
    outs = conv.map_cases(typecellgen.run_cell, cases, chunksize=64)
    for o in outs:
        if o.get("status") == "harness_error":
            raise tlc.MachineryError(o["message"] + "\n" + o.get("tb", ""))
    nd = sum(1 for c in cases if c["indomain"])
    nu = sum(1 for c in cases if c["parse"]["k"] == "unknown")
    rep.bounds["type_cells"] = {"cells": len(cases), "documented": nd, "not_a_type": nu, "order_dependent_readings": sum(1 for c in cases if c["order_dependent"])}
    if (nd < 100 or nu < 100) and not rep.violations:
        raise tlc.MachineryError("type cells: the generator no longer produces documented and unknown cells")
    acc, info = tlc.validate_traces("Trace_TypeCell", _tcfg(wide), [o["trace"] for o in outs], shards=8, tag="trtc", env={"PROP": prop}, timeout=1500)
    rep.traces_validated += len(acc)
    rep.extra.setdefault("trace_runs", []).append({"source": "type cells inside frame forms through the real converter", "traces": len(outs), "accepted": len(acc),
                                                   "drift_from_transcription": len(info.get("drift", [])), "wall_s": round(info["wall"], 1)})
    if info.get("drift"):
        rep.drift.append(f"{len(info['drift'])} type cells read differently from TypeCell.Parse (undocumented cells), e.g. {outs[info['drift'][0]]['text']!r}")
    for i, o in enumerate(outs):
        rep.case({"type_cell": o["text"]})
        if i in acc:
            continue
        l, clause = info["progress"].get(i, (0, "unexplained_event"))
        real = {k: v for k, v in o["trace"][0]["real"].items()}
        rep.violation(f"{prop}:typecell:{clause}", f"clause {clause}; type cell {o['text']!r} read as {real}; spec parse {o['job']['parse']}"[:600],
                      {"typecell": True, "job": o["job"], "clause": clause})
    rep.sample({"type_cell": outs[7]["text"], "real": outs[7]["trace"][0]["real"]})
    # canaries
    okd = [o for i, o in enumerate(outs) if i in acc and o["job"]["indomain"] and o["job"]["c"]["k"] == "select" and o["trace"][0]["real"]["other"]]
    unk = [o for i, o in enumerate(outs) if i in acc and o["job"]["parse"]["k"] == "unknown"]
    if not okd or not unk:
        if rep.violations:
            return
        raise tlc.MachineryError("type cells: no accepted execution to corrupt for the self-test")
    cans = []
    if prop == "C13":
        t = copy.deepcopy(okd[0]["trace"]); t[0]["real"]["other"] = False; cans.append(("or_other_lost", t))
        t = copy.deepcopy(okd[0]["trace"]); t[0]["real"]["t"] = "select all that apply"; cans.append(("alias_read_as_another_type", t))
        t = copy.deepcopy(okd[0]["trace"]); t[0]["same_as_canon"] = False; cans.append(("spelling_changes_xform", t))
        t = copy.deepcopy(okd[0]["trace"]); t[0]["real"]["status"] = "pyxform_error"; cans.append(("documented_cell_refused", t))
    else:
        t = copy.deepcopy(unk[0]["trace"]); t[0]["real"]["status"] = "ok"; cans.append(("unknown_type_accepted", t))
    t = copy.deepcopy(unk[0]["trace"]); t[0]["real"]["status"] = "crash:KeyError"; cans.append(("typecell_crash", t))
    a, _ = tlc.validate_traces("Trace_TypeCell", _tcfg(wide), [c[1] for c in cans] + [okd[0]["trace"]], shards=1, tag="canary", env={"PROP": prop})
    wrongly = [cans[i][0] for i in a if i < len(cans)]
    if wrongly or len(cans) not in a:
        raise tlc.MachineryError(f"type cell canary failure: accepted {wrongly}; control accepted={len(cans) in a}")
    rep.extra.setdefault("canaries_rejected", []).extend(c[0] for c in cans)


def replay(rep, prop, c):
    from harness import typecellgen

    o = typecellgen.run_cell(c["job"])
    acc, info = tlc.validate_traces("Trace_TypeCell", _tcfg(True), [o["trace"]], shards=1, tag="replay", env={"PROP": prop})
    rep.traces_validated += len(acc)
    rep.case({"type_cell": o["text"]})
    if 0 not in acc:
        rep.violation(f"{prop}:typecell:{info['progress'].get(0, (0, '?'))[1]}", "replay", c)
