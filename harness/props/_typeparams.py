"""TypeParams.tla bound to the converter: the per-type decision table of the `parameters` cell, decided per property.

C05: bind attributes + the range bind type; C04: control / action attributes; C17: refusals and their diagnosis, never a crash;
C09: randomize / seed on the itemset; C20: the max-pixels advice."""

import copy

INVS = ["ForeignKeyRefused", "FactsAreOwnedAndSourced", "FactsAreFunctional", "LocationAllOrNothing", "LocationOrdered", "RangeTypeInsideEnvelope",
        "SeedOnlyWhenRandomized"]
FMTS = ["dict", "md", "xlsx", "csv"]


def _gcfg(n, only):
    from harness import corpus

    inv = "".join(f"INVARIANT {i}\n" for i in INVS)
    return corpus._cfg(f"Gen_TypeParams_{n}_{int(only)}.cfg",
                       f"SPECIFICATION TPSpec\nCONSTANT MaxParams = {n}\nCONSTANT OnlyAccepted = {'TRUE' if only else 'FALSE'}\n{inv}CONSTRAINT Emit\nCHECK_DEADLOCK FALSE\n")


def _tcfg():
    from harness import corpus

    return corpus._cfg("Trace_TypeParams.cfg", "SPECIFICATION TSpec\nCONSTANT MaxParams = 0\nCONSTANT OnlyAccepted = FALSE\nCONSTRAINT TAccepted\nCHECK_DEADLOCK FALSE\n")


def _jobs(cases):
    # separator style and container format rotate with the case number (Parameters.tla / C12 judge those; here they only vary the channel)
    return [{"case": c["case"], "style": i, "fmt": FMTS[(i // 4) % len(FMTS)]} for i, c in enumerate(cases)]


def run(rep, prop):
    from harness import conv, tlc, typeparamgen

    n = 3 if rep.tier == "quick" else 4
    cases, r = tlc.generate("Gen_TypeParams", _gcfg(n, False), tag="gentp", timeout=1500)
    good, r2 = tlc.generate("Gen_TypeParams", _gcfg(6, True), tag="gentpok", timeout=900)
    seen = {repr(c["case"]) for c in cases}
    cases = cases + [c for c in good if repr(c["case"]) not in seen]
    rep.add_mc(r, f"Gen_TypeParams: every parameters cell of <= {n} items (audit: {n + 1}) from the keys a type accepts + a neighbour's key + an unknown key, "
                  "each with its good and bad values, for 12 question types; 7 design invariants of the decision table")
    rep.add_mc(r2, "Gen_TypeParams (OnlyAccepted): every acceptable cell at full depth (<= 7 items)")
    rep.bounds["type_parameters"] = {"max_items": n, "cases": len(cases), "acceptable": sum(1 for c in cases if c["ok"]), "types": 12}
    outs = conv.map_cases(typeparamgen.run, _jobs(cases), chunksize=64)
    for o in outs:
        if o.get("status") == "harness_error":
            raise tlc.MachineryError(o["message"] + "\n" + o.get("tb", ""))
    acc, info = tlc.validate_traces("Trace_TypeParams", _tcfg(), [o["trace"] for o in outs], shards=8, env={"PROP": prop}, tag="trtp", timeout=1500)
    rep.traces_validated += len(acc)
    rep.extra.setdefault("trace_runs", []).append({"source": "TypeParams cells converted in a one-row-under-test form (bind / control / action facts projected)",
                                                   "traces": len(outs), "accepted": len(acc), "drift_from_transcription": len(info["drift"]), "wall_s": round(info["wall"], 1)})
    if info["drift"]:
        rep.drift.append(f"{len(info['drift'])} range rows get another bind type than TypeParams!Expect (inside the envelope)")
    for i, o in enumerate(outs):
        rep.case({"typeparams": o["job"]["case"]})
        if i in acc:
            continue
        l, clause = info["progress"].get(i, (0, "unexplained_event"))
        c = o["job"]["case"]
        rep.violation(f"{prop}:typeparams:{clause}:{c['type']}", f"clause {clause}; {c['type']} row, parameters {typeparamgen.cell_text(c, o['job']['style'])!r} "
                      f"(fmt {o['job']['fmt']}) real={o['trace'][0]['real']}"[:500], {"typeparams": True, "job": o["job"], "clause": clause})
    _canaries(rep, prop, outs, acc)


def _canaries(rep, prop, outs, acc):
    from harness import tlc

    def first(pred):
        return next((o for i, o in enumerate(outs) if i in acc and pred(o["trace"][0])), None)

    cans = []

    def add(name, base, fn):
        if base is None:
            if rep.violations:
                return
            raise tlc.MachineryError(f"typeparams: no accepted execution for canary {name}")
        t = copy.deepcopy(base["trace"])
        fn(t[0]["real"])
        cans.append((name, t))

    okbind = first(lambda e: e["real"]["status"] == "ok" and any(f[0] == "bind" for f in e["real"]["facts"]))
    okctl = first(lambda e: e["real"]["status"] == "ok" and e["case"]["type"] != "range" and any(f[0] == "control" for f in e["real"]["facts"]))
    oktext = first(lambda e: e["real"]["status"] == "ok" and e["case"]["type"] == "text")
    err = first(lambda e: e["real"]["status"] == "pyxform_error" and e["case"]["type"] == "audio")
    rng = first(lambda e: e["real"]["status"] == "ok" and e["real"]["rtype"] == "decimal")
    rnd = first(lambda e: e["real"]["status"] == "ok" and e["real"]["randomized"] and e["real"]["seed"] != "none")
    img = first(lambda e: e["real"]["status"] == "ok" and e["case"]["type"] == "image" and e["real"]["warn"])
    if prop == "C05":
        add("bind_attribute_dropped", okbind, lambda r: r.update(facts=[f for f in r["facts"] if f[0] != "bind"]))
        add("bind_attribute_from_nowhere", oktext, lambda r: r["facts"].append(["bind", "odk:quality", "low"]))
        add("range_type_wrong", rng, lambda r: r.update(rtype="int"))
    if prop == "C04":
        add("control_attribute_dropped", okctl, lambda r: r.update(facts=[f for f in r["facts"] if f[0] != "control"]))
        add("control_attribute_from_nowhere", okbind, lambda r: r["facts"].append(["control", "rows", "5"]))
    if prop == "C17":
        add("bad_cell_accepted", err, lambda r: r.update(status="ok", mentions=[]))
        add("crash", err, lambda r: r.update(status="crash:KeyError"))
        add("diagnosis_names_nothing", err, lambda r: r.update(mentions=[], row=False))
    if prop == "C09":
        add("randomize_lost", rnd, lambda r: r.update(randomized=False, seed="none"))
        add("seed_lost", rnd, lambda r: r.update(seed="none"))
    if prop == "C20":
        add("advice_missing", img, lambda r: r.update(warn=False))
    if not cans:
        return
    control = first(lambda e: True)
    a, _ = tlc.validate_traces("Trace_TypeParams", _tcfg(), [c[1] for c in cans] + [control["trace"]], shards=1, env={"PROP": prop}, tag="canarytp")
    if any(i in a for i in range(len(cans))) or len(cans) not in a:
        raise tlc.MachineryError(f"typeparams canary failure ({prop}): accepted {[cans[i][0] for i in a if i < len(cans)]}, control accepted: {len(cans) in a}")
    rep.extra.setdefault("canaries_rejected", []).extend(c[0] for c in cans)


def replay(rep, prop, c):
    from harness import tlc, typeparamgen

    o = typeparamgen.run(c["job"])
    acc, info = tlc.validate_traces("Trace_TypeParams", _tcfg(), [o["trace"]], shards=1, env={"PROP": prop}, tag="replay")
    rep.traces_validated += len(acc)
    rep.case({"typeparams": c["job"]["case"]})
    if 0 not in acc:
        clause = info["progress"].get(0, (0, "?"))[1]
        rep.violation(f"{prop}:typeparams:{clause}:{c['job']['case']['type']}", f"replay: clause {clause} real={o['trace'][0]['real']}"[:400], c)
