"""C19 - entity declarations follow the documented create/update decision table."""

from __future__ import annotations

import copy

from harness import conv, corpus, tlc

PROP = "C19"
TRACE_CFG = "SPECIFICATION TSpec\nCONSTRAINT Accepted\nCHECK_DEADLOCK FALSE\n"
EMPTY = {"parse_ok": True, "custom_ns_declared": False, "present": False, "attrs": [], "has_label": False, "binds": [], "setvalue": [], "version": "", "ns_declared": False, "saveto": []}


def _run(job):
    from harness import entitygen, render

    wb, src = entitygen.build(job["case"])
    fmt = job["fmt"]
    if fmt == "dict_grid":
        # the entities sheet as a grid editor would hand it over: the row carries all five documented columns, "" where the cell is
        # empty (the survey sheet is left sparse: what an empty string means in a survey cell is not something C19 speaks about)
        inp, kw = render.render(wb, "dict")
        d = inp["data"]
        if d.get("entities"):
            d["entities_header"] = [{h: None for h in list(d["entities_header"][0]) + [c for c in ("label", "entity_id", "create_if", "update_if") if c not in d["entities_header"][0]]}]
        for key in ("entities",):
            cols = [h for hd in d.get(f"{key}_header", []) for h in hd]
            for row in d.get(key, []):
                for h in cols:
                    row.setdefault(h, "")
    else:
        inp, kw = render.render(wb, fmt)
    res = conv.convert_case({"input": inp, "kwargs": kw, "events": False})
    ev = {"ev": "entity", "status": res["status"], "case": job["case"], "src": src, "obs": dict(EMPTY)}
    if res["status"] == "ok":
        ev["obs"] = entitygen.observe(res["xform"])
    return {"case": job["case"], "fmt": fmt, "wb": wb, "res": {k: v for k, v in res.items() if k not in ("events", "xform")}, "trace": [ev]}


def run(rep):
    rep.rule = ("TLC (Gen_Entities) enumerates all 16 presence combinations of (entity_id, create_if, update_if, label) x {literal, reference} "
                "expressions x every subset of 5 save_to sites (top-level question, question in a group, question in a repeat, a group row, question in a group inside a repeat) x custom namespaces in settings or not, and "
                "single departures (4 bad dataset-name classes, 5 bad property-name classes at 2 sites, two entity rows, an unknown column, "
                "save_to without an entities sheet); each case is rendered and converted; TLC (Trace_Entities) decides with the decision table "
                "of Entities.tla whether it must be rejected and, if declared, checks attributes, label child, binds (suffix and calculated "
                "expression), the first-load uuid() setvalue, version/namespace declaration and the saveto attributes.")
    rep.assumptions = ["the decision table in Entities.tla is transcribed from the ODK entities specification and the property statement",
                       "expressions are compared after normalising substituted paths (C03 judges the paths)"]
    r = tlc.model_check("Gen_Entities", corpus._cfg("MC_Entities.cfg", "SPECIFICATION ESpec\nINVARIANT AlwaysAnAction\nCHECK_DEADLOCK FALSE\n"),
                        workers=4, required_actions=("Depart", "Keep"), tag="mcent")
    if r["violation"]:
        raise tlc.MachineryError(f"Entities invariant {r['violation']} violated")
    rep.add_mc(r, "Entities: all cases; AlwaysAnAction; ASSUME FiveRowsAccepted")
    cases, g = tlc.generate("Gen_Entities", corpus._cfg("Gen_Entities.cfg", "SPECIFICATION ESpec\nCONSTRAINT Emit\nCHECK_DEADLOCK FALSE\n"), tag="genent")
    rep.exhaustive = True
    for c in cases:
        c["saveto"] = sorted(c["saveto"])
    rep.bounds["cases"] = {"distinct": len(cases)}
    jobs = [{"case": c, "fmt": ("md" if i % 5 == 1 else "xlsx" if i % 97 == 3 else "dict_grid" if i % 5 == 2 else "dict")} for i, c in enumerate(cases)]
    outs = conv.map_cases(_run, jobs, chunksize=16)
    for o in outs:
        if o.get("status") == "harness_error":
            raise tlc.MachineryError(o["message"] + "\n" + o.get("tb", ""))
    cfg = corpus._cfg("Trace_Entities.cfg", TRACE_CFG)
    acc, info = tlc.validate_traces("Trace_Entities", cfg, [o["trace"] for o in outs], shards=8, tag="trc19")
    rep.traces_validated += len(acc)
    st = {}
    for o in outs:
        st[o["res"]["status"]] = st.get(o["res"]["status"], 0) + 1
    rep.extra["outcomes"] = st
    rep.extra.setdefault("trace_runs", []).append({"source": "TLC-generated entity cases", "traces": len(outs), "accepted": len(acc), "tlc_states": info["distinct"], "wall_s": round(info["wall"], 1)})
    for i, o in enumerate(outs):
        rep.case({"case": o["case"], "fmt": o["fmt"]})
        if i in acc:
            continue
        l, clause = info["progress"].get(i, (0, "unexplained_event"))
        res = o["res"]
        sig = f"{PROP}:crash:{res.get('errclass')}@{res.get('frame')}" if res["status"] == "crash" else f"{PROP}:{clause}"
        rep.violation(sig, f"clause {clause}; case={o['case']} status={res['status']} {res.get('message') or ''} obs={o['trace'][0]['obs']}"[:700],
                      {"case": o["case"], "fmt": o["fmt"], "clause": clause, "wb": o["wb"], "obs": o["trace"][0]["obs"], "src": o["trace"][0]["src"]})
    for o in [x for x in outs if x["res"]["status"] == "ok"][10:12]:
        rep.sample({"case": o["case"], "obs": o["trace"][0]["obs"]})
    ok = [o for i, o in enumerate(outs) if i in acc and o["res"]["status"] == "ok" and o["trace"][0]["obs"]["present"]]
    base = next(o for o in ok if o["case"]["id"] and o["case"]["up"] and not o["case"]["cr"] and o["case"]["saveto"])
    cans = []
    t = copy.deepcopy(base["trace"]); t[0]["obs"]["attrs"].append(["create", "1"]); cans.append(("create_flag_on_update_only", t))
    t = copy.deepcopy(base["trace"]); t[0]["obs"]["setvalue"] = [["odk-instance-first-load", "uuid()"]]; cans.append(("uuid_setvalue_when_updating", t))
    t = copy.deepcopy(base["trace"]); t[0]["obs"]["binds"] = [b for b in t[0]["obs"]["binds"] if b[0] != "/@update"]; cans.append(("update_condition_unbound", t))
    t = copy.deepcopy(base["trace"]); t[0]["obs"]["saveto"] = t[0]["obs"]["saveto"][1:]; cans.append(("saveto_lost", t))
    t = copy.deepcopy(base["trace"]); t[0]["obs"]["version"] = ""; cans.append(("version_undeclared", t))
    rej = next(o for i, o in enumerate(outs) if i in acc and o["res"]["status"] == "pyxform_error")
    t = copy.deepcopy(rej["trace"]); t[0]["status"] = "ok"; cans.append(("invalid_combination_accepted", t))
    a, _ = tlc.validate_traces("Trace_Entities", cfg, [c[1] for c in cans] + [base["trace"]], shards=1, tag="canary")
    wrongly = [cans[i][0] for i in a if i < len(cans)]
    if wrongly or len(cans) not in a:
        raise tlc.MachineryError(f"canary failure: accepted {wrongly}; control accepted={len(cans) in a}")
    rep.extra["canaries_rejected"] = [c[0] for c in cans]


def replay(rep, case):
    c = case["case"]
    o = _run({"case": c["case"], "fmt": c.get("fmt", "dict")})
    cfg = corpus._cfg("Trace_Entities.cfg", TRACE_CFG)
    acc, info = tlc.validate_traces("Trace_Entities", cfg, [o["trace"]], shards=1, tag="replay")
    rep.traces_validated += len(acc)
    rep.case(c)
    if 0 not in acc:
        l, clause = info["progress"].get(0, (0, "unexplained_event"))
        rep.violation(f"{PROP}:{clause}", f"clause {clause}", c)
    rep.sample({"case": c["case"]})
