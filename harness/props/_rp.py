"""Shared driver for the properties decided on RowParser traces (C04, C02, structural C17)."""

from __future__ import annotations

import copy
import json

from harness import corpus, tlc

TRACE_MOD = "Trace_RowParser"
TRACE_CFG = "cfg/Trace_RowParser.cfg"
MC_ACTIONS = ("ASkip", "ANoType", "AAudit", "AEnd", "ABegin", "ASelect", "AQuestion", "Finish")


def mc(rep, tier):
    cfg = corpus._cfg(
        "MC_RowParser.cfg",
        "SPECIFICATION MCSpec\nCONSTANT MaxRows = 3\nCHECK_DEADLOCK FALSE\n"
        + "".join(f"INVARIANT {i}\n" for i in (
            "StackWellFormed", "ParentsFirst", "AcceptedIsUnambiguous", "RowErrorsLocated", "ErrorKindsKnown",
            "GeneratedOnlyDocumented", "CountBesideRepeat", "OtherAfterSelect", "SpecClosure", "IdentErrorsHaveIdent"))
        + "PROPERTY TableListResetOnEnd\n",
    )
    r = tlc.model_check("MC_RowParser", cfg, workers=16, required_actions=MC_ACTIONS, tag="mcrp", timeout=1500)
    if r["violation"]:
        raise tlc.MachineryError(f"RowParser design-level invariant {r['violation']} violated:\n{r['out'][-2000:]}")
    rep.add_mc(r, "MC_RowParser MaxRows=3 name-pool=6 (exhaustive, 10 invariants + 1 action property)")
    rep.bounds["mc"] = {"MaxRows": 3, "name_pool": 6, "row_shapes": 16}


def jobs_ok(tier, seed):
    """TLC-generated accepted forms: exhaustive to N, hash-sampled deeper, simulated deeper still."""
    jobs = []
    meta = {}
    plan = [(3, None), (4, 2500)] if tier == "quick" else [(4, None), (5, 25000)]
    for n, lim in plan:
        cases, r = corpus.gen_shapes("ok", n)
        meta[f"N={n}"] = {"forms": len(cases), "states": r["distinct"], "replayed": min(len(cases), lim or len(cases))}
        sel = corpus.pick(cases, lim, seed) if lim else cases
        jobs += [c["rows"] for c in sel]
    simn = 1500 if tier == "quick" else 15000
    cases, r = corpus.gen_shapes("ok", 9, simulate=f"num={simn}", depth=12, seed=seed + 1, timeout=900)
    cases = [c for c in cases if len(c["rows"]) >= 5]
    meta["simulate N<=9"] = {"forms": len(cases)}
    jobs += [c["rows"] for c in cases]
    seen = set()
    out = []
    for i, rows in enumerate(jobs):
        k = json.dumps(rows)
        if k in seen:
            continue
        seen.add(k)
        feat = sorted(corpus.ALL_FEAT) if i % 3 else ["unlabeled", "appearance"]
        fmt = "md" if i % 11 == 0 else ("xlsx" if i % 97 == 0 else "dict")
        out.append({"shapes": rows, "seed": seed, "feat": feat, "fmt": fmt})
    return out, meta


def canaries(trace, prop):
    """Corrupted copies of an accepted trace; every one must be rejected."""
    out = []
    t = copy.deepcopy(trace)
    rows = [i for i, e in enumerate(t) if e["ev"] == "row"]
    if rows:
        t[rows[0]]["nchildren"] += 1
        out.append(("snapshot_field", t))
    t = [e for e in copy.deepcopy(trace) if e["ev"] != "rows_done"]
    out.append(("hook_removed", t))
    t = copy.deepcopy(trace)
    obs = t[-1]["obs"]
    if prop == "C04" and len(obs["body"]) >= 2:
        obs["body"][0], obs["body"][1] = obs["body"][1], obs["body"][0]
        out.append(("body_swapped", t))
    if prop == "C04" and obs["inst"]:
        t2 = copy.deepcopy(trace)
        t2[-1]["obs"]["inst"] = t2[-1]["obs"]["inst"][1:]
        out.append(("instance_node_dropped", t2))
    if prop == "C02":
        t2 = copy.deepcopy(trace)
        t2[-1]["obs"]["binds"].append({"p": ["no_such_node"], "attr": "", "abs": True})
        out.append(("dangling_bind", t2))
        t3 = copy.deepcopy(trace)
        if t3[-1]["obs"]["binds"]:
            t3[-1]["obs"]["binds"].append(dict(t3[-1]["obs"]["binds"][0]))
            out.append(("double_bind", t3))
    return out


def validate(rep, prop, outs, label, src="gen"):
    """Trace-validate conversion outputs; record verdicts. Returns list of rejected (out, clause).
    src "ok": the forms come from the generator of accepted forms (a refusal or an internal exception is then a violation)"""
    sub = []
    skipped = {"crash": 0, "out_of_fragment": 0}
    for o in outs:
        if o.get("status") == "harness_error":
            raise tlc.MachineryError(f"harness error in worker: {o.get('message')}\n{o.get('tb')}")
        if not o["frag"]:
            skipped["out_of_fragment"] += 1
            continue
        if o["res"]["status"] == "crash" and prop != "C17" and not (prop in ("C03", "C04", "C05", "C10") or src == "ok"):
            skipped["crash"] += 1      # (collision / error alphabets: an internal exception there is C17's subject)
            continue
        sub.append(o)
    traces = [o["trace"] for o in sub]
    acc, info = tlc.validate_traces(TRACE_MOD, TRACE_CFG, traces, shards=12, env={"PROP": prop, "VERIF_SRC": src}, tag=f"tr{prop}")
    rep.traces_validated += len(acc)
    rep.extra.setdefault("trace_runs", []).append(
        {"source": label, "traces": len(traces), "accepted": len(acc), "tlc_states": info["distinct"], "wall_s": round(info["wall"], 1), **skipped}
    )
    rejected = []
    for i, o in enumerate(sub):
        nontrivial = (o["res"]["status"] == "ok" or prop == "C17") and any(e["ev"] == "row" and e["r"]["k"] != "skip" for e in o["trace"])
        rep.case({"shapes": o["shapes"], "feat": o["feat"], "fmt": o["fmt"]}, nontrivial=nontrivial)
        if i not in acc:
            l, clause = info["progress"].get(i, (0, "unexplained_event"))
            rejected.append((o, l, clause))
    return sub, acc, rejected


def run_canaries(rep, prop, sub, acc):
    base = next((sub[i] for i in sorted(acc) if sub[i]["res"]["status"] == "ok" and len(sub[i]["trace"][-1]["obs"]["body"]) >= 2 and sub[i]["trace"][-1]["obs"]["binds"]), None)
    if base is None:
        raise tlc.MachineryError("no accepted trace to build canaries from")
    cans = canaries(base["trace"], prop)
    a, info = tlc.validate_traces(TRACE_MOD, TRACE_CFG, [c[1] for c in cans] + [base["trace"]], shards=1, env={"PROP": prop}, tag="canary")
    wrongly = [cans[i][0] for i in a if i < len(cans)]
    if wrongly or len(cans) not in a:
        raise tlc.MachineryError(f"canary failure for {prop}: accepted corrupted traces {wrongly}; control accepted={len(cans) in a}")
    rep.extra["canaries_rejected"] = [c[0] for c in cans]


def corpus_part(rep, prop, refs=False):
    """The frozen test-suite corpus (workbooks the repository's own tests convert) through the hooked converter, judged by TLC with
    Source = "suite" (clauses that presuppose the generator's own forms are off).  Forms outside the modelled fragment are abstained on."""
    from harness import suitecorpus

    jobs = []
    for i, it in enumerate(suitecorpus.load()):
        st = next((s for s in it["wb"]["sheets"] if s["name"] == "settings"), None)
        if st and "flat" in [str(h).lower() for h in st["header"]]:
            continue
        kw = {"form_name": it["form_name"]} if it.get("form_name") else {}
        jobs.append({"wb": it["wb"], "fmt": "dict", "kwargs": kw, "refs": refs, "shapes": ["suite_corpus", i], "seed": 0, "feat": [], "tag": {"suite_form": i, "test": it.get("test")}})
    outs = corpus.run_forms(jobs)
    for o in outs:
        if o.get("status") == "harness_error":
            raise tlc.MachineryError(f"harness error in worker: {o.get('message')}\n{o.get('tb')}")
    sub = [o for o in outs if o.get("frag") and o["res"]["status"] in ("ok", "pyxform_error") and len(o["trace"]) <= 120]
    if len(sub) < 300:
        raise tlc.MachineryError(f"suite corpus produced only {len(sub)} usable traces")
    acc, info = tlc.validate_traces(TRACE_MOD, TRACE_CFG, [o["trace"] for o in sub], shards=12, env={"PROP": prop, "VERIF_SRC": "suite"}, tag=f"corpus{prop}", timeout=1500)
    rep.traces_validated += len(acc)
    rep.extra.setdefault("trace_runs", []).append({"source": "frozen test-suite corpus through the hooked converter (Source = suite)", "forms": len(jobs), "traces": len(sub), "accepted": len(acc),
                                                   "abstained_outside_fragment": len(outs) - len(sub), "wall_s": round(info["wall"], 1)})
    for i, o in enumerate(sub):
        rep.case({"suite_form": o["tag"]["suite_form"]}, nontrivial=o["res"]["status"] == "ok")
        if i not in acc:
            l, clause = info["progress"].get(i, (0, "unexplained_event"))
            rep.violation(f"{prop}:{clause}:suite_corpus", f"form {o['tag']} rejected at event {l} clause {clause}; status={o['res']['status']} {str(o['res'].get('message'))[:120]}",
                          {"suite_corpus": True, "tag": o["tag"], "wb": o["wb"], "clause": clause, "event": l})
    if prop == "C02":
        # forms outside the modelled fragment (loops, osm, cascading selects, includes ...): C02's demand on the emitted document is
        # stated on the document alone and is decided for them too ("free" event)
        out = [o for o in outs if not o.get("frag") and o["res"]["status"] == "ok" and o.get("trace") and o["trace"][-1].get("ev") == "end"]
        free = [[o["trace"][0], {"ev": "free", "status": "ok", "obs": o["trace"][-1]["obs"]}] for o in out]
        if free:
            accf, infof = tlc.validate_traces(TRACE_MOD, TRACE_CFG, free, shards=4, env={"PROP": prop, "VERIF_SRC": "suite"}, tag="corpusfree", timeout=900)
            rep.traces_validated += len(accf)
            rep.extra["trace_runs"].append({"source": "suite-corpus forms outside the fragment: closure of the emitted document alone", "traces": len(free), "accepted": len(accf)})
            for i, o in enumerate(out):
                rep.case({"suite_form_free": o["tag"]["suite_form"]})
                if i not in accf:
                    l, clause = infof["progress"].get(i, (0, "unexplained_event"))
                    rep.violation(f"{prop}:{clause}:suite_corpus_free", f"form {o['tag']} (outside the fragment) clause {clause}", {"suite_corpus": True, "tag": o["tag"], "wb": o["wb"], "clause": clause, "event": l})


def suite_part(rep, prop):
    """The repository's own tests as a source of executions: every convert() the suite performs, hooks on, judged by TLC."""
    import os

    from harness import suitetraces

    recs = suitetraces.record(os.environ.get("VERIF_REPO", "/repo"))
    trs = suitetraces.traces(recs)
    sub = [t for t in trs if t["frag"] and t["trace"] and len(t["trace"]) <= 80]
    if len(sub) < 300:
        raise tlc.MachineryError(f"test-suite recording produced only {len(sub)} usable traces out of {len(recs)} conversions")
    acc, info = tlc.validate_traces(TRACE_MOD, TRACE_CFG, [t["trace"] for t in sub], shards=12, env={"PROP": prop, "VERIF_SRC": "suite"}, tag=f"suite{prop}", timeout=1500)
    rep.traces_validated += len(acc)
    why = {}
    for t in trs:
        if not (t["frag"] and t["trace"]):
            k = (t.get("why") or "outside the modelled fragment (loop / osm / external instance / cascading ...)").split(":")[0]
            why[k] = why.get(k, 0) + 1
    rep.extra.setdefault("trace_runs", []).append({"source": "conversions performed by the repository's own test-suite (hooks on)", "conversions_recorded": len(recs),
                                                   "traces": len(sub), "accepted": len(acc), "abstained": why, "wall_s": round(info["wall"], 1)})
    for i, t in enumerate(sub):
        rep.case({"suite_test": t["test"], "n": i}, nontrivial=t["status"] == "ok")
        if i not in acc:
            l, clause = info["progress"].get(i, (0, "unexplained_event"))
            rep.violation(f"{prop}:{clause}:suite", f"execution recorded from {t['test']} rejected at event {l} clause {clause}; status={t['status']} {str(t.get('message'))[:120]}",
                          {"suite_test": t["test"], "wb": t["wb"], "clause": clause, "event": l})
