"""Shared driver for C05 (binds) and C10 (defaults/triggers): logic forms on TLC-generated structures."""

from __future__ import annotations

import copy
import json

from harness import corpus, logicgen, tlc
from harness.props import _rp


def jobs(tier, seed, mode):
    out = []
    meta = {}
    plan = [(3, None), (4, 2500)] if tier == "quick" else [(4, None), (5, 20000)]
    for n, lim in plan:
        cases, r = corpus.gen_shapes("ok", n)
        sel = corpus.pick(cases, lim, seed) if lim else cases
        meta[f"N={n}"] = {"forms": len(cases), "replayed": len(sel), "states": r["distinct"]}
        out += [c["rows"] for c in sel]
    simn = 1500 if tier == "quick" else 12000
    cases, r = corpus.gen_shapes("ok", 9, simulate=f"num={simn}", depth=12, seed=seed + 7, timeout=900)
    cases = [c for c in cases if len(c["rows"]) >= 5]
    meta["simulate N<=9"] = {"forms": len(cases)}
    out += [c["rows"] for c in cases]
    res = []
    seen = set()
    for i, rows in enumerate(out):
        # forms without any question row carry no logic
        if not any(s[0] not in ("blank", "audit", "end_group", "end_repeat") for s in rows):
            continue
        for variant in range(2 if tier == "quick" else 3):
            k = json.dumps([rows, variant])
            if k in seen:
                continue
            seen.add(k)
            # odd variants: one question inside a repeat shares its name with a question outside every repeat
            wb, src = logicgen.build(rows, seed=seed * 10 + variant, mode=mode, homonyms=variant % 2 == 1)
            fmt = "md" if i % 13 == 0 else "dict"
            res.append({"wb": wb, "src": src, "fmt": fmt, "shapes": [rows, variant], "seed": seed, "feat": [mode], "tag": {"rows": rows, "variant": variant},
                        # every third C10 form is also built in two parts through the builder's include mechanism
                        "sectioned": (i + variant if mode == "defaults" and i % 3 == 0 else None)})
    return res, meta


def _diagnose(o, clause):
    """Name the one known way a valid form is refused: the target of a trigger is looked up by bare name."""
    import re

    if clause != "valid_form_accepted" or o["res"]["status"] != "pyxform_error":
        return ""
    m = re.search(r"replace \$\{([^}]*)\} with the XPath to the survey element named '([^']*)'. There are multiple", o["res"].get("message") or "")
    if not m:
        return ""
    name = m.group(2)
    sv = o["wb"]["sheets"][0]
    written = any(isinstance(c, str) and "${" + name + "}" in c for r in sv["rows"] for c in r)
    is_target = any(t[0][-1] == name for t in o["trace"][-1]["src"].get("triggers", []))
    return ":trigger_target_name_not_unique" if is_target and not written else ""


def run(rep, prop, mode, canary_fn):
    _rp.mc(rep, rep.tier)
    js, meta = jobs(rep.tier, rep.seed, mode)
    rep.bounds["generation"] = meta
    outs = corpus.run_forms(js)
    sub, acc, rejected = _rp.validate(rep, prop, outs, f"TLC-structured {mode} forms")
    nok = sum(1 for o in sub if o["res"]["status"] != "pyxform_error")  # only rejections by the converter mean the generator left the grammar; crashes and malformed output go to TLC as violations
    rep.extra["accepted_forms"] = nok
    for o, l, clause in rejected:
        clause = clause + _diagnose(o, clause)
        rep.violation(f"{prop}:{clause}", f"trace rejected at event {l} clause {clause}; rows={o['tag']['rows']} status={o['res']['status']} {o['res'].get('message')}",
                      {"tag": o["tag"], "clause": clause, "event": l, "wb": o["wb"], "src": o["trace"][-1]["src"], "fmt": o["fmt"]})
    for o in sub[50:52]:
        rep.sample({"rows": o["tag"]["rows"], "survey": o["wb"]["sheets"][0], "src_facts": o["trace"][-1]["src"]})
    cans = canary_fn(sub, acc)
    a, info = tlc.validate_traces(_rp.TRACE_MOD, _rp.TRACE_CFG, [c[1] for c in cans[:-1]] + [cans[-1][1]], shards=1, env={"PROP": prop}, tag="canary")
    wrongly = [cans[i][0] for i in a if i < len(cans) - 1]
    if wrongly or (len(cans) - 1) not in a:
        raise tlc.MachineryError(f"canary failure: accepted {wrongly}; control accepted={(len(cans) - 1) in a}")
    rep.extra["canaries_rejected"] = [c[0] for c in cans[:-1]]


def replay(rep, prop, case):
    c = case["case"]
    outs = corpus.run_forms([{"wb": c["wb"], "src": c["src"], "fmt": c.get("fmt", "dict"), "shapes": ["replay"], "tag": c.get("tag")}])
    sub, acc, rejected = _rp.validate(rep, prop, outs, "replay")
    for o, l, clause in rejected:
        rep.violation(f"{prop}:{clause}", f"trace rejected at event {l} clause {clause}", c)
    rep.sample({"tag": c.get("tag")})
