"""InstanceExpr.tla bound to find_boundaries() and to the converter: instance() expressions inside label text.

C06: the text around the expressions stays text, each expression is one <output/> holding exactly its own text;
C03: a ${name} inside a predicate becomes the path of the question; C17: no token sequence makes the machine or the conversion crash."""

import copy

INVS = ["TranscriptionMeetsEnvelope", "BoundsWellFormed"]


def _gcfg(n, wild):
    from harness import corpus

    inv = "".join(f"INVARIANT {i}\n" for i in INVS)
    return corpus._cfg(f"Gen_InstanceExpr_{n}_{int(wild)}.cfg",
                       f"SPECIFICATION IESpec\nCONSTANT MaxTokens = {n}\nCONSTANT Wild = {'TRUE' if wild else 'FALSE'}\n{inv}CONSTRAINT Emit\nCHECK_DEADLOCK FALSE\n")


def _tcfg():
    from harness import corpus

    return corpus._cfg("Trace_InstanceExpr.cfg", "SPECIFICATION TSpec\nCONSTANT MaxTokens = 0\nCONSTANT Wild = TRUE\nCONSTRAINT TAccepted\nCHECK_DEADLOCK FALSE\n")


def run(rep, prop):
    from harness import conv, instexprgen, tlc

    nt = 9 if rep.tier == "quick" else 10
    cases = []
    if prop in ("C06", "C03"):
        tame, r1 = tlc.generate("Gen_InstanceExpr", _gcfg(nt, False), tag="genie", timeout=2400)
        rep.add_mc(r1, f"Gen_InstanceExpr (by construction): every text of <= {nt} tokens built from plain tokens and whole instance() expressions with steps and "
                       "predicates (any token inside, incl. ${ref}, literals, calls); TranscriptionMeetsEnvelope (Bounds = spans), BoundsWellFormed")
        cases += tame
    if prop in ("C06", "C17"):
        wild, r2 = tlc.generate("Gen_InstanceExpr", _gcfg(4, True), tag="geniew", timeout=1500)
        rep.add_mc(r2, "Gen_InstanceExpr (any token sequence): every sequence of <= 4 of 13 token kinds; BoundsWellFormed")
        sim, _ = tlc.generate("Gen_InstanceExpr", _gcfg(10, True), tag="geniesim", simulate="num=%d" % (4000 if rep.tier == "quick" else 40000), depth=12,
                              seed=rep.seed + 11, timeout=1500)
        cases += wild + [c for c in sim if len(c["toks"]) > 4]
    seen = set()
    jobs = []
    for c in cases:
        k = (tuple(c["toks"]), c["wild"])
        if k not in seen:
            seen.add(k)
            jobs.append({"toks": c["toks"], "spans": c["spans"], "wild": c["wild"]})
    rep.bounds["instance_expressions"] = {"max_tokens_by_construction": nt, "texts": len(jobs), "with_expressions": sum(1 for j in jobs if j["spans"]),
                                          "any_sequence": sum(1 for j in jobs if j["wild"])}
    outs = conv.map_cases(instexprgen.run, jobs, chunksize=64)
    for o in outs:
        if o.get("status") == "harness_error":
            raise tlc.MachineryError(o["message"] + "\n" + o.get("tb", ""))
    acc, info = tlc.validate_traces("Trace_InstanceExpr", _tcfg(), [o["trace"] for o in outs], shards=8, env={"PROP": prop}, tag="trie", timeout=1500)
    rep.traces_validated += len(acc)
    rep.extra.setdefault("trace_runs", []).append({"source": "InstanceExpr token sequences through find_boundaries() and as the label of a note in a converted form",
                                                   "traces": len(outs), "accepted": len(acc), "drift_from_transcription": len(info["drift"]), "wall_s": round(info["wall"], 1)})
    if info["drift"]:
        rep.drift.append(f"{len(info['drift'])} token sequences get other boundaries than InstanceExpr!Bounds")
    for i, o in enumerate(outs):
        rep.case({"instexpr": o["text"]})
        if i in acc:
            continue
        l, clause = info["progress"].get(i, (0, "unexplained_event"))
        rep.violation(f"{prop}:instexpr:{clause}", f"clause {clause}; label text {o['text']!r} expected spans {o['job']['spans']} real={o['trace'][0]['real']}"[:600],
                      {"instexpr": True, "job": o["job"], "clause": clause})
    _canaries(rep, prop, outs, acc)


def _canaries(rep, prop, outs, acc):
    from harness import tlc

    def first(pred):
        return next((o for i, o in enumerate(outs) if i in acc and pred(o["trace"][0])), None)

    cans = []

    def add(name, base, fn):
        if base is None:
            if rep.violations:
                return
            raise tlc.MachineryError(f"instexpr: no accepted execution for canary {name}")
        t = copy.deepcopy(base["trace"])
        fn(t[0])
        cans.append((name, t))

    tame = first(lambda e: not e["wild"] and e["spans"] and e["real"]["texts"][0])
    ref = first(lambda e: not e["wild"] and "ref" in e["toks"])
    anyt = first(lambda e: True)
    if prop == "C06":
        add("text_piece_changed", tame, lambda e: e["real"]["texts"].__setitem__(0, e["real"]["texts"][0] + "x"))
        add("expression_cut_short", tame, lambda e: e["real"]["outs"].__setitem__(0, e["real"]["outs"][0][:-1]))
        add("boundary_moved", tame, lambda e: e["real"]["bounds"][0].__setitem__(1, e["real"]["bounds"][0][1] - 1))
    if prop == "C03":
        add("reference_left_unresolved", ref, lambda e: e["real"].update(outs=[o.replace(" /data/q0 ", "${q0}") for o in e["real"]["outs"]]))
    if prop == "C17":
        add("boundary_machine_crash", anyt, lambda e: e["real"].update(status="crash:AttributeError"))
        add("conversion_crash", anyt, lambda e: e["real"].update(conv="crash:ExpatError"))
    if not cans:
        return
    a, _ = tlc.validate_traces("Trace_InstanceExpr", _tcfg(), [c[1] for c in cans] + [anyt["trace"]], shards=1, env={"PROP": prop}, tag="canaryie")
    if any(i in a for i in range(len(cans))) or len(cans) not in a:
        raise tlc.MachineryError(f"instexpr canary failure ({prop}): accepted {[cans[i][0] for i in a if i < len(cans)]}, control accepted: {len(cans) in a}")
    rep.extra.setdefault("canaries_rejected", []).extend(c[0] for c in cans)


def replay(rep, prop, c):
    from harness import instexprgen, tlc

    o = instexprgen.run(c["job"])
    acc, info = tlc.validate_traces("Trace_InstanceExpr", _tcfg(), [o["trace"]], shards=1, env={"PROP": prop}, tag="replay")
    rep.traces_validated += len(acc)
    rep.case({"instexpr": o["text"]})
    if 0 not in acc:
        clause = info["progress"].get(0, (0, "?"))[1]
        rep.violation(f"{prop}:instexpr:{clause}", f"replay: clause {clause}; real={o['trace'][0]['real']}"[:500], c)
