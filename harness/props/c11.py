"""C11 - settings reach the form header verbatim."""

from __future__ import annotations

import copy
import os
import shutil
import tempfile

from harness import conv, corpus, tlc

PROP = "C11"
TRACE_CFG = "SPECIFICATION TSpec\nCONSTANT MaxOn = 0\nCONSTRAINT Accepted\nCHECK_DEADLOCK FALSE\n"


def _run(job):
    from harness import render, settingsgen

    wb, src = settingsgen.build(job["case"], job["seed"])
    fmt = job["fmt"]
    kwargs = {}
    if src["fname"]:
        kwargs["form_name"] = src["fname"]
    tmp = None
    try:
        if src["chan"] in ("path", "path_odd"):
            tmp = tempfile.mkdtemp(prefix="c11-", dir="/var/tmp")
            ext = {"md": ".md", "xlsx": ".xlsx", "csv": ".csv", "xls": ".xls"}[fmt]
            if src["chan"] == "path_odd":
                # a suffix that is no hint: the content is still recognised by trying each reader
                ext = {"md": ".txt", "xlsx": ".XLSX", "csv": "", "xls": ".Xls"}[fmt]
            p = os.path.join(tmp, src["stem"] + ext)
            data = {"md": render.to_md, "csv": render.to_csv, "xlsx": render.to_xlsx, "xls": render.to_xls}[fmt](wb)
            with open(p, "wb" if isinstance(data, bytes) else "w") as f:
                f.write(data)
            inp, kw = {"kind": "path", "data": p}, {}
        else:
            inp, kw = render.render(wb, fmt)
        kw.update(kwargs)
        res = conv.convert_case({"input": inp, "kwargs": kw, "events": False})
    finally:
        if tmp:
            shutil.rmtree(tmp, ignore_errors=True)
    ev = {"ev": "settings", "status": res["status"], "src": src,
          "obs": {"title": "", "root": "", "root_ns": "", "root_attrs": [], "has_submission": False, "submission": [], "body_class": "", "nsdecls": [], "instance_name": "", "has_instance_id": False}}
    if res["status"] == "ok":
        try:
            ev["obs"] = settingsgen.observe(res["xform"])
        except Exception as e:  # noqa: BLE001 - the returned text cannot be read as an XForm (no h:head / model / primary instance where they belong)
            ev["status"] = "output_is_not_an_xform:" + type(e).__name__
    return {"case": job["case"], "seed": job["seed"], "fmt": fmt, "wb": wb, "res": {k: v for k, v in res.items() if k not in ("events", "xform")}, "trace": [ev]}


def run(rep):
    rep.rule = ("TLC (Gen_Settings) enumerates every subset of the 17 settings with <= N present and every subset with <= N absent "
                "(N=3 quick / 4 thorough; invalid combinations excluded), x {path input with a file stem, path with an uninformative suffix (.XLSX/.txt/none), in-memory input} x "
                "{form_name argument, none} x {entities sheet, none}; the harness writes distinct atoms under random documented alias spellings, renders to md/xlsx/"
                "csv/xls/dict, converts, and TLC (Trace_Settings) checks the projected header against the mapping with its defaults.")
    rep.assumptions = ["defaults as documented: id <- form_id | file stem | 'data'; title <- form_title | id; root name <- settings name | form_name argument | 'data'",
                       "auto_send / auto_delete values are passed through verbatim"]
    n = 3 if rep.tier == "quick" else 4
    cfg = corpus._cfg("Gen_Settings.cfg", f"SPECIFICATION SSpec\nCONSTANT MaxOn = {n}\nCONSTRAINT Emit\nCHECK_DEADLOCK FALSE\n")
    cases, r = tlc.generate("Gen_Settings", cfg, tag="gensettings", timeout=900)
    rep.add_mc(r, f"Gen_Settings: subsets with <= {n} settings present / absent x channel x form_name")
    rep.exhaustive = True
    rep.bounds["subsets"] = {"N": n, "cases": len(cases)}
    jobs = []
    for i, c in enumerate(cases):
        if c["chan"] in ("path", "path_odd"):
            fmt = ["md", "xlsx", "csv", "xls"][i % 4]
        else:
            fmt = ["dict", "md", "dict", "xlsx", "dict", "csv"][i % 6]
        jobs.append({"case": c, "seed": rep.seed, "fmt": fmt})
    outs = conv.map_cases(_run, jobs, chunksize=16)
    for o in outs:
        if o.get("status") == "harness_error":
            raise tlc.MachineryError(o["message"] + "\n" + o.get("tb", ""))
    nok = sum(1 for o in outs if o["res"]["status"] != "pyxform_error")  # only rejections by the converter mean the generator left the grammar; crashes and malformed output go to TLC as violations
    rep.extra["forms_not_rejected_by_converter"] = nok
    cfg = corpus._cfg("Trace_Settings.cfg", TRACE_CFG)
    acc, info = tlc.validate_traces("Trace_Settings", cfg, [o["trace"] for o in outs], shards=8, tag="trc11")
    rep.traces_validated += len(acc)
    rep.extra.setdefault("trace_runs", []).append({"source": "TLC-generated settings subsets", "traces": len(outs), "accepted": len(acc), "tlc_states": info["distinct"], "wall_s": round(info["wall"], 1)})
    for i, o in enumerate(outs):
        rep.case({"case": o["case"], "fmt": o["fmt"]}, nontrivial=o["res"]["status"] == "ok")
        if i in acc:
            continue
        l, clause = info["progress"].get(i, (0, "unexplained_event"))
        rep.violation(f"{PROP}:{clause}", f"clause {clause}; case={o['case']} fmt={o['fmt']} status={o['res']['status']} {o['res'].get('message') or ''} obs={o['trace'][0]['obs']}"[:700],
                      {"case": o["case"], "seed": o["seed"], "fmt": o["fmt"], "clause": clause, "wb": o["wb"], "src": o["trace"][0]["src"], "obs": o["trace"][0]["obs"]})
    for o in outs[50:52]:
        rep.sample({"case": o["case"], "settings_sheet": o["wb"]["sheets"][-1], "obs": o["trace"][0]["obs"]})
    ok = [o for i, o in enumerate(outs) if i in acc]
    base = next(o for o in ok if {"auto_send", "auto_delete", "title", "id"} <= set(o["case"]["present"]))
    cans = []
    t = copy.deepcopy(base["trace"])
    sub = dict(map(tuple, t[0]["obs"]["submission"]))
    sub["orx:auto-send"], sub["orx:auto-delete"] = sub["orx:auto-delete"], sub["orx:auto-send"]
    t[0]["obs"]["submission"] = [list(x) for x in sub.items()]
    cans.append(("auto_send_delete_swapped", t))
    t = copy.deepcopy(base["trace"]); t[0]["obs"]["title"] = next(v for k, v in t[0]["obs"]["root_attrs"] if k == "id"); cans.append(("title_shows_id", t))
    t = copy.deepcopy(base["trace"]); t[0]["obs"]["root_attrs"] = [a for a in t[0]["obs"]["root_attrs"] if a[0] != "version"] + [["version", "other"]]; cans.append(("version_wrong", t))
    t = copy.deepcopy(base["trace"]); t[0]["obs"]["nsdecls"].append("zz=http://invented"); cans.append(("namespace_invented", t))
    b2 = next(o for o in ok if o["case"]["chan"] in ("path", "path_odd") and "id" not in o["case"]["present"])
    t = copy.deepcopy(b2["trace"]); t[0]["obs"]["root_attrs"] = [["id", "data"] if a[0] == "id" else a for a in t[0]["obs"]["root_attrs"]]; cans.append(("stem_fallback_ignored", t))
    a, _ = tlc.validate_traces("Trace_Settings", cfg, [c[1] for c in cans] + [base["trace"]], shards=1, tag="canary")
    wrongly = [cans[i][0] for i in a if i < len(cans)]
    if wrongly or len(cans) not in a:
        raise tlc.MachineryError(f"canary failure: accepted {wrongly}; control accepted={len(cans) in a}")
    rep.extra["canaries_rejected"] = [c[0] for c in cans]


def replay(rep, case):
    c = case["case"]
    o = _run({"case": c["case"], "seed": c.get("seed", 0), "fmt": c.get("fmt", "dict")})
    cfg = corpus._cfg("Trace_Settings.cfg", TRACE_CFG)
    acc, info = tlc.validate_traces("Trace_Settings", cfg, [o["trace"]], shards=1, tag="replay")
    rep.traces_validated += len(acc)
    rep.case(c)
    if 0 not in acc:
        l, clause = info["progress"].get(0, (0, "unexplained_event"))
        rep.violation(f"{PROP}:{clause}", f"clause {clause}", c)
    rep.sample({"case": c["case"]})
