"""C17 - broken forms are rejected with a located diagnosis; nothing ever crashes."""

from __future__ import annotations

import copy

from harness import corpus, tlc
from harness.props import _rp

PROP = "C17"


def _viol(rep, o, l, clause, extra=None):
    res = o["res"]
    if res["status"] == "crash":
        sig = f"{PROP}:crash:{res['errclass']}@{res['frame']}"
        what = f"internal exception {res['errclass']}: {res.get('message')} at {res['frame']}; case={o.get('tag') or o.get('shapes')}"
    else:
        sig = f"{PROP}:{clause}"
        what = f"trace rejected at event {l} clause {clause}; case={o.get('tag') or o.get('shapes')} status={res['status']} message={str(res.get('message'))[:200]}"
    rep.violation(sig, what, {"shapes": o.get("shapes"), "seed": o.get("seed"), "feat": o.get("feat"), "fmt": o.get("fmt"), "wb": o["wb"],
                              "clause": clause, "event": l, "status": res["status"], "message": res.get("message"), **(extra or {})})


def part_rowparser(rep):
    """(a) every row sequence <= N over the alphabet that includes every row-level / tree-level error shape."""
    n = 2 if rep.tier == "quick" else 3
    cases, r = corpus.gen_shapes("all", n, timeout=1200)
    lim = 9000 if rep.tier == "quick" else 80000
    sel = corpus.pick(cases, lim, rep.seed)
    extra = []
    if rep.tier == "quick":
        c3, _ = corpus.gen_shapes("all", 3, simulate="num=4000", depth=6, seed=rep.seed + 3, timeout=600)
        extra = [c for c in c3 if len(c["rows"]) == 3]
    else:
        c4, _ = corpus.gen_shapes("all", 5, simulate="num=40000", depth=8, seed=rep.seed + 3, timeout=900)
        extra = [c for c in c4 if len(c["rows"]) >= 4]
    rep.bounds["error_alphabet"] = {"N_exhaustive": n, "cases": len(cases), "replayed": len(sel), "simulated_deeper": len(extra),
                                    "states": r["distinct"], "predicted_error_kinds": sorted({c["kind"] for c in cases if c["status"] == "error"})}
    jobs = []
    seen = set()
    for i, c in enumerate(sel + extra):
        k = str(c["rows"])
        if k in seen:
            continue
        seen.add(k)
        fmt = "md" if i % 17 == 0 else ("xlsx" if i % 301 == 0 else "dict")
        jobs.append({"shapes": c["rows"], "seed": rep.seed, "feat": [], "fmt": fmt, "tag": {"predicted": [c["status"], c["kind"], c["row"]]}})
    outs = corpus.run_forms(jobs)
    sub, acc, rejected = _rp.validate(rep, PROP, outs, "TLC-generated row sequences over the error alphabet")
    kinds = {}
    for o in sub:
        if o["res"]["status"] == "pyxform_error":
            k = o["tag"]["predicted"][1] or "unpredicted"
            kinds[k] = kinds.get(k, 0) + 1
    rep.extra["rejections_by_predicted_kind"] = kinds
    for o, l, clause in rejected:
        _viol(rep, o, l, clause)
    for o in [x for x in sub if x["res"]["status"] == "pyxform_error"][:3]:
        rep.sample({"rows": o["shapes"], "predicted": o["tag"]["predicted"], "message": o["res"].get("message"), "cited": o["trace"][-1]["cited"], "mentions": o["trace"][-1]["mentions"]})
    return sub, acc


def _canaries(rep, sub, acc):
    cans = []
    base = next(o for i, o in enumerate(sub) if i in acc and o["res"]["status"] == "pyxform_error" and o["trace"][-1]["cited"]
                and o["tag"]["predicted"][1] in ("unmatched_end", "badname", "noname", "list_missing", "calc_missing", "notype"))
    t = copy.deepcopy(base["trace"])
    t[-1]["cited"] = [c + 1 for c in t[-1]["cited"]]
    cans.append(("cited_row_off_by_one", t))
    t = copy.deepcopy(base["trace"])
    t[-1]["cited"] = []
    cans.append(("row_citation_dropped", t))
    t = copy.deepcopy(base["trace"])
    t[-1]["status"] = "crash"
    cans.append(("internal_exception", t))
    t = copy.deepcopy(base["trace"])
    t[-1]["status"] = "ok"
    cans.append(("broken_form_accepted", t))
    b2 = next(o for i, o in enumerate(sub) if i in acc and o["res"]["status"] == "pyxform_error" and o["tag"]["predicted"][1] in ("dup_sibling", "nolabel", "unknown_type", "bad_ref", "unclosed"))
    t = copy.deepcopy(b2["trace"])
    t[-1]["mentions"] = []
    cans.append(("identifier_not_named", t))
    a, info = tlc.validate_traces(_rp.TRACE_MOD, _rp.TRACE_CFG, [c[1] for c in cans] + [base["trace"], b2["trace"]], shards=1, env={"PROP": PROP}, tag="canary")
    wrongly = [cans[i][0] for i in a if i < len(cans)]
    if wrongly or len(cans) not in a or len(cans) + 1 not in a:
        raise tlc.MachineryError(f"canary failure: accepted {wrongly}; controls accepted={[len(cans) in a, len(cans) + 1 in a]}")
    rep.extra["canaries_rejected"] = [c[0] for c in cans]


def run(rep):
    rep.rule = ("(a) TLC enumerates every row sequence of <= N rows over RowParser's alphabet extended with every row-level and "
                "tree-level error shape (no pruning); each is rendered and converted; TLC validates the execution stepwise and, at "
                "the end (PROP=C17): never an internal exception, predicted rejection happens, no XForm with an error, row-level "
                "errors cite the predicted spreadsheet row, tree-level errors name an identifier of a problem present.")
    rep.assumptions = ["'located' = [row : n] for errors raised by row-level checks, an identifier of the offending element otherwise (DESIGN 5a)"]
    _rp.mc(rep, rep.tier)
    sub, acc = part_rowparser(rep)
    _canaries(rep, sub, acc)
    part_catalogue(rep)
    part_fuzz(rep)
    # unknown question types: TypeCell.tla's near misses of the type-cell grammar must be refused
    from harness.props import _typecell

    _typecell.part(rep, PROP)
    # malformed ${references}: RefSyntax.tla's piece sequences in a text cell and in an expression cell
    from harness.props import _refsyntax

    _refsyntax.part(rep, PROP)
    # the per-type decision table of the parameters cell (TypeParams.tla), this property's clauses
    from harness.props import _typeparams

    _typeparams.run(rep, PROP)
    # the line machines of the two text containers (TextTables.tla), this property's clauses
    from harness.props import _texttables

    _texttables.run(rep, PROP)
    # instance() expressions inside label text (InstanceExpr.tla), this property's clauses
    from harness.props import _instexpr

    _instexpr.run(rep, PROP)


def replay(rep, case):
    c = case["case"]
    if c.get("instexpr"):
        from harness.props import _instexpr

        return _instexpr.replay(rep, PROP, c)
    if c.get("texttable"):
        from harness.props import _texttables

        return _texttables.replay(rep, PROP, c)
    if c.get("typeparams"):
        from harness.props import _typeparams

        return _typeparams.replay(rep, PROP, c)
    if c.get("refsyntax"):
        from harness.props import _refsyntax

        return _refsyntax.replay(rep, PROP, c)
    if c.get("typecell"):
        from harness.props import _typecell

        return _typecell.replay(rep, PROP, c)
    job = {"wb": c["wb"], "fmt": c.get("fmt") or "dict", "shapes": c.get("shapes"), "tag": c.get("tag")}
    outs = corpus.run_forms([job])
    sub, acc, rejected = _rp.validate(rep, PROP, outs, "replay")
    for o, l, clause in rejected:
        _viol(rep, o, l, clause)
    rep.sample({"shapes": c.get("shapes")})


# ---------------------------------------------------------------- (b) catalogue of breaking mutations
def _run_cat(job):
    from harness import catalogue as cat, conv, render
    import re

    c = job["case"]
    m = cat.base_wb(c["base"] - 1, c["blanks"])
    sheet_idx = (c["site"] - 1 + c["blanks"]) if cat_sheet(c) == "survey" else c["site"] - 1
    idents = cat.apply(c["mut"], m, max(sheet_idx, 0))
    if idents is None:
        return {"case": c, "applied": False}
    wb = cat.to_wb(m)
    fmt = job.get("fmt", "dict")
    try:
        inp, kw = render.render(wb, fmt)
    except Exception:  # noqa: BLE001 - a container format that cannot hold the mutated cell (e.g. a control character in xlsx): use the dict channel
        fmt = "dict"
        inp, kw = render.render(wb, fmt)
    res = conv.convert_case({"input": inp, "kwargs": kw, "events": False, "allow_malformed": True})
    msg = res.get("message") or ""
    low = msg.lower()
    end = {"ev": "end", "status": res["status"], "cited": sorted({int(x) for x in re.findall(r"\[row : (\d+)\]", msg)}),
           "ident_named": any(i.lower() in low for i in idents), "has_xform": bool(res.get("xform"))}
    trace = [{"ev": "case", "base": c["base"], "blanks": c["blanks"], "mut": c["mut"], "site": c["site"]}, end]
    return {"case": c, "applied": True, "wb": wb, "fmt": fmt, "res": res, "trace": trace, "idents": idents}


_CHOICE_MUTS = {"choice_noname", "dup_choice", "dup_choice_labelless", "dup_choice_first_labelless", "selm_choice_space", "selm_choice_space_list_used_before"}


def cat_sheet(c):
    return "choices" if c["mut"] in _CHOICE_MUTS else "survey"


def part_catalogue(rep):
    from harness import catalogue as cat, conv

    inv = "INVARIANT RowLocatorHasRow\nINVARIANT OnlyRejected\n"
    r = tlc.model_check("Catalogue", corpus._cfg("MC_Catalogue.cfg", "SPECIFICATION CSpec\nCHECK_DEADLOCK FALSE\n" + inv),
                        workers=4, required_actions=("Pick", "Reject"), tag="mccat")
    if r["violation"]:
        raise tlc.MachineryError(f"Catalogue invariant {r['violation']} violated")
    rep.add_mc(r, "Catalogue: all (base, blanks, mutation, site) cases; RowLocatorHasRow, OnlyRejected")
    cases, g = tlc.generate("Gen_Catalogue", corpus._cfg("Gen_Catalogue.cfg", "SPECIFICATION CSpec\nCONSTRAINT Emit\nCHECK_DEADLOCK FALSE\n"), tag="gencat")
    hdr = [c for c in cases if "bases" in c]
    cases = [c for c in cases if "mut" in c]
    if not hdr or hdr[0]["bases"] != [[k for k, _ in b] for b in cat.BASES] or hdr[0]["choices"] != [c[0] for c in cat.BASE_CHOICES]:
        raise tlc.MachineryError("Catalogue.tla base forms and harness/catalogue.py BASES disagree")
    muts = sorted({c["mut"] for c in cases})
    if rep.tier == "quick":
        cases = [c for c in cases if c["blanks"] in (0, 2)]
    # md cannot represent blank rows (they are layout there), so leading-blank cases go through dict / xlsx / xls
    jobs = [{"case": c, "fmt": ("md" if i % 7 == 3 and c["blanks"] == 0 else "xlsx" if i % 31 == 5 else "xls" if i % 31 == 9 else "dict")} for i, c in enumerate(cases)]
    outs = conv.map_cases(_run_cat, jobs)
    for o in outs:
        if o.get("status") == "harness_error":
            raise tlc.MachineryError(o["message"] + "\n" + o.get("tb", ""))
    sub = [o for o in outs if o["applied"]]
    acc, info = tlc.validate_traces("Trace_Catalogue", corpus._cfg("Trace_Catalogue.cfg", "SPECIFICATION TSpec\nCONSTRAINT Accepted\nCHECK_DEADLOCK FALSE\n"),
                                    [o["trace"] for o in sub], shards=4, tag="trcat")
    rep.traces_validated += len(acc)
    rep.bounds["catalogue"] = {"mutations": len(muts), "cases": len(cases), "applied": len(sub), "bases": len(cat.BASES), "leading_blanks": "0..2"}
    rep.extra.setdefault("trace_runs", []).append({"source": "catalogue mutations", "traces": len(sub), "accepted": len(acc), "tlc_states": info["distinct"], "wall_s": round(info["wall"], 1)})
    done = {o["case"]["mut"] for o in sub}
    if set(muts) - done:
        raise tlc.MachineryError(f"catalogue mutations never applied: {sorted(set(muts) - done)}")
    for i, o in enumerate(sub):
        rep.case({"cat": o["case"], "fmt": o["fmt"]})
        if i in acc:
            continue
        l, clause = info["progress"].get(i, (0, "unexplained_event"))
        res = o["res"]
        if res["status"] == "crash":
            sig = f"{PROP}:crash:{res['errclass']}@{res['frame']}"
        else:
            sig = f"{PROP}:catalogue:{o['case']['mut']}:{clause}"
        rep.violation(sig, f"mutation {o['case']} -> {res['status']}: {str(res.get('message'))[:240]} (clause {clause})",
                      {"cat": o["case"], "fmt": o["fmt"], "wb": o["wb"], "clause": clause, "status": res["status"], "message": res.get("message")})
    for o in sub[:2]:
        rep.sample({"case": o["case"], "message": o["res"].get("message"), "end_event": o["trace"][-1]})
    # canaries
    base = next(o for i, o in enumerate(sub) if i in acc and o["case"]["loc"] == "row")
    b2 = next(o for i, o in enumerate(sub) if i in acc and o["case"]["loc"] == "ident")
    cans = []
    t = copy.deepcopy(base["trace"]); t[1]["cited"] = [x + 1 for x in t[1]["cited"]]; cans.append(("cat_row_shifted", t))
    t = copy.deepcopy(base["trace"]); t[1]["status"] = "ok"; t[1]["has_xform"] = True; cans.append(("cat_mutation_accepted", t))
    t = copy.deepcopy(base["trace"]); t[1]["status"] = "crash"; cans.append(("cat_crash", t))
    t = copy.deepcopy(b2["trace"]); t[1]["ident_named"] = False; cans.append(("cat_ident_missing", t))
    t = copy.deepcopy(base["trace"]); t[0]["mut"] = "not_in_catalogue"; cans.append(("cat_unknown_mutation", t))
    a, _ = tlc.validate_traces("Trace_Catalogue", corpus._cfg("Trace_Catalogue.cfg", "SPECIFICATION TSpec\nCONSTRAINT Accepted\nCHECK_DEADLOCK FALSE\n"),
                               [c[1] for c in cans] + [base["trace"]], shards=1, tag="cancat")
    wrongly = [cans[i][0] for i in a if i < len(cans)]
    if wrongly or len(cans) not in a:
        raise tlc.MachineryError(f"catalogue canary failure: accepted {wrongly}")
    rep.extra.setdefault("canaries_rejected", []).extend(c[0] for c in cans)


# ---------------------------------------------------------------- (c) vocabulary fuzz: never an internal exception
def _run_fuzz(job):
    from harness import conv, fuzz, render

    wb = fuzz.workbook(job["seed"], job["idx"])
    fmt = job["fmt"]
    try:
        inp, kw = render.render(wb, fmt)
    except Exception as e:  # renderer limitation (e.g. illegal sheet title for openpyxl): fall back to dict
        fmt = "dict"
        inp, kw = render.render(wb, fmt)
    if job.get("kwargs"):
        kw.update(job["kwargs"])
    # whether a *result* is well-formed is C01's subject; here only the kind of outcome (result / library error / internal exception) matters
    res = conv.convert_case({"input": inp, "kwargs": kw, "events": False, "pass_warnings": job["idx"] % 2 == 0, "allow_malformed": True})
    cfg = {"lists": [], "formname": "data", "omitid": False, "iname": False, "entity": False, "entlabel": False}
    trace = [{"ev": "init", "cfg": cfg, "nwarn0": 0},
             {"ev": "end", "status": res["status"], "cited": [], "mentions": [], "has_xform": bool(res.get("xform")), "residual": 0, "outrefs": [],
              "obs": {"inst": [], "body": [], "binds": [], "actions": [], "setv": [], "root": ""}, "src": {"binds": [], "defaults": [], "triggers": []}}]
    return {"idx": job["idx"], "seed": job["seed"], "fmt": fmt, "wb": wb, "res": {k: v for k, v in res.items() if k not in ("xform", "events")}, "trace": trace}


def part_fuzz(rep):
    from harness import conv

    n = 6000 if rep.tier == "quick" else 120000
    jobs = []
    for i in range(n):
        fmt = "dict" if i % 5 else ("md" if i % 10 else "xlsx")
        kw = {"pretty_print": bool(i % 3 == 0)} if i % 4 == 0 else None
        jobs.append({"seed": rep.seed, "idx": i, "fmt": fmt, "kwargs": kw})
    outs = conv.map_cases(_run_fuzz, jobs, chunksize=32)
    for o in outs:
        if o.get("status") == "harness_error":
            raise tlc.MachineryError(o["message"] + "\n" + o.get("tb", ""))
    acc, info = tlc.validate_traces(_rp.TRACE_MOD, _rp.TRACE_CFG, [o["trace"] for o in outs], shards=8, env={"PROP": "C17fuzz"}, tag="trfuzz")
    rep.traces_validated += len(acc)
    st = {}
    for o in outs:
        st[o["res"]["status"]] = st.get(o["res"]["status"], 0) + 1
    rep.bounds["fuzz"] = {"forms": n, "outcomes": st}
    rep.extra.setdefault("trace_runs", []).append({"source": "vocabulary fuzz (never-crash clause only)", "traces": len(outs), "accepted": len(acc), "wall_s": round(info["wall"], 1)})
    degenerate = st.get("ok", 0) < n * 0.03 or st.get("pyxform_error", 0) < n * 0.3
    for i, o in enumerate(outs):
        rep.case({"fuzz": [o["seed"], o["idx"], o["fmt"]]})
        if i in acc:
            continue
        res = o["res"]
        sig = f"{PROP}:crash:{res.get('errclass')}@{res.get('frame')}" if res["status"] == "crash" else f"{PROP}:fuzz:{res['status']}"
        rep.violation(sig, f"fuzz form seed={o['seed']} idx={o['idx']} fmt={o['fmt']}: {res['status']} {res.get('errclass')}: {str(res.get('message'))[:200]} at {res.get('frame')}",
                      {"fuzz": True, "seed": o["seed"], "idx": o["idx"], "fmt": o["fmt"], "wb": o["wb"], "status": res["status"], "message": res.get("message")})
    if degenerate and not rep.violations:      # (with violations recorded, they are the verdict)
        raise tlc.MachineryError(f"fuzz profile degenerate: {st}")

