"""C08 - each language shows exactly the text written for it."""

import copy

from harness.props import _itext

PROP = "C08"


def _classify(o, clause):
    return f"{PROP}:{clause}"


def _canaries(ok):
    base = next(o for o in ok if len(o["trace"][0]["obs"]["langs"]) >= 2 and sum(1 for x in o["trace"][0]["obs"]["eff"] if x["mode"] == "itext") >= 2)
    cans = []
    t = copy.deepcopy(base["trace"])
    its = [x for x in t[0]["obs"]["eff"] if x["mode"] == "itext"]
    its[0]["vals"][0][1], its[0]["vals"][1][1] = its[0]["vals"][1][1], its[0]["vals"][0][1]
    if its[0]["vals"][0][1] == its[0]["vals"][1][1]:
        its[0]["vals"][0][1] = "someone else's text"
    cans.append(("languages_swapped", t))
    t = copy.deepcopy(base["trace"])
    its = [x for x in t[0]["obs"]["eff"] if x["mode"] == "itext"]
    its[0]["vals"], its[1]["vals"] = its[1]["vals"], its[0]["vals"]
    cans.append(("rows_swapped", t))
    t = copy.deepcopy(base["trace"]); t[0]["obs"]["langs"].append("Q"); cans.append(("language_invented", t))
    t = copy.deepcopy(base["trace"])
    its = [x for x in t[0]["obs"]["eff"] if x["mode"] == "itext"]
    its[0]["mode"] = "none"; its[0]["vals"] = []
    cans.append(("text_lost", t))
    cans.append(("control", base["trace"]))
    return cans


def run(rep):
    rep.rule = ("same TLC-generated translation matrices as C07 (every cell text unique); TLC (Trace_Itext, PROP=C08) checks that what a user "
                "of each language is shown for every (element, kind) - following the itext reference, or the inline text - is the cell "
                "written for that language (the unsuffixed cell for the default language), '-' where nothing was written (media absent), "
                "never another row's or language's text, and that the set of translations is exactly the languages mentioned.")
    rep.assumptions = ["projection of the effective text per (element, kind, language) by harness/itextgen.observe",
                       "inline (language-neutral) text is shown to every language; an unsuffixed and a ::default_language cell together: either may win"]
    _itext.run(rep, PROP, _canaries, _classify)


def replay(rep, case):
    _itext.replay(rep, PROP, case, _classify)
