"""Header-level part of C13 (Headers.tla): design checks by TLC, then every generated header / header row through the real code."""

from __future__ import annotations

import copy

from harness import conv, corpus, tlc

INVS = ("TranscriptionMeetsEnvelope", "SpellingInvariant", "DelimiterStylesAgree", "UnknownKept")
TRACE_CFG = "SPECIFICATION TSpec\nCONSTRAINT Accepted\nCHECK_DEADLOCK FALSE\n"


def part(rep, prop):
    thorough = rep.tier == "thorough"
    segs = 3 if thorough else 2
    cfg = corpus._cfg(f"Gen_Headers_{segs}.cfg", f"SPECIFICATION HSpec\nCONSTANT Wide = {'TRUE' if thorough else 'FALSE'}\nCONSTANT MaxSegs = {segs}\n"
                      + "".join(f"INVARIANT {i}\n" for i in INVS) + ("" if thorough else "CONSTRAINT Emit\n") + "CHECK_DEADLOCK FALSE\n")
    if thorough:
        # all headers of <= 3 words: the design checks exhaustively (16 workers), the conformance run on the 2-word set plus a simulated sample of 3-word headers
        r = tlc.model_check("Gen_Headers", cfg, workers=16, timeout=3000, tag="mchdr", heap="8g")
        if r["violation"]:
            raise tlc.MachineryError(f"Headers design check {r['violation']} violated on the model")
        rep.add_mc(r, "Gen_Headers: every header of <= 3 words (4 separators, 4 blank patterns): transcription meets envelope, spelling invariance, delimiter styles agree, unknown kept")
        cfg2 = corpus._cfg("Gen_Headers_2w.cfg", "SPECIFICATION HSpec\nCONSTANT Wide = TRUE\nCONSTANT MaxSegs = 2\nCONSTRAINT Emit\nCHECK_DEADLOCK FALSE\n")
        cases, _ = tlc.generate("Gen_Headers", cfg2, tag="genhdr", timeout=1500, heap="6g")
        cfg3 = corpus._cfg("Gen_Headers_3s.cfg", "SPECIFICATION HSpec\nCONSTANT Wide = TRUE\nCONSTANT MaxSegs = 3\nCONSTRAINT Emit\nCHECK_DEADLOCK FALSE\n")
        c3, _ = tlc.generate("Gen_Headers", cfg3, tag="genhdr3", simulate="num=60000", depth=6, seed=rep.seed + 11, timeout=1500)
        cases += [c for c in c3 if len(c["h"]["segs"]) == 3]
    else:
        cases, r = tlc.generate("Gen_Headers", cfg, tag="genhdr", timeout=900, heap="6g")
        rep.add_mc(r, "Gen_Headers: every header of <= 2 words: transcription meets envelope, spelling invariance, delimiter styles agree, unknown kept")
        cfg3 = corpus._cfg("Gen_Headers_3s.cfg", "SPECIFICATION HSpec\nCONSTANT Wide = FALSE\nCONSTANT MaxSegs = 3\nCONSTRAINT Emit\nCHECK_DEADLOCK FALSE\n")
        c3, _ = tlc.generate("Gen_Headers", cfg3, tag="genhdr3", simulate="num=4000", depth=6, seed=rep.seed + 11, timeout=600)
        cases += [c for c in c3 if len(c["h"]["segs"]) == 3]
    cases = [c for c in cases if c["udc"] or not any(s in ("::", " :: ") for s in c["h"]["seps"])]   # the sheet flag is at least what the header implies
    from harness import headergen

    houts = conv.map_cases(headergen.run_header, cases, chunksize=256)
    scfg = corpus._cfg("Gen_HeaderSheets.cfg", f"SPECIFICATION SSpec\nCONSTANT MaxCols = {3 if thorough else 2}\nINVARIANT FamilyInDomain\nCONSTRAINT Emit\nCHECK_DEADLOCK FALSE\n")
    scases, r2 = tlc.generate("Gen_HeaderSheets", scfg, tag="genhsheets", timeout=900)
    rep.add_mc(r2, "Gen_HeaderSheets: every ordered selection of distinct overlapping headers, both delimiter styles")
    if not thorough:
        c3, _ = tlc.generate("Gen_HeaderSheets", corpus._cfg("Gen_HeaderSheets3.cfg", "SPECIFICATION SSpec\nCONSTANT MaxCols = 3\nCONSTRAINT Emit\nCHECK_DEADLOCK FALSE\n"),
                             tag="genhsheets3", simulate="num=1500", depth=6, seed=rep.seed + 13, timeout=600)
        scases += [c for c in c3 if len(c["cols"]) == 3]
    souts = conv.map_cases(headergen.run_sheet, scases, chunksize=128)
    outs = houts + souts
    for o in outs:
        if o.get("status") == "harness_error":
            raise tlc.MachineryError(o["message"] + "\n" + o.get("tb", ""))
    rep.bounds["headers"] = {"single_headers": len(houts), "header_rows": len(souts), "max_words": segs}
    tcfg = corpus._cfg("Trace_Headers.cfg", TRACE_CFG)
    acc, info = tlc.validate_traces("Trace_Headers", tcfg, [o["trace"] for o in outs], shards=12, tag="trhdr", timeout=1500)
    rep.traces_validated += len(acc)
    rep.extra.setdefault("trace_runs", []).append({"source": "headers and header rows through the real process_header / dealias_and_group_headers", "traces": len(outs),
                                                   "accepted": len(acc), "drift_from_transcription": len(info.get("drift", [])), "wall_s": round(info["wall"], 1)})
    for i, o in enumerate(outs):
        ev = o["trace"][0]
        rep.case({"header": o["text"], "sheet": ev["sheet"], "udc": ev["udc"]} if ev["ev"] == "header" else {"header_row": o["texts"]})
        if i in acc:
            continue
        l, clause = info["progress"].get(i, (0, "unexplained_event"))
        what = o.get("text") if ev["ev"] == "header" else o.get("texts")
        rep.violation(f"{prop}:headers:{clause}", f"clause {clause}; {ev['ev']} {what!r} sheet={ev.get('sheet', 'survey')} udc={ev.get('udc')} real={ev['real']}"[:600],
                      {"headers": True, "job": o["job"], "kind": ev["ev"], "clause": clause})
    for o in (houts[500:501] + souts[100:101]):
        rep.sample({"header_case": o.get("text") or o.get("texts"), "real": o["trace"][0]["real"]})
    # canaries
    okh = [o for i, o in enumerate(outs) if i in acc and o["trace"][0]["ev"] == "header" and len(o["trace"][0]["real"]["tokens"]) >= 2 and o["trace"][0]["udc"]]
    oks = [o for i, o in enumerate(outs) if i in acc and o["trace"][0]["ev"] == "sheet" and o["trace"][0]["real"]["status"] == "ok" and len(o["trace"][0]["real"]["leaves"]) >= 2]
    dup = [o for i, o in enumerate(outs) if i in acc and o["trace"][0]["ev"] == "sheet" and o["trace"][0]["real"]["status"] == "duplicate"]
    if not okh or not oks or not dup:
        if rep.violations:
            return
        raise tlc.MachineryError("headers: no accepted execution to corrupt for the self-test")
    cans = []
    t = copy.deepcopy(okh[0]["trace"]); t[0]["real"]["tokens"][-1] += "x"; cans.append(("language_token_altered", t))
    t = copy.deepcopy(okh[0]["trace"]); t[0]["real"]["status"] = "crash:IndexError"; cans.append(("header_crash", t))
    t = copy.deepcopy(oks[0]["trace"]); t[0]["real"]["leaves"] = t[0]["real"]["leaves"][:-1]; cans.append(("cell_lost_in_grouping", t))
    t = copy.deepcopy(dup[0]["trace"]); t[0]["real"]["status"] = "ok"; cans.append(("duplicate_column_accepted", t))
    a, _ = tlc.validate_traces("Trace_Headers", tcfg, [c[1] for c in cans] + [okh[0]["trace"]], shards=1, tag="canary")
    wrongly = [cans[i][0] for i in a if i < len(cans)]
    if wrongly or len(cans) not in a:
        raise tlc.MachineryError(f"headers canary failure: accepted {wrongly}; control accepted={len(cans) in a}")
    rep.extra.setdefault("canaries_rejected", []).extend(c[0] for c in cans)


def replay(rep, prop, c):
    from harness import headergen

    o = headergen.run_header(c["job"]) if c["kind"] == "header" else headergen.run_sheet(c["job"])
    acc, info = tlc.validate_traces("Trace_Headers", corpus._cfg("Trace_Headers.cfg", TRACE_CFG), [o["trace"]], shards=1, tag="replay")
    rep.traces_validated += len(acc)
    rep.case(c["job"])
    if 0 not in acc:
        rep.violation(f"{prop}:headers:{info['progress'].get(0, (0, '?'))[1]}", "replay", c)
