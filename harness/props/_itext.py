"""Shared driver for C07 (itext closure) and C08 (per-language content)."""

from __future__ import annotations

import copy

from harness import conv, corpus, tlc

TRACE_CFG = "SPECIFICATION TSpec\nCONSTANT MaxChanges = 0\nCONSTANT Core = TRUE\nCONSTRAINT Accepted\nCHECK_DEADLOCK FALSE\n"


def _run(job):
    from harness import itextgen, render

    wb, src, kwargs = itextgen.build(job["case"], job["seed"])
    fmt = job.get("fmt", "dict")
    inp, kw = render.render(wb, fmt)
    kw.update(kwargs)
    res = conv.convert_case({"input": inp, "kwargs": kw, "events": False})
    ev = {"ev": "itext", "status": res["status"], "src": src,
          "obs": {"present": False, "langs": [], "defaults": [], "dup_ids": [], "ids": [], "refs": [], "eff": []}}
    if res["status"] == "ok":
        ev["obs"] = itextgen.observe(res["xform"], src)
    return {"case": job["case"], "seed": job["seed"], "fmt": fmt, "wb": wb, "kwargs": kwargs,
            "res": {k: v for k, v in res.items() if k not in ("events", "xform")}, "trace": [ev]}


def _run_free(job):
    """any workbook -> the source-free itext facts of its XForm (PROP=C07free)"""
    from harness import itextgen, render

    inp, kw = render.render(job["wb"], job.get("fmt", "dict"))
    kw.update(job.get("kwargs") or {})
    res = conv.convert_case({"input": inp, "kwargs": kw, "events": False})
    ev = {"ev": "itext", "status": res["status"], "src": {"dl": "", "cells": []},
          "obs": {"present": False, "langs": [], "defaults": [], "dup_ids": [], "ids": [], "refs": [], "eff": []}}
    if res["status"] == "ok":
        ev["obs"] = itextgen.observe_free(res["xform"])
    return {"tag": job["tag"], "fmt": job.get("fmt", "dict"), "wb": job["wb"], "kwargs": job.get("kwargs"), "res": {k: v for k, v in res.items() if k not in ("events", "xform")}, "trace": [ev]}


def foreign_forms(rep, prop):
    """Forms this property's own generator does not produce: the frozen test-suite corpus, TLC row structures decorated with every feature,
    every pair of JSON-IR features, choice configurations with translated lists.  Judged by the closure clauses that need no source."""
    from harness import choicegen, formgen, jsongen, suitecorpus

    jobs = [{"wb": j["wb"], "fmt": "dict", "kwargs": j.get("kwargs"), "tag": j["tag"]} for j in suitecorpus.doc_jobs(())]
    shapes, _ = corpus.gen_shapes("ok", 3)
    for i, c in enumerate(corpus.pick(shapes, 600 if rep.tier == "quick" else 6000, rep.seed)):
        f = formgen.decorate(c["rows"], seed=rep.seed + i, feat=corpus.ALL_FEAT)
        jobs.append({"wb": f.wb(), "fmt": "dict" if i % 5 else "md", "tag": {"shapes": c["rows"], "decorated": i}})
    feats = sorted(jsongen.ALL_FEATURES)
    for i, a in enumerate(feats):
        for b in feats[i:]:
            jobs.append({"wb": jsongen.build(sorted({a, b})), "fmt": "dict", "tag": {"features": sorted({a, b})}})
    # an OSM question whose tags carry translated labels (the osm sheet is a choices-like sheet)
    jobs.append({"wb": {"sheets": [{"name": "survey", "header": ["type", "name", "label::en", "label::fr"], "rows": [["osm building_tags", "q1", "Q en", "Q fr"]]},
                                   {"name": "osm", "header": ["list_name", "name", "label::en", "label::fr"], "rows": [["building_tags", "building", "Building", "Batiment"], ["building_tags", "roof", "Roof", None]]}]},
                 "fmt": "dict", "tag": {"osm_tag_labels": "translated"}})
    outs = conv.map_cases(_run_free, jobs, chunksize=16)
    for o in outs:
        if o.get("status") == "harness_error":
            raise tlc.MachineryError(o["message"] + "\n" + o.get("tb", ""))
    sub = [o for o in outs if o["res"]["status"] == "ok"]
    cfg = corpus._cfg("Trace_Itext.cfg", TRACE_CFG)
    acc, info = tlc.validate_traces("Trace_Itext", cfg, [o["trace"] for o in sub], shards=8, env={"PROP": prop + "free"}, tag=f"tr{prop}free")
    rep.traces_validated += len(acc)
    rep.extra.setdefault("trace_runs", []).append({"source": "forms of other generators and the frozen test-suite corpus (source-free closure clauses)", "forms": len(outs),
                                                   "traces": len(sub), "accepted": len(acc), "with_itext": sum(1 for o in sub if o["trace"][0]["obs"]["present"]), "wall_s": round(info["wall"], 1)})
    for i, o in enumerate(sub):
        rep.case({"foreign": o["tag"]}, nontrivial=o["trace"][0]["obs"]["present"])
        if i in acc:
            continue
        l, clause = info["progress"].get(i, (0, "unexplained_event"))
        kind = "osm_tag_labels" if "osm_tag_labels" in (o["tag"] or {}) else "foreign"
        rep.violation(f"{prop}:{clause}:{kind}", f"clause {clause}; form={o['tag']} obs_langs={o['trace'][0]['obs']['langs']} refs={o['trace'][0]['obs']['refs'][:6]}"[:500],
                      {"foreign": True, "tag": o["tag"], "fmt": o["fmt"], "wb": o["wb"], "kwargs": o["kwargs"], "clause": clause})


def generate(rep):
    tier = rep.tier
    plans = [("core", True, 2, None)] if tier == "quick" else [("core", True, 3, 60000), ("all", False, 2, None)]
    cases = []
    for name, core, maxc, lim in plans:
        cfg = corpus._cfg(f"Gen_Itext_{name}.cfg", f"SPECIFICATION ISpec\nCONSTANT MaxChanges = {maxc}\nCONSTANT Core = {'TRUE' if core else 'FALSE'}\n"
                          "CONSTRAINT Emit\nINVARIANT QuestionsLabelled\nCHECK_DEADLOCK FALSE\n")
        cs, r = tlc.generate("Gen_Itext", cfg, tag="genitext", timeout=1500, heap="6g")
        rep.add_mc(r, f"Gen_Itext {name}: every matrix with <= {maxc} departures from the base matrix x default language in {{unset, A, B, Z}}")
        rep.bounds[f"matrices_{name}"] = {"max_changes": maxc, "pairs": 16 if core else 34, "cases": len(cs)}
        cases += corpus.pick(cs, lim, rep.seed) if lim else cs
    if tier == "quick":
        # deeper and wider by simulation (all 30 pairs, up to 4 departures)
        cfg = corpus._cfg("Gen_Itext_sim.cfg", "SPECIFICATION ISpec\nCONSTANT MaxChanges = 4\nCONSTANT Core = FALSE\nCONSTRAINT Emit\nCHECK_DEADLOCK FALSE\n")
        cs, r = tlc.generate("Gen_Itext", cfg, tag="genitextsim", simulate="num=1500", depth=6, seed=rep.seed + 11)
        cases += [c for c in cs if c["nchg"] >= 2]
        lim = 9000
        cases = corpus.pick(cases, lim, rep.seed)
    else:
        cfg = corpus._cfg("Gen_Itext_sim.cfg", "SPECIFICATION ISpec\nCONSTANT MaxChanges = 6\nCONSTANT Core = FALSE\nCONSTRAINT Emit\nCHECK_DEADLOCK FALSE\n")
        cs, r = tlc.generate("Gen_Itext", cfg, tag="genitextsim", simulate="num=20000", depth=8, seed=rep.seed + 11, timeout=1500)
        cases += [c for c in cs if c["nchg"] >= 3]
    seen = set()
    jobs = []
    for i, c in enumerate(cases):
        c = {"dl": c["dl"], "refs": bool(c.get("refs")), "cells": sorted(c["cells"]), "nchg": c["nchg"]}
        k = str(c)
        if k in seen:
            continue
        seen.add(k)
        jobs.append({"case": c, "seed": rep.seed, "fmt": "md" if i % 9 == 0 else ("xlsx" if i % 211 == 0 else "dict")})
    return jobs


def run(rep, prop, canary_fn, classify):
    jobs = generate(rep)
    outs = conv.map_cases(_run, jobs, chunksize=16)
    for o in outs:
        if o.get("status") == "harness_error":
            raise tlc.MachineryError(o["message"] + "\n" + o.get("tb", ""))
    nok = sum(1 for o in outs if o["res"]["status"] != "pyxform_error")  # only rejections by the converter mean the generator left the grammar; crashes and malformed output go to TLC as violations
    rep.extra["forms_not_rejected_by_converter"] = nok
    cfg = corpus._cfg("Trace_Itext.cfg", TRACE_CFG)
    acc, info = tlc.validate_traces("Trace_Itext", cfg, [o["trace"] for o in outs], shards=12, env={"PROP": prop}, tag=f"tr{prop}")
    rep.traces_validated += len(acc)
    rep.extra.setdefault("trace_runs", []).append({"source": "TLC-generated translation matrices", "traces": len(outs), "accepted": len(acc),
                                                   "tlc_states": info["distinct"], "wall_s": round(info["wall"], 1)})
    for i, o in enumerate(outs):
        rep.case({"case": o["case"], "fmt": o["fmt"]}, nontrivial=o["res"]["status"] == "ok" and o["case"]["nchg"] > 0)
        if i in acc:
            continue
        l, clause = info["progress"].get(i, (0, "unexplained_event"))
        sig = classify(o, clause)
        rep.violation(sig, f"clause {clause}; matrix={o['case']} status={o['res']['status']} {o['res'].get('message') or ''}"[:500],
                      {"case": o["case"], "seed": o["seed"], "fmt": o["fmt"], "clause": clause, "wb": o["wb"], "obs": o["trace"][0]["obs"]})
    for o in outs[100:102]:
        rep.sample({"matrix": o["case"], "obs_langs": o["trace"][0]["obs"]["langs"], "eff": o["trace"][0]["obs"]["eff"][:4]})
    if prop == "C07":
        foreign_forms(rep, prop)
    ok = [o for i, o in enumerate(outs) if i in acc]
    cans = canary_fn(ok)
    a, _ = tlc.validate_traces("Trace_Itext", cfg, [c[1] for c in cans[:-1]] + [cans[-1][1]], shards=1, env={"PROP": prop}, tag="canary")
    wrongly = [cans[i][0] for i in a if i < len(cans) - 1]
    if wrongly or (len(cans) - 1) not in a:
        raise tlc.MachineryError(f"canary failure: accepted {wrongly}; control accepted={(len(cans) - 1) in a}")
    rep.extra["canaries_rejected"] = [c[0] for c in cans[:-1]]


def replay(rep, prop, case, classify):
    c = case["case"]
    if c.get("foreign"):
        o = _run_free({"wb": c["wb"], "fmt": c.get("fmt", "dict"), "kwargs": c.get("kwargs"), "tag": c.get("tag")})
        acc, info = tlc.validate_traces("Trace_Itext", corpus._cfg("Trace_Itext.cfg", TRACE_CFG), [o["trace"]], shards=1, env={"PROP": prop + "free"}, tag="replay")
        rep.traces_validated += len(acc)
        rep.case({"foreign": c.get("tag")})
        if 0 not in acc:
            rep.violation(f"{prop}:{info['progress'].get(0, (0, '?'))[1]}:foreign", "replay", c)
        return
    outs = [_run({"case": c["case"], "seed": c.get("seed", 0), "fmt": c.get("fmt", "dict")})]
    cfg = corpus._cfg("Trace_Itext.cfg", TRACE_CFG)
    acc, info = tlc.validate_traces("Trace_Itext", cfg, [o["trace"] for o in outs], shards=1, env={"PROP": prop}, tag="replay")
    rep.traces_validated += len(acc)
    rep.case(c["case"])
    if 0 not in acc:
        l, clause = info["progress"].get(0, (0, "unexplained_event"))
        rep.violation(classify(outs[0], clause), f"clause {clause}", c)
    rep.sample({"matrix": c["case"]})
