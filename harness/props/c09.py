"""C09 - choice lists survive intact and selects are wired to their own list."""

from __future__ import annotations

import copy

from harness import conv, corpus, tlc

PROP = "C09"
TRACE_CFG = "SPECIFICATION TSpec\nCONSTANT MaxSel = 0\nCONSTANT Wide = FALSE\nCONSTRAINT Accepted\nCHECK_DEADLOCK FALSE\n"


def _run(job):
    from harness import choicegen, render

    wb, src = choicegen.build(job["cfg"], job["sels"], job.get("seed", 0))
    fmt = job.get("fmt", "dict")
    inp, kw = render.render(wb, fmt)
    res = conv.convert_case({"input": inp, "kwargs": kw, "events": False})
    ev = {"ev": "choices", "status": res["status"], "src": src, "obs": {"instances": [], "selects": [], "others": [], "csv": []}}
    if res["status"] == "ok":
        ev["obs"] = choicegen.observe(res["xform"], res.get("itemsets"), src)
    return {"cfg": job["cfg"], "sels": job["sels"], "fmt": fmt, "wb": wb, "res": {k: v for k, v in res.items() if k not in ("events", "xform")}, "trace": [ev]}


def _classify(o, clause):
    if clause == "itemsets_csv_cell_for_cell":
        ev = o["trace"][0]
        if len(ev["obs"]["csv"]) == len(ev["src"]["csv"]) and ev["obs"]["csv"][:1] == ev["src"]["csv"][:1] and \
                all(len(a) < len(b) and [c for c in b if c != ""] == a for a, b in zip(ev["obs"]["csv"], ev["src"]["csv"]) if a != b):
            return f"{PROP}:itemsets_csv_sparse_row_cells_shift_left"
    return f"{PROP}:{clause}"


def generate(rep):
    wide = rep.tier == "thorough"
    cfg = corpus._cfg("Gen_Choices.cfg", f"SPECIFICATION GSpec\nCONSTANT MaxSel = 2\nCONSTANT Wide = {'TRUE' if wide else 'FALSE'}\n"
                      "CONSTRAINT Emit\nINVARIANT SearchExclusive\nCHECK_DEADLOCK FALSE\n")
    if wide:
        cases, r = tlc.generate("Gen_Choices", cfg, tag="genchoices", simulate="num=150000", depth=6, seed=rep.seed + 5, timeout=1500, heap="6g")
        lim = 120000
    else:
        cases, r = tlc.generate("Gen_Choices", cfg, tag="genchoices", timeout=900, heap="6g")
        lim = 7000
    rep.add_mc(r, "Gen_Choices: choices-sheet shapes x select-variant sequences (<=2) x depth x external rows x external_choices shapes")
    sel = corpus.pick(cases, lim, rep.seed)
    cfg3 = corpus._cfg("Gen_Choices3.cfg", f"SPECIFICATION GSpec\nCONSTANT MaxSel = 4\nCONSTANT Wide = TRUE\nCONSTRAINT Emit\nCHECK_DEADLOCK FALSE\n")
    deep, r3 = tlc.generate("Gen_Choices", cfg3, tag="genchoices3", simulate=f"num={3000 if not wide else 40000}", depth=8, seed=rep.seed + 9, timeout=900)
    deep = [c for c in deep if len(c["sels"]) >= 3]
    rep.bounds["configurations"] = {"enumerated": len(cases), "replayed": len(sel), "simulated_3to4_selects": len(deep), "wide": wide}
    jobs, seen = [], set()
    for i, c in enumerate(sel + deep):
        k = str(c)
        if k in seen:
            continue
        seen.add(k)
        jobs.append({"cfg": c["cfg"], "sels": c["sels"], "seed": rep.seed, "fmt": "md" if i % 9 == 0 else ("xlsx" if i % 151 == 0 else "dict")})
    return jobs


def run(rep):
    rep.rule = ("TLC (Gen_Choices) enumerates choices-sheet shapes (list sizes, unused list, extra columns with sparsity patterns, interleaved rows, "
                "duplicate names, plain or dotted list names, plain or translated labels) x sequences of select variants (one/multiple/rank, or_other, filter, randomize +- literal/reference seed, from-file "
                "csv/xml/geojson with value/label, select_one_external, select from repeat, search()) x nesting depth x other external-data rows "
                "(xml-/csv-external, pulldata sharing a file, last-saved) x external_choices shapes; each is rendered and converted; TLC (Trace_Choices) "
                "checks the projected instances, itemsets, queries, inline items, companion nodes and the itemsets CSV against the source facts.")
    rep.assumptions = ["choicegen.build's bookkeeping of what it wrote; parsing of itemset/@nodeset into (instance, filter, randomize, seed)",
                       "select_one_external is an input with a query; its list has no in-form instance (the itemsets CSV carries it)"]
    jobs = generate(rep)
    outs = conv.map_cases(_run, jobs, chunksize=16)
    for o in outs:
        if o.get("status") == "harness_error":
            raise tlc.MachineryError(o["message"] + "\n" + o.get("tb", ""))
    nok = sum(1 for o in outs if o["res"]["status"] != "pyxform_error")  # only rejections by the converter mean the generator left the grammar; crashes and malformed output go to TLC as violations
    rep.extra["forms_not_rejected_by_converter"] = nok
    cfg = corpus._cfg("Trace_Choices.cfg", TRACE_CFG)
    acc, info = tlc.validate_traces("Trace_Choices", cfg, [o["trace"] for o in outs], shards=12, tag="trc09")
    rep.traces_validated += len(acc)
    rep.extra.setdefault("trace_runs", []).append({"source": "TLC-generated choice configurations", "traces": len(outs), "accepted": len(acc), "tlc_states": info["distinct"], "wall_s": round(info["wall"], 1)})
    for i, o in enumerate(outs):
        rep.case({"cfg": o["cfg"], "sels": o["sels"], "fmt": o["fmt"]}, nontrivial=o["res"]["status"] == "ok")
        if i in acc:
            continue
        l, clause = info["progress"].get(i, (0, "unexplained_event"))
        rep.violation(_classify(o, clause), f"clause {clause}; cfg={o['cfg']} sels={o['sels']} status={o['res']['status']} {o['res'].get('message') or ''}"[:500],
                      {"cfg": o["cfg"], "sels": o["sels"], "fmt": o["fmt"], "clause": clause, "wb": o["wb"], "src": o["trace"][0]["src"], "obs": o["trace"][0]["obs"]})
    for o in outs[200:202]:
        rep.sample({"cfg": o["cfg"], "sels": o["sels"], "obs_selects": o["trace"][0]["obs"]["selects"], "instances": [i["id"] for i in o["trace"][0]["obs"]["instances"]]})
    ok = [o for i, o in enumerate(outs) if i in acc]
    base = next(o for o in ok if len(o["trace"][0]["src"]["lists"]) >= 2 and o["trace"][0]["src"]["lists"][0]["items"][0]["extras"] and len(o["trace"][0]["src"]["lists"][0]["items"]) >= 2
                and o["trace"][0]["src"]["selects"][0]["kind"] == "itemset" and o["cfg"].get("style", "plain") == "plain")
    cans = []
    t = copy.deepcopy(base["trace"]); i0 = next(i for i in t[0]["obs"]["instances"] if i["id"] == "L"); i0["items"] = i0["items"][:-1]; cans.append(("last_choice_dropped", t))
    t = copy.deepcopy(base["trace"]); i0 = next(i for i in t[0]["obs"]["instances"] if i["id"] == "L"); i0["items"].reverse(); cans.append(("choices_reordered", t))
    t = copy.deepcopy(base["trace"]); t[0]["obs"]["selects"][0]["inst"] = "M" if t[0]["obs"]["selects"][0]["inst"] != "M" else "L"; cans.append(("select_wired_to_other_list", t))
    t = copy.deepcopy(base["trace"]); t[0]["obs"]["instances"].append(copy.deepcopy(t[0]["obs"]["instances"][0])); cans.append(("instance_declared_twice", t))
    t = copy.deepcopy(base["trace"]); i0 = next(i for i in t[0]["obs"]["instances"] if i["id"] == "L"); i0["items"][0] = [x for x in i0["items"][0] if x[0] in ("name", "label", "itextId")]; cans.append(("extra_column_lost", t))
    b2 = next((o for o in ok if o["trace"][0]["src"]["csv"]), None)
    if b2:
        t = copy.deepcopy(b2["trace"]); t[0]["obs"]["csv"][-1] = t[0]["obs"]["csv"][-1][:-1]; cans.append(("csv_cell_lost", t))
    a, _ = tlc.validate_traces("Trace_Choices", cfg, [c[1] for c in cans] + [base["trace"]], shards=1, tag="canary")
    wrongly = [cans[i][0] for i in a if i < len(cans)]
    if wrongly or len(cans) not in a:
        raise tlc.MachineryError(f"canary failure: accepted {wrongly}; control accepted={len(cans) in a}")
    rep.extra["canaries_rejected"] = [c[0] for c in cans]
    part_foreign(rep)
    # the per-type decision table of the parameters cell (TypeParams.tla), this property's clauses
    from harness.props import _typeparams

    _typeparams.run(rep, PROP)


def _run_free(job):
    from harness import choicegen, render

    inp, kw = render.render(job["wb"], "dict")
    kw.update(job.get("kwargs") or {})
    res = conv.convert_case({"input": inp, "kwargs": kw, "events": False})
    ev = {"ev": "choices_free", "status": res["status"], "obs": {"instances": [], "reads": []}, "src": {}}
    if res["status"] == "ok":
        ev["obs"] = choicegen.observe_free(res["xform"])
    return {"tag": job["tag"], "wb": job["wb"], "kwargs": job.get("kwargs"), "res": {k: v for k, v in res.items() if k not in ("events", "xform")}, "trace": [ev]}


def part_foreign(rep):
    """source-free clauses on forms this generator does not produce: the frozen test-suite corpus and decorated TLC structures"""
    from harness import formgen, suitecorpus

    jobs = [{"wb": j["wb"], "kwargs": j.get("kwargs"), "tag": j["tag"]} for j in suitecorpus.doc_jobs(())]
    shapes, _ = corpus.gen_shapes("ok", 3)
    for i, c in enumerate(corpus.pick(shapes, 500 if rep.tier == "quick" else 5000, rep.seed)):
        jobs.append({"wb": formgen.decorate(c["rows"], seed=rep.seed + i, feat=corpus.ALL_FEAT).wb(), "tag": {"shapes": c["rows"], "decorated": i}})
    outs = conv.map_cases(_run_free, jobs, chunksize=16)
    for o in outs:
        if o.get("status") == "harness_error":
            raise tlc.MachineryError(o["message"] + "\n" + o.get("tb", ""))
    sub = [o for o in outs if o["res"]["status"] == "ok"]
    cfg = corpus._cfg("Trace_Choices.cfg", TRACE_CFG)
    acc, info = tlc.validate_traces("Trace_Choices", cfg, [o["trace"] for o in sub], shards=8, tag="trc09free")
    rep.traces_validated += len(acc)
    rep.extra.setdefault("trace_runs", []).append({"source": "frozen test-suite corpus + decorated structures (source-free clauses)", "forms": len(outs), "traces": len(sub), "accepted": len(acc),
                                                   "with_instances": sum(1 for o in sub if o["trace"][0]["obs"]["instances"]), "wall_s": round(info["wall"], 1)})
    for i, o in enumerate(sub):
        rep.case({"foreign": o["tag"]}, nontrivial=bool(o["trace"][0]["obs"]["instances"]))
        if i in acc:
            continue
        l, clause = info["progress"].get(i, (0, "unexplained_event"))
        rep.violation(f"{PROP}:{clause}:foreign", f"clause {clause}; form={o['tag']} obs={o['trace'][0]['obs']}"[:500], {"foreign": True, "tag": o["tag"], "wb": o["wb"], "kwargs": o["kwargs"], "clause": clause})


def replay(rep, case):
    c = case["case"]
    if c.get("typeparams"):
        from harness.props import _typeparams

        return _typeparams.replay(rep, PROP, c)
    if c.get("foreign"):
        o = _run_free({"wb": c["wb"], "kwargs": c.get("kwargs"), "tag": c.get("tag")})
        acc, info = tlc.validate_traces("Trace_Choices", corpus._cfg("Trace_Choices.cfg", TRACE_CFG), [o["trace"]], shards=1, tag="replay")
        rep.traces_validated += len(acc)
        rep.case({"foreign": c.get("tag")})
        if 0 not in acc:
            rep.violation(f"{PROP}:{info['progress'].get(0, (0, '?'))[1]}:foreign", "replay", c)
        return
    o = _run({"cfg": c["cfg"], "sels": c["sels"], "fmt": c.get("fmt", "dict")})
    cfg = corpus._cfg("Trace_Choices.cfg", TRACE_CFG)
    acc, info = tlc.validate_traces("Trace_Choices", cfg, [o["trace"]], shards=1, tag="replay")
    rep.traces_validated += len(acc)
    rep.case(c)
    if 0 not in acc:
        l, clause = info["progress"].get(0, (0, "unexplained_event"))
        rep.violation(_classify(o, clause), f"clause {clause}", c)
    rep.sample({"cfg": c["cfg"], "sels": c["sels"]})
