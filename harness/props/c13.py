"""C13 - documented spellings and layout noise are interchangeable."""

from __future__ import annotations

import copy
import hashlib

from harness import conv, corpus, tlc

PROP = "C13"
TRACE_CFG = "SPECIFICATION TSpec\nCONSTANT MaxSteps = 0\nCONSTANT NBases = 4\nCONSTRAINT Accepted\nCHECK_DEADLOCK FALSE\n"
_BASE = {}


def _h(x):
    return hashlib.sha1((x or "").encode("utf-8")).hexdigest()[:16]


def _convert(wb, fmt):
    from harness import render

    inp, kw = render.render(wb, fmt)
    return conv.convert_case({"input": inp, "kwargs": kw, "events": False})


def _run(job):
    from harness import layoutgen

    c = job["case"]
    fmt = job["fmt"]
    base = layoutgen.bases()[c["base"] - 1]
    key = (c["base"], fmt)
    if key not in _BASE:
        _BASE[key] = _convert(base, fmt)
    b = _BASE[key]
    wb = layoutgen.apply_steps(base, c["steps"], job["seed"])
    r = _convert(wb, fmt)
    # TLC's shift maps are sequences indexed from row 2 (JSON arrays; element i is the new number of row i + 1)
    shift = {i + 2: v for i, v in enumerate(c["shift_survey"])} if isinstance(c["shift_survey"], list) else {int(k): v for k, v in c["shift_survey"].items()}
    ev = {"ev": "layout", "steps": c["steps"], "status": r["status"], "base_status": b["status"],
          "canon": _h(layoutgen.canon(r["xform"])) if r["status"] == "ok" else "", "base_canon_shifted": _h(layoutgen.canon(b["xform"], shift)) if b["status"] == "ok" else "",
          "warn": layoutgen.warn_facts(r.get("warnings")), "base_warn": layoutgen.warn_facts(b.get("warnings")),
          "itemsets": _h(r.get("itemsets")), "base_itemsets": _h(b.get("itemsets"))}
    return {"case": c, "fmt": fmt, "seed": job["seed"], "wb": wb, "res": {k: v for k, v in r.items() if k not in ("xform", "events")}, "trace": [ev]}


def run(rep):
    rep.rule = ("Layout.tla holds the catalogue of 15 meaning-preserving transformations (header case / spacing, column aliases, language delimiter styles, "
                "question-type aliases, truth spellings, smart quotes, padded cells, column and sheet permutation, foreign and underscore-prefixed sheets, "
                "unknown plain columns, sheet-name case, blank rows at every position of survey and choices) with their applicable sheets; TLC enumerates "
                "every ordered composition of <= 2 (quick) / 3 (thorough, sampled) entries on 4 base forms and computes the row shift each blank row causes. "
                "The harness performs the composition on the concrete workbook (xlsx / dict), converts, and TLC (Trace_Layout) checks: same outcome, same "
                "canonical XForm as the base after renumbering generated helper names by the shift, same warnings (sheet, shifted row, text) and same itemsets.")
    rep.assumptions = ["canonical XForm = ElementTree tree with sorted attributes, translations sorted by language and text id (layoutgen.canon)",
                       "only catalogue entries backed by an alias table or a cleaning step are used; question-type *case* is not in the catalogue"]
    n = 2 if rep.tier == "quick" else 3
    cfg = corpus._cfg("Gen_Layout.cfg", f"SPECIFICATION LSpec\nCONSTANT MaxSteps = {n}\nCONSTANT NBases = 4\nCONSTRAINT Emit\nINVARIANT ShiftMonotone\nINVARIANT ShiftExact\nCHECK_DEADLOCK FALSE\n")
    if n == 2:
        cases, r = tlc.generate("Gen_Layout", cfg, tag="genlayout", timeout=900)
    else:
        c2, r = tlc.generate("Gen_Layout", corpus._cfg("Gen_Layout2.cfg", "SPECIFICATION LSpec\nCONSTANT MaxSteps = 2\nCONSTANT NBases = 4\nCONSTRAINT Emit\nINVARIANT ShiftMonotone\nINVARIANT ShiftExact\nCHECK_DEADLOCK FALSE\n"), tag="genlayout", timeout=900)
        c3, r3 = tlc.generate("Gen_Layout", cfg, tag="genlayout3", simulate="num=20000", depth=5, seed=rep.seed + 3, timeout=1200)
        cases = c2 + [c for c in c3 if len(c["steps"]) == 3]
    rep.add_mc(r, f"Layout: compositions of <= {min(n, 2)} catalogue entries on 4 base forms; ShiftMonotone, ShiftExact")
    rep.bounds["compositions"] = {"max_steps": n, "cases": len(cases)}
    rep.exhaustive = n == 2
    jobs = []
    for i, c in enumerate(cases):
        ks = {s["k"] for s in c["steps"]}
        need_book = ks & {"foreign_sheet", "underscore_sheet", "permute_sheets", "sheet_name_case"}
        fmt = "xlsx" if need_book or i % 3 == 0 else "dict"
        if fmt == "xlsx" and i % 10 == 0 and not (ks & {"permute_sheets"}):
            fmt = "xls"
        jobs.append({"case": c, "fmt": fmt, "seed": rep.seed})
    outs = conv.map_cases(_run, jobs, chunksize=16)
    for o in outs:
        if o.get("status") == "harness_error":
            raise tlc.MachineryError(o["message"] + "\n" + o.get("tb", ""))
    cfg_t = corpus._cfg("Trace_Layout.cfg", TRACE_CFG)
    acc, info = tlc.validate_traces("Trace_Layout", cfg_t, [o["trace"] for o in outs], shards=12, tag="trc13")
    rep.traces_validated += len(acc)
    rep.extra.setdefault("trace_runs", []).append({"source": "TLC-enumerated compositions", "traces": len(outs), "accepted": len(acc), "wall_s": round(info["wall"], 1)})
    nok = sum(1 for o in outs if o["res"]["status"] != "pyxform_error")  # only rejections by the converter mean the generator left the grammar; crashes and malformed output go to TLC as violations
    if nok < 0.9 * len(outs):
        bad = next(o for o in outs if o["res"]["status"] != "ok")
        rep.extra["first_not_ok"] = {"steps": bad["case"]["steps"], "message": bad["res"].get("message")}
    for i, o in enumerate(outs):
        rep.case({"base": o["case"]["base"], "steps": o["case"]["steps"], "fmt": o["fmt"]})
        if i in acc:
            continue
        l, clause = info["progress"].get(i, (0, "unexplained_event"))
        kinds = "+".join(f"{s['k']}@{s['s']}" for s in o["case"]["steps"])
        rep.violation(f"{PROP}:{clause}:{kinds}", f"clause {clause}; base {o['case']['base']} steps={o['case']['steps']} fmt={o['fmt']} status={o['res']['status']} {o['res'].get('message') or ''} warn={o['trace'][0]['warn']} base_warn={o['trace'][0]['base_warn']}"[:900],
                      {"case": o["case"], "fmt": o["fmt"], "seed": o["seed"], "clause": clause, "wb": o["wb"]})
    for o in outs[30:32]:
        rep.sample({"base": o["case"]["base"], "steps": o["case"]["steps"], "fmt": o["fmt"], "warnings": o["trace"][0]["warn"]})
    ok = [o for i, o in enumerate(outs) if i in acc and o["trace"][0]["warn"] and any(w[1] for w in o["trace"][0]["warn"])]
    base = next(o for o in ok if any(s["k"] == "blank_row" and s["s"] == "survey" and s["at"] <= 3 for s in o["case"]["steps"]))
    cans = []
    t = copy.deepcopy(base["trace"]); t[0]["canon"] = "different"; cans.append(("xform_changed_by_spelling", t))
    t = copy.deepcopy(base["trace"])
    w = next(x for x in t[0]["warn"] if x[1])
    w[1] -= 1
    cans.append(("warning_row_not_shifted", t))
    t = copy.deepcopy(base["trace"]); t[0]["warn"] = t[0]["warn"][1:]; cans.append(("warning_lost", t))
    t = copy.deepcopy(base["trace"]); t[0]["steps"][0]["k"] = "retype_question"; cans.append(("transformation_outside_catalogue", t))
    a, _ = tlc.validate_traces("Trace_Layout", cfg_t, [c[1] for c in cans] + [base["trace"]], shards=1, tag="canary")
    wrongly = [cans[i][0] for i in a if i < len(cans)]
    if wrongly or len(cans) not in a:
        raise tlc.MachineryError(f"canary failure: accepted {wrongly}; control accepted={len(cans) in a}")
    rep.extra["canaries_rejected"] = [c[0] for c in cans]
    # header level: Headers.tla (envelope + transcription of process_header / row grouping) against the real functions
    from harness.props import _headers

    _headers.part(rep, PROP)
    # type-cell level: TypeCell.tla (the begin/end/select/osm grammar with every alias spelling) against the real converter
    from harness.props import _typecell

    _typecell.part(rep, PROP)
    # the line machines of the two text containers (TextTables.tla), this property's clauses
    from harness.props import _texttables

    _texttables.run(rep, PROP)


def replay(rep, case):
    c = case["case"]
    if c.get("texttable"):
        from harness.props import _texttables

        return _texttables.replay(rep, PROP, c)
    if c.get("headers"):
        from harness.props import _headers

        return _headers.replay(rep, PROP, c)
    if c.get("typecell"):
        from harness.props import _typecell

        return _typecell.replay(rep, PROP, c)
    o = _run({"case": c["case"], "fmt": c.get("fmt", "xlsx"), "seed": c.get("seed", 0)})
    acc, info = tlc.validate_traces("Trace_Layout", corpus._cfg("Trace_Layout.cfg", TRACE_CFG), [o["trace"]], shards=1, tag="replay")
    rep.traces_validated += len(acc)
    rep.case(c["case"])
    if 0 not in acc:
        rep.violation(f"{PROP}:{info['progress'].get(0, (0, '?'))[1]}", "replay", c)
