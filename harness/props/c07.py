"""C07 - every itext reference resolves in every language."""

import copy

from harness.props import _itext

PROP = "C07"


def _classify(o, clause):
    obs = o["trace"][0]["obs"]
    if clause == "every_reference_resolves_in_every_language":
        ids = set()
        for _, s in obs["ids"]:
            ids |= set(s)
        dangling = [r for r in obs["refs"] if r not in ids]
        # a choice of an itext-backed list that has no label/media cell of its own
        if dangling and all("-" in r and not r.startswith("/") for r in dangling):
            written = {c[0] for c in o["trace"][0]["src"]["cells"]}
            lists = {r.rsplit("-", 1)[0] + "." + str(int(r.rsplit("-", 1)[1]) + 1) for r in dangling}
            if not (lists & written):
                return f"{PROP}:choice_without_any_text_in_itext_list"
    return f"{PROP}:{clause}"


def _canaries(ok):
    base = next(o for o in ok if len(o["trace"][0]["obs"]["langs"]) >= 2 and o["trace"][0]["obs"]["refs"])
    cans = []
    t = copy.deepcopy(base["trace"]); t[0]["obs"]["ids"][1][1] = t[0]["obs"]["ids"][1][1][1:]; cans.append(("id_missing_in_one_language", t))
    t = copy.deepcopy(base["trace"]); t[0]["obs"]["refs"].append("/data/nope:label"); cans.append(("dangling_reference", t))
    t = copy.deepcopy(base["trace"]); t[0]["obs"]["langs"].append(t[0]["obs"]["langs"][0]); cans.append(("language_twice", t))
    t = copy.deepcopy(base["trace"]); t[0]["obs"]["defaults"] = list(t[0]["obs"]["langs"][:2]); cans.append(("two_defaults", t))
    cans.append(("control", base["trace"]))
    return cans


def run(rep):
    rep.rule = ("TLC (Gen_Itext) enumerates translation matrices over questions, a group, two selects sharing a list, a search() select and "
                "their choices x kinds {label, hint, guidance, constraint/required message, image, audio} x languages {unsuffixed, A, B} as "
                "bounded departures from a base matrix, x default language {unset, A, B, unused Z}; each is rendered (header delimiter styles, "
                "media:: prefixes, settings vs argument default_language) and converted; TLC (Trace_Itext, PROP=C07) checks on the projected "
                "output: every jr:itext id and every choice itextId exists in every translation, all translations have the same id set, no "
                "language/id twice, only the default language is marked default and it is marked when present.")
    rep.assumptions = ["projection of itext ids/refs by harness/project.py (ElementTree)"]
    _itext.run(rep, PROP, _canaries, _classify)
    # a long-lived Survey object: render / add translated elements through the builder API / render again (SurveyObject.tla histories)
    from harness.props import c02

    c02.part_histories(rep, PROP)


def replay(rep, case):
    if "history" in case.get("case", {}):
        from harness.props import c02

        return c02.replay_history(rep, PROP, case["case"])
    _itext.replay(rep, PROP, case, _classify)
