"""C16 - the JSON intermediate form is a faithful, reloadable representation."""

from __future__ import annotations

import copy

from harness import conv, corpus, formgen, tlc

PROP = "C16"
TRACE_CFG = "SPECIFICATION TSpec\nCONSTANT MaxFeatures = 0\nCONSTRAINT Accepted\nCHECK_DEADLOCK FALSE\n"


def _run(job):
    from harness import jsongen

    wb = job["wb"] if "wb" in job else jsongen.build(job["feats"])
    ev = jsongen.roundtrips(wb, job.get("fmt", "dict"))
    detail = ev.pop("detail")
    return {"job": {k: v for k, v in job.items() if k != "wb"}, "wb": wb, "detail": detail, "trace": [ev]}


def _sig(o, clause):
    j = o["job"]
    if (clause.startswith("pathB") or clause == "converted") and j.get("predicted_lost"):
        # one signature per root cause; a form combining several known causes is attributed to the first (alphabetical)
        return f"{PROP}:lost_by_survey_dump:" + sorted(j["predicted_lost"])[0]
    return f"{PROP}:{clause}" + (":unpredicted_loss" if clause.startswith("pathB") or clause == "converted" else "")


def run(rep):
    from harness import jsongen

    rep.rule = ("JsonIR.tla abstracts a form to the (element kind, field) pairs the XForm depends on and transcribes what the survey's own dump deletes; TLC "
                "checks PathBFaithful on the transcription (it is *expected* to fail exactly for group bind and option extra_data - the model's prediction) and "
                "enumerates every set of <= 2 (quick) / 3 (thorough) of 36 features. Each set is built as a real form and both round trips run on the real code: "
                "A = workbook_to_json dict -> JSON text -> dict -> builder -> XForm (must equal direct conversion, byte for byte); B = survey.to_json_dict -> JSON "
                "text -> builder -> survey (dump must be stable, XForm must equal the original). TLC (Trace_JsonIR) judges the four clauses; a path-B loss is "
                "classified by the features the model predicted to be lost. TLC-generated row structures decorated with every feature are run as well.")
    rep.assumptions = ["byte equality of compact XForms", "ConvertResult._pyxform / ._survey are the JSON dict and the survey of the conversion"]
    r = tlc.run("JsonIR", corpus._cfg("MC_JsonIR.cfg", "SPECIFICATION JSpec\nCONSTANT MaxFeatures = 2\nINVARIANT PathBFaithful\nCHECK_DEADLOCK FALSE\n"), workers=4, tag="mcjson")
    rep.add_mc(r, "JsonIR: PathBFaithful on the transcribed dump (expected violated: the model predicts the loss)")
    rep.extra["model_predicts_pathB_loss"] = bool(r["violation"])
    if not r["violation"]:
        rep.drift.append("JsonIR transcription no longer predicts a path-B loss; update DumpDrops")
    n = 2 if rep.tier == "quick" else 3
    cases, g = tlc.generate("Gen_JsonIR", corpus._cfg("Gen_JsonIR.cfg", f"SPECIFICATION JSpec\nCONSTANT MaxFeatures = {n}\nCONSTRAINT Emit\nCHECK_DEADLOCK FALSE\n"), tag="genjson", timeout=900)
    seen, jobs = set(), []
    for c in cases:
        k = tuple(sorted(c["feats"]))
        if k in seen:
            continue
        seen.add(k)
        jobs.append({"feats": sorted(c["feats"]), "predicted_lost": sorted(c["predicted_lost"]), "fmt": "dict" if len(jobs) % 7 else "md"})
    rep.add_mc(g, f"Gen_JsonIR: feature sets <= {n}")
    rep.bounds["feature_sets"] = {"max": n, "count": len(jobs)}
    shapes, gs = corpus.gen_shapes("ok", 4)
    lim = 600 if rep.tier == "quick" else 8000
    for i, c in enumerate(corpus.pick(shapes, lim, rep.seed)):
        f = formgen.decorate(c["rows"], seed=rep.seed + i, feat=corpus.ALL_FEAT)
        wb = f.wb()
        jobs.append({"wb": wb, "shapes": c["rows"], "fmt": "dict", "predicted_lost": jsongen.features_of(wb)})
    # the workbooks the repository's own test-suite converts (frozen input corpus), accepted ones
    from harness import suitecorpus

    ns = 0
    for i, it in enumerate(suitecorpus.load()):
        if it["status_at_freeze"] == "ok":
            jobs.append({"wb": it["wb"], "suite_form": i, "fmt": "dict", "predicted_lost": jsongen.features_of(it["wb"])})
            ns += 1
    rep.bounds["suite_corpus"] = ns
    outs = conv.map_cases(_run, jobs, chunksize=16)
    for o in outs:
        if o.get("status") == "harness_error":
            raise tlc.MachineryError(o["message"] + "\n" + o.get("tb", ""))
    cfg = corpus._cfg("Trace_JsonIR.cfg", TRACE_CFG)
    acc, info = tlc.validate_traces("Trace_JsonIR", cfg, [o["trace"] for o in outs], shards=8, tag="trc16")
    rep.traces_validated += len(acc)
    rep.extra.setdefault("trace_runs", []).append({"source": "feature sets + decorated structures", "traces": len(outs), "accepted": len(acc), "wall_s": round(info["wall"], 1)})
    drift = 0
    for i, o in enumerate(outs):
        rep.case(o["job"])
        lost_pred = bool(o["job"].get("predicted_lost"))
        if "feats" in o["job"] and (i in acc) == lost_pred:
            drift += 1
        if i in acc:
            continue
        l, clause = info["progress"].get(i, (0, "unexplained_event"))
        rep.violation(_sig(o, clause), f"clause {clause}; job={o['job']} detail={o['detail']}"[:800], {"job": o["job"], "wb": o["wb"], "clause": clause, "detail": o["detail"]})
    if drift:
        rep.drift.append(f"{drift} feature sets where the model's loss prediction and the observed path-B result disagree")
    for o in outs[20:22]:
        rep.sample({"job": o["job"], "facts": o["trace"][0]})
    ok = [o for i, o in enumerate(outs) if i in acc]
    base = ok[0]
    cans = []
    for fld in ("a_dict_equal", "a_xform_equal", "b_dump_stable", "b_xform_equal"):
        t = copy.deepcopy(base["trace"]); t[0][fld] = False; cans.append((fld + "_false", t))
    a, _ = tlc.validate_traces("Trace_JsonIR", cfg, [c[1] for c in cans] + [base["trace"]], shards=1, tag="canary")
    wrongly = [cans[i][0] for i in a if i < len(cans)]
    if wrongly or len(cans) not in a:
        raise tlc.MachineryError(f"canary failure: accepted {wrongly}; control accepted={len(cans) in a}")
    rep.extra["canaries_rejected"] = [c[0] for c in cans]


def replay(rep, case):
    c = case["case"]
    o = _run({"wb": c["wb"], "fmt": "dict", **{k: v for k, v in c["job"].items() if k in ("feats", "predicted_lost")}})
    acc, info = tlc.validate_traces("Trace_JsonIR", corpus._cfg("Trace_JsonIR.cfg", TRACE_CFG), [o["trace"]], shards=1, tag="replay")
    rep.traces_validated += len(acc)
    rep.case(c["job"])
    if 0 not in acc:
        rep.violation(_sig(o, info["progress"].get(0, (0, "?"))[1]), "replay", c)
