"""C18 - validator verdicts are honoured and failures leave no residue."""

from __future__ import annotations

import copy
import os

from harness import conv, corpus, tlc

PROP = "C18"
INVS = ("NoTempResidue", "ValidatorSawFile", "NoXFormOnFailure", "PlainModeUnlinks", "CodeMapping", "VerdictHonoured", "OutputsWritten", "LibraryWritesNothing")


def _run(job):
    from harness import valgen

    cfg = job["cfg"]
    obs = valgen.execute(cfg, os.environ.get("VERIF_REPO", "/repo"))
    raw = obs.pop("raw")
    return {"cfg": cfg, "raw": raw, "trace": [{"ev": "config", **cfg}, obs]}


def run(rep):
    rep.rule = ("Validate.tla (PlusCal) models one conversion request - entry point (library convert(validate=True), CLI plain, --json, --skip_validate, --odk_validate, "
                "--json --skip_validate) x valid/invalid form x validator outcome (exit 0 silent, exit 0 with stderr, exit 1|2 with diagnostics, exit 3 with arbitrary stderr, exit 255 silent, killed by SIGKILL|SIGTERM, java "
                "absent, corrupt jar) x output file pre-existing or not x external choices or not - as the steps of the code (parse, create temp file, write, check java, "
                "run validator, classify, finally-unlink, write outputs, report) over an abstract file system. TLC checks 8 invariants on all 672 configurations. Every "
                "configuration is then executed against the real code in a private directory tree with a scripted stand-in java first on PATH; TLC (Trace_Validate) runs "
                "the machine from the same configuration and requires the observed terminal facts (temp-dir residue, output path state and content, itemsets.csv, exception "
                "class / JSON code, surfaced stderr, validator saw the file, cleaned diagnostics) to equal the machine's terminal state.")
    rep.assumptions = ["the validator is replaced by a shell script selected through PATH (check_xform only needs `java` on PATH)",
                       "'validator killed': only the no-residue clause is demanded (the code accepts the form with a 'Bad return code' warning)",
                       "the 100 s watchdog (a validator that hangs) is executed in the thorough tier only, 8 configurations; like 'killed' it is judged on the no-residue clause, "
                       "the code's answer (accepted with a 'took to long' warning) is the transcription and a difference is reported as watchdog_drift"]
    cfg = corpus._cfg("MC_Validate.cfg", "SPECIFICATION Spec\n" + "".join(f"INVARIANT {i}\n" for i in INVS) + "CHECK_DEADLOCK FALSE\n")
    r = tlc.model_check("Validate", cfg, workers=4, required_actions=("Parse", "CreateTmp", "RunValidator", "Classify", "Finally", "WriteOutput", "Report"), tag="mcval")
    if r["violation"]:
        raise tlc.MachineryError(f"Validate invariant {r['violation']} violated on the model")
    rep.add_mc(r, "Validate: all 672 configurations, 8 invariants")
    rep.exhaustive = True
    cases, g = tlc.generate("Gen_Validate", corpus._cfg("Gen_Validate.cfg", "SPECIFICATION Spec\nCONSTRAINT Emit\nCHECK_DEADLOCK FALSE\n"), tag="genval")
    rep.bounds["configurations"] = len(cases)
    # a validator that hangs costs 100 s of wall time per execution (the real watchdog): thorough tier only, validating entries, no pre-existing file
    hang = [c for c in cases if c["vout"] == "hang"]
    cases = [c for c in cases if c["vout"] != "hang"]
    hang = [c for c in hang if rep.tier != "quick" and c["form"] == "valid" and not c["pre"] and c["entry"] in ("lib", "cli_plain", "cli_json", "cli_odk")]
    rep.bounds["hang_configurations_executed"] = len(hang)
    if rep.tier == "quick":
        # ext only matters when a file is written; keep every (entry, form, vout, pre) and both ext values for the accepting outcomes
        cases = [c for c in cases if c["ext"] or not c["pre"] or c["vout"] in ("reject", "ok_stderr", "reject_bytes", "ok_stderr_bytes")]
    outs = conv.map_cases(_run, [{"cfg": c} for c in hang + cases], chunksize=1 if hang else 2)
    rep.extra["watchdog_drift"] = [o["cfg"] for o in outs if o.get("cfg", {}).get("vout") == "hang" and not (o["trace"][1]["exc"] == "none" and o["trace"][1]["warn_timeout"])]
    for o in outs:
        if o.get("status") == "harness_error":
            raise tlc.MachineryError(o["message"] + "\n" + o.get("tb", ""))
    tcfg = corpus._cfg("Trace_Validate.cfg", "SPECIFICATION TSpec\nCONSTRAINT TAccepted\nCHECK_DEADLOCK FALSE\n")
    acc, info = tlc.validate_traces("Trace_Validate", tcfg, [o["trace"] for o in outs], shards=4, tag="trc18")
    rep.traces_validated += len(acc)
    rep.extra.setdefault("trace_runs", []).append({"source": "configurations executed with the stand-in java", "traces": len(outs), "accepted": len(acc), "wall_s": round(info["wall"], 1)})
    for i, o in enumerate(outs):
        rep.case(o["cfg"])
        if i in acc:
            continue
        l, clause = info["progress"].get(i, (0, "unexplained_event"))
        rep.violation(f"{PROP}:{clause}:{o['cfg']['entry']}:{o['cfg']['vout']}", f"clause {clause}; cfg={o['cfg']} observed={o['trace'][1]} output={o['raw'][-200:]!r}"[:900], {"cfg": o["cfg"], "clause": clause, "observed": o["trace"][1]})
    for o in outs[:2]:
        rep.sample({"cfg": o["cfg"], "observed": o["trace"][1]})
    ok = [o for i, o in enumerate(outs) if i in acc]
    b = next(o for o in ok if o["cfg"]["entry"] == "cli_json" and o["cfg"]["vout"] == "reject" and o["cfg"]["form"] == "valid")
    cans = []
    t = copy.deepcopy(b["trace"]); t[1]["tmp"] = 1; cans.append(("temp_file_left_behind", t))
    t = copy.deepcopy(b["trace"]); t[1]["code"] = 100; cans.append(("reject_reported_as_ok", t))
    t = copy.deepcopy(b["trace"]); t[1]["out"] = "new"; cans.append(("xform_written_on_reject", t))
    t = copy.deepcopy(b["trace"]); t[1]["msg_clean"] = False; cans.append(("diagnostics_not_cleaned", t))
    b2 = next(o for o in ok if o["cfg"]["entry"] == "cli_plain" and o["cfg"]["vout"] == "ok_stderr" and o["cfg"]["form"] == "valid" and o["cfg"]["ext"])
    t = copy.deepcopy(b2["trace"]); t[1]["warn_stderr"] = False; cans.append(("validator_stderr_lost", t))
    t = copy.deepcopy(b2["trace"]); t[1]["itemsets"] = False; cans.append(("itemsets_not_written", t))
    t = copy.deepcopy(b2["trace"]); t[1]["out_equals_lib"] = False; cans.append(("written_file_differs_from_library", t))
    a, _ = tlc.validate_traces("Trace_Validate", tcfg, [c[1] for c in cans] + [b["trace"], b2["trace"]], shards=1, tag="canary")
    wrongly = [cans[i][0] for i in a if i < len(cans)]
    if wrongly or len(cans) not in a or len(cans) + 1 not in a:
        raise tlc.MachineryError(f"canary failure: accepted {wrongly}")
    rep.extra["canaries_rejected"] = [c[0] for c in cans]


def replay(rep, case):
    c = case["case"]
    o = _run({"cfg": c["cfg"]})
    tcfg = corpus._cfg("Trace_Validate.cfg", "SPECIFICATION TSpec\nCONSTRAINT TAccepted\nCHECK_DEADLOCK FALSE\n")
    acc, info = tlc.validate_traces("Trace_Validate", tcfg, [o["trace"]], shards=1, tag="replay")
    rep.traces_validated += len(acc)
    rep.case(c["cfg"])
    if 0 not in acc:
        rep.violation(f"{PROP}:{info['progress'].get(0, (0, '?'))[1]}:{c['cfg']['entry']}:{c['cfg']['vout']}", "replay", c)
