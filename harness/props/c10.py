"""C10 - defaults and triggered calculations are applied exactly once."""

import copy

from harness.props import _logic

PROP = "C10"


def _canaries(sub, acc):
    base = next(o for i, o in enumerate(sub) if i in acc and o["res"]["status"] == "ok"
                and any(d[1] == "dynamic" for d in o["trace"][-1]["src"]["defaults"]))
    cans = []
    t = copy.deepcopy(base["trace"])
    sv = next(s for s in t[-1]["obs"]["setv"] if "odk-instance-first-load" in s["events"])
    t[-1]["obs"]["setv"].append(dict(sv))
    cans.append(("setvalue_duplicated", t))
    t = copy.deepcopy(base["trace"])
    t[-1]["obs"]["setv"] = [s for s in t[-1]["obs"]["setv"] if "odk-instance-first-load" not in s["events"]]
    cans.append(("setvalue_removed", t))
    t = copy.deepcopy(base["trace"])
    d = next(d for d in t[-1]["src"]["defaults"] if d[1] == "dynamic")
    for n in t[-1]["obs"]["inst"]:
        if n["p"] == d[0]:
            n["text"] = "literal too"
    cans.append(("literal_and_setvalue", t))
    cans.append(("control", base["trace"]))
    return cans


def run(rep):
    rep.rule = ("row structures from TLC (Gen_RowParser, questions at every depth of groups/repeats); question rows get a default "
                "drawn from three lexical classes (static / dynamic / ambiguous) x question types, and trigger cells pointing at a "
                "visible question (with and without calculation; background-geopoint). TLC (Trace_RowParser, PROP=C10) checks: "
                "static => literal in every copy of the node and no setvalue; dynamic => empty node and exactly one setvalue, in the "
                "model with first-load when outside repeats, inside the innermost repeat with first-load+new-repeat otherwise; "
                "ambiguous => exactly one of the two; triggers => one value-changed action nested in the trigger's control and no bind calculate.")
    rep.assumptions = ["the three-way default classification is the envelope's own lexical rule (abstract.classify_default)",
                       "InnermostRepeat is evaluated by TLC on the specification's tree"]
    _logic.run(rep, PROP, "defaults", _canaries)
    part_lexical(rep)


DEF_CFG = "SPECIFICATION TSpec\nCONSTANT MaxPieces = 0\nCONSTRAINT Accepted\nCHECK_DEADLOCK FALSE\n"


def part_lexical(rep):
    """Defaults.tla: which default texts are literals / expressions, decided on every sequence of <= 3 lexical pieces."""
    from harness import conv, corpus, defaultgen, tlc

    invs = ("RefMakesDynamic", "PlainIsStatic", "TypeOnlyMattersForMinus", "RefOnlyRaises")
    cfg = corpus._cfg("Gen_Defaults.cfg", "SPECIFICATION DSpec\nCONSTANT MaxPieces = 3\n" + "".join(f"INVARIANT {i}\n" for i in invs) + "CONSTRAINT Emit\nCHECK_DEADLOCK FALSE\n")
    cases, r = tlc.generate("Gen_Defaults", cfg, tag="gendef", timeout=900)
    rep.add_mc(r, "Gen_Defaults: every sequence of <= 3 of 29 lexical pieces x {hyphen type, other type}; RefMakesDynamic, PlainIsStatic, TypeOnlyMattersForMinus, RefOnlyRaises")
    if rep.tier == "thorough":
        cfg4 = corpus._cfg("Gen_Defaults4.cfg", "SPECIFICATION DSpec\nCONSTANT MaxPieces = 5\nCONSTRAINT Emit\nCHECK_DEADLOCK FALSE\n")
        c4, _ = tlc.generate("Gen_Defaults", cfg4, tag="gendef4", simulate="num=60000", depth=8, seed=rep.seed + 3, timeout=1200)
        cases += [c for c in c4 if len(c["seq"]) >= 4]
    rep.bounds["default_texts"] = {"max_pieces": 3, "cases": len(cases)}
    outs = conv.map_cases(defaultgen.run, [{"seq": c["seq"], "hyphen": c["hyphen"], "k": i + rep.seed} for i, c in enumerate(cases)], chunksize=512)
    for o in outs:
        if o.get("status") == "harness_error":
            raise tlc.MachineryError(o["message"] + "\n" + o.get("tb", ""))
    tcfg = corpus._cfg("Trace_Defaults.cfg", DEF_CFG)
    acc, info = tlc.validate_traces("Trace_Defaults", tcfg, [o["trace"] for o in outs], shards=12, tag="trdef", timeout=1500)
    rep.traces_validated += len(acc)
    rep.extra.setdefault("trace_runs", []).append({"source": "default texts (piece sequences) through the real default_is_dynamic", "traces": len(outs), "accepted": len(acc), "wall_s": round(info["wall"], 1)})
    for i, o in enumerate(outs):
        rep.case({"default_text": o["text"], "hyphen": o["job"]["hyphen"]})
        if i in acc:
            continue
        l, clause = info["progress"].get(i, (0, "unexplained_event"))
        ev = o["trace"][0]
        rep.violation(f"{PROP}:lexical:{clause}", f"clause {clause}; default text {o['text']!r} type={ev['qtype']!r} pieces={ev['seq']} real_dynamic={ev['real_dynamic']} harness_class={ev['harness_class']}"[:500],
                      {"lexical": True, "job": o["job"], "clause": clause})
    ok = [o for i, o in enumerate(outs) if i in acc]
    cans = []
    b = next((o for o in ok if o["trace"][0]["seq"] == ["ref"]), None)
    c = next((o for o in ok if o["trace"][0]["seq"] == ["words"]), None)
    if b is None or c is None:
        if rep.violations:
            return
        raise tlc.MachineryError("lexical part: no accepted execution to corrupt")
    t = copy.deepcopy(b["trace"]); t[0]["real_dynamic"] = False; cans.append(("reference_taken_for_a_literal", t))
    t = copy.deepcopy(c["trace"]); t[0]["real_dynamic"] = True; cans.append(("plain_words_taken_for_an_expression", t))
    t = copy.deepcopy(c["trace"]); t[0]["harness_class"] = "dynamic"; cans.append(("harness_classifier_contradicts_spec", t))
    a, _ = tlc.validate_traces("Trace_Defaults", tcfg, cans_only(cans) + [b["trace"]], shards=1, tag="canary")
    if any(i in a for i in range(len(cans))) or len(cans) not in a:
        raise tlc.MachineryError(f"lexical canary failure: accepted {[cans[i][0] for i in a if i < len(cans)]}")
    rep.extra.setdefault("canaries_rejected", []).extend(x[0] for x in cans)


def cans_only(cans):
    return [x[1] for x in cans]


def replay(rep, case):
    c = case["case"]
    if c.get("lexical"):
        from harness import corpus, defaultgen, tlc

        o = defaultgen.run(c["job"])
        acc, info = tlc.validate_traces("Trace_Defaults", corpus._cfg("Trace_Defaults.cfg", DEF_CFG), [o["trace"]], shards=1, tag="replay")
        rep.traces_validated += len(acc)
        rep.case(c["job"])
        if 0 not in acc:
            rep.violation(f"{PROP}:lexical:{info['progress'].get(0, (0, '?'))[1]}", "replay", c)
        return
    _logic.replay(rep, PROP, case)
