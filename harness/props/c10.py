"""C10 - defaults and triggered calculations are applied exactly once."""

import copy

from harness.props import _logic

PROP = "C10"


def _canaries(sub, acc):
    base = next(o for i, o in enumerate(sub) if i in acc and o["res"]["status"] == "ok"
                and any(d[1] == "dynamic" for d in o["trace"][-1]["src"]["defaults"]))
    cans = []
    t = copy.deepcopy(base["trace"])
    sv = next(s for s in t[-1]["obs"]["setv"] if "odk-instance-first-load" in s["events"])
    t[-1]["obs"]["setv"].append(dict(sv))
    cans.append(("setvalue_duplicated", t))
    t = copy.deepcopy(base["trace"])
    t[-1]["obs"]["setv"] = [s for s in t[-1]["obs"]["setv"] if "odk-instance-first-load" not in s["events"]]
    cans.append(("setvalue_removed", t))
    t = copy.deepcopy(base["trace"])
    d = next(d for d in t[-1]["src"]["defaults"] if d[1] == "dynamic")
    for n in t[-1]["obs"]["inst"]:
        if n["p"] == d[0]:
            n["text"] = "literal too"
    cans.append(("literal_and_setvalue", t))
    cans.append(("control", base["trace"]))
    return cans


def run(rep):
    rep.rule = ("row structures from TLC (Gen_RowParser, questions at every depth of groups/repeats); question rows get a default "
                "drawn from three lexical classes (static / dynamic / ambiguous) x question types, and trigger cells pointing at a "
                "visible question (with and without calculation; background-geopoint). TLC (Trace_RowParser, PROP=C10) checks: "
                "static => literal in every copy of the node and no setvalue; dynamic => empty node and exactly one setvalue, in the "
                "model with first-load when outside repeats, inside the innermost repeat with first-load+new-repeat otherwise; "
                "ambiguous => exactly one of the two; triggers => one value-changed action nested in the trigger's control and no bind calculate.")
    rep.assumptions = ["the three-way default classification is the envelope's own lexical rule (abstract.classify_default)",
                       "InnermostRepeat is evaluated by TLC on the specification's tree"]
    _logic.run(rep, PROP, "defaults", _canaries)


def replay(rep, case):
    _logic.replay(rep, PROP, case)
