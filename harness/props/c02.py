"""C02 - model, instance and body agree: every nodeset/ref names one existing node; ambiguity is rejected."""

from harness import corpus
from harness.props import _rp

PROP = "C02"


def _clash_jobs(tier, seed):
    n = 2 if tier == "quick" else 3
    cases, r = corpus.gen_shapes("clash", n)
    lim = 6000 if tier == "quick" else 60000
    sel = corpus.pick(cases, lim, seed)
    meta = {"N": n, "cases": len(cases), "replayed": len(sel), "states": r["distinct"], "name_pool": 7}
    return [{"shapes": c["rows"], "seed": seed, "feat": [], "fmt": "dict"} for c in sel], meta


def run(rep):
    rep.rule = ("(a) accepted forms: TLC-generated row-shape sequences (as C04) decorated with logic/defaults/triggers so that "
                "binds, setvalues and generated helper nodes exist; (b) collision forms: every sequence of <= N rows over a "
                "7-name pool with case variants and generated-name look-alikes (a, A, b, a_count, a_other, meta, data). Each "
                "execution is a trace validated by TLC against Trace_RowParser (PROP=C02): closure/uniqueness of every "
                "nodeset/ref in the emitted XForm and 'predicted rejection' of ambiguous trees. Non-trivial = at least one "
                "non-skip row and an outcome (ok or rejected).")
    rep.assumptions = [
        "alpha / projection trusted; attribute binds (entity) resolve against attributes present on the instance node",
        "the code is stricter than the property (case-insensitive sibling clash, unique section names); the spec transcribes that",
    ]
    _rp.mc(rep, rep.tier)
    jobs, meta = _rp.jobs_ok(rep.tier, rep.seed)
    cj, cmeta = _clash_jobs(rep.tier, rep.seed)
    rep.bounds["generation"] = meta
    rep.bounds["clash"] = cmeta
    outs = corpus.run_forms(jobs)
    sub, acc, rejected = _rp.validate(rep, PROP, outs, "TLC-generated accepted forms")
    outs2 = corpus.run_forms(cj)
    sub2, acc2, rejected2 = _rp.validate(rep, PROP, outs2, "TLC-generated name-collision forms")
    for o, l, clause in rejected + rejected2:
        rep.violation(f"{PROP}:{clause}", f"trace rejected at event {l} clause {clause}; shapes={o['shapes']}",
                      {"shapes": o["shapes"], "seed": o["seed"], "feat": o["feat"], "fmt": o["fmt"], "clause": clause,
                       "event": l, "wb": o["wb"], "status": o["res"]["status"], "message": o["res"].get("message")})
    rej = sum(1 for o in sub2 if o["res"]["status"] == "pyxform_error")
    rep.extra["collision_forms_rejected_by_code"] = rej
    if rej == 0:
        raise __import__("harness.tlc", fromlist=["MachineryError"]).MachineryError("vacuity: no collision form was rejected")
    for o in sub[:2] + [x for x in sub2 if x["res"]["status"] == "pyxform_error"][:2]:
        rep.sample({"rows": o["shapes"], "outcome": o["res"]["status"], "message": o["res"].get("message"), "trace_events": len(o["trace"])})
    _rp.run_canaries(rep, PROP, sub, acc)


def replay(rep, case):
    c = case["case"]
    outs = corpus.run_forms([{"shapes": c["shapes"], "seed": c["seed"], "feat": c["feat"], "fmt": c["fmt"]}])
    sub, acc, rejected = _rp.validate(rep, PROP, outs, "replay")
    for o, l, clause in rejected:
        rep.violation(f"{PROP}:{clause}", f"trace rejected at event {l} clause {clause}", c)
    rep.sample({"rows": c["shapes"]})
