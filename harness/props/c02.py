"""C02 - model, instance and body agree: every nodeset/ref names one existing node; ambiguity is rejected."""

from harness import corpus, tlc
from harness.props import _rp

PROP = "C02"


def _clash_jobs(tier, seed):
    n = 2 if tier == "quick" else 3
    cases, r = corpus.gen_shapes("clash", n)
    lim = 6000 if tier == "quick" else 60000
    sel = corpus.pick(cases, lim, seed)
    # deeper collision forms by simulation: duplicates inside nested / only-child sections need >= 4 rows
    deep, _ = corpus.gen_shapes("clash", 6, simulate=f"num={2500 if tier == 'quick' else 30000}", depth=9, seed=seed + 17, timeout=900)
    deep = [c for c in deep if len(c["rows"]) >= 4]
    sel = sel + deep
    meta = {"N": n, "cases": len(cases), "replayed": len(sel), "simulated_deeper": len(deep), "states": r["distinct"], "name_pool": 7}
    return [{"shapes": c["rows"], "seed": seed, "feat": [], "fmt": "dict"} for c in sel], meta


def run(rep):
    rep.rule = ("(a) accepted forms: TLC-generated row-shape sequences (as C04) decorated with logic/defaults/triggers so that "
                "binds, setvalues and generated helper nodes exist; (b) collision forms: every sequence of <= N rows over a "
                "7-name pool with case variants and generated-name look-alikes (a, A, b, a_count, a_other, meta, data). Each "
                "execution is a trace validated by TLC against Trace_RowParser (PROP=C02): closure/uniqueness of every "
                "nodeset/ref in the emitted XForm and 'predicted rejection' of ambiguous trees. Non-trivial = at least one "
                "non-skip row and an outcome (ok or rejected).")
    rep.assumptions = [
        "alpha / projection trusted; attribute binds (entity) resolve against attributes present on the instance node",
        "the code is stricter than the property (case-insensitive sibling clash, unique section names); the spec transcribes that",
    ]
    _rp.mc(rep, rep.tier)
    jobs, meta = _rp.jobs_ok(rep.tier, rep.seed)
    cj, cmeta = _clash_jobs(rep.tier, rep.seed)
    rep.bounds["generation"] = meta
    rep.bounds["clash"] = cmeta
    outs = corpus.run_forms(jobs)
    sub, acc, rejected = _rp.validate(rep, PROP, outs, "TLC-generated accepted forms", src="ok")
    outs2 = corpus.run_forms(cj)
    sub2, acc2, rejected2 = _rp.validate(rep, PROP, outs2, "TLC-generated name-collision forms")
    for o, l, clause in rejected + rejected2:
        rep.violation(f"{PROP}:{clause}", f"trace rejected at event {l} clause {clause}; shapes={o['shapes']}",
                      {"shapes": o["shapes"], "seed": o["seed"], "feat": o["feat"], "fmt": o["fmt"], "clause": clause,
                       "event": l, "wb": o["wb"], "status": o["res"]["status"], "message": o["res"].get("message")})
    rej = sum(1 for o in sub2 if o["res"]["status"] == "pyxform_error")
    rep.extra["collision_forms_rejected_by_code"] = rej
    if rej == 0:
        raise __import__("harness.tlc", fromlist=["MachineryError"]).MachineryError("vacuity: no collision form was rejected")
    for o in sub[:2] + [x for x in sub2 if x["res"]["status"] == "pyxform_error"][:2]:
        rep.sample({"rows": o["shapes"], "outcome": o["res"]["status"], "message": o["res"].get("message"), "trace_events": len(o["trace"])})
    _rp.run_canaries(rep, PROP, sub, acc)
    part_histories(rep)
    part_loops(rep)
    part_flat(rep, sub)
    _rp.corpus_part(rep, PROP)
    if rep.tier == "thorough":
        _rp.suite_part(rep, PROP)


def _run_flat(job):
    from harness import conv, render, rowtrace

    inp, kw = render.render(job["wb"], "dict")
    res = conv.convert_case({"input": inp, "kwargs": kw, "events": False, "allow_malformed": True})
    status = res["status"] if res["status"] in ("ok", "pyxform_error") else "crash:" + str(res.get("errclass"))
    obs = {"inst": [], "body": [], "binds": [], "actions": [], "setv": [], "root": ""}
    if res["status"] == "ok":
        obs = rowtrace.observe(res["xform"])
        # a <group> without ref is a presentation-only group (what a flat group becomes): it is not a control that names a node,
        # so C02 says nothing about it; the remaining controls keep their nearest remaining ancestor (par is 1-based, 0 = none)
        body, keep, newidx = obs["body"], [], {}
        for i, c in enumerate(body, 1):
            if not (c["tag"] == "group" and c["ref"] == ["?None"]):
                newidx[i] = len(keep) + 1
                keep.append(c)
        for i, c in enumerate(body, 1):
            if i in newidx:
                p = c["par"]
                while p and p not in newidx:
                    p = body[p - 1]["par"]
                c["par"] = newidx.get(p, 0)
        obs["body"] = keep
    cfg = {"lists": ["L"], "formname": obs["root"] or "data", "omitid": False, "iname": False, "entity": False, "entlabel": False}
    return {"tag": job["tag"], "wb": job["wb"], "status": status, "message": (res.get("message") or "")[:200],
            "free": [{"ev": "init", "cfg": cfg, "nwarn0": 0}, {"ev": "free", "status": status, "obs": obs}]}


def part_flat(rep, sub):
    """The (legacy, ODK Tables) `flat` setting: groups contribute no node to the instance, their rows become children of the root.  What C02
    demands of the emitted document is decided on the document alone (Trace_RowParser `free` event), for TLC-generated structures that nest
    groups (no repeats, names unique in the whole form) and for one hand-written case with the same name in two groups (known finding)."""
    import copy

    from harness import conv

    jobs = []
    for o in sub:
        kinds = [sh[0] for sh in (o.get("shapes") or [])]
        if o["res"]["status"] != "ok" or sum(1 for k in kinds if k.startswith("begin_group")) < 2 or any("repeat" in k for k in kinds):
            continue
        wb = copy.deepcopy(o["wb"])
        st = next((x for x in wb["sheets"] if x["name"] == "settings"), None)
        if st is None:
            wb["sheets"].append({"name": "settings", "header": ["flat"], "rows": [["yes"]]})
        else:
            st["header"] = list(st["header"]) + ["flat"]
            st["rows"] = [list(r) + ["yes"] for r in st["rows"]]
        jobs.append({"wb": wb, "tag": {"flat": "generated", "shapes": o["shapes"]}})
        if len(jobs) >= (250 if rep.tier == "quick" else 3000):
            break
    twice = {"sheets": [{"name": "survey", "header": ["type", "name", "label"], "rows": [["begin group", "g1", "G1"], ["text", "same", "S1"], ["end group", None, None],
                                                                                      ["begin group", "g2", "G2"], ["text", "same", "S2"], ["end group", None, None]]},
                       {"name": "settings", "header": ["flat"], "rows": [["yes"]]}]}
    jobs.append({"wb": twice, "tag": {"flat": "same_name_in_two_groups"}})
    outs = conv.map_cases(_run_flat, jobs, chunksize=16)
    for o in outs:
        if o.get("status") == "harness_error":
            raise tlc.MachineryError(o["message"] + "\n" + o.get("tb", ""))
    nok = sum(1 for o in outs if o["status"] == "ok")
    rep.bounds["flat_forms"] = {"cases": len(outs), "converted": nok}
    acc, info = tlc.validate_traces(_rp.TRACE_MOD, _rp.TRACE_CFG, [o["free"] for o in outs], shards=4, env={"PROP": PROP, "VERIF_SRC": "gen"}, tag="flatfree")
    rep.traces_validated += len(acc)
    rep.extra.setdefault("trace_runs", []).append({"source": "forms with the flat setting: closure of the emitted document (free event)", "traces": len(outs), "accepted": len(acc), "wall_s": round(info["wall"], 1)})
    for i, o in enumerate(outs):
        rep.case({"flat": o["tag"]}, nontrivial=o["status"] == "ok")
        if i not in acc:
            clause = info["progress"].get(i, (0, "unexplained_event"))[1]
            rep.violation(f"{PROP}:flat:{clause}:{o['tag']['flat']}", f"clause {clause}; flat form {o['tag']} status={o['status']} {o['message']}"[:600], {"flat": True, "wb": o["wb"], "tag": o["tag"], "clause": clause})


def replay_flat(rep, c):
    o = _run_flat({"wb": c["wb"], "tag": c["tag"]})
    acc, info = tlc.validate_traces(_rp.TRACE_MOD, _rp.TRACE_CFG, [o["free"]], shards=1, env={"PROP": PROP, "VERIF_SRC": "gen"}, tag="replay")
    rep.traces_validated += len(acc)
    rep.case({"flat": c["tag"]})
    if 0 not in acc:
        rep.violation(f"{PROP}:flat:{info['progress'].get(0, (0, '?'))[1]}:{c['tag']['flat']}", "replay", c)


LOOP_TCFG = "SPECIFICATION TSpec\nCONSTANT MaxChoices = 0\nCONSTANT MaxRows = 0\nCONSTRAINT Accepted\nCHECK_DEADLOCK FALSE\n"


def part_loops(rep):
    """Loop.tla: forms with the legacy loop construct are outside RowParser's fragment; what C02 demands of the emitted document is
    decided on the document alone (Trace_RowParser "free" event); the expansion itself is compared with the transcription (drift)."""
    import copy

    from harness import conv, loopgen

    cfg = corpus._cfg("Gen_Loop.cfg", "SPECIFICATION LSpec\nCONSTANT MaxChoices = 3\nCONSTANT MaxRows = 2\nINVARIANT CopiesAreDistinct\nINVARIANT NoneIsSkipped\nCONSTRAINT Emit\nCHECK_DEADLOCK FALSE\n")
    cases, r = tlc.generate("Gen_Loop", cfg, tag="genloop", timeout=900)
    rep.add_mc(r, "Gen_Loop: every loop case (<= 3 choices with or without a 'none' choice, <= 2 template rows over 6 placeholder texts, loop at top / in a group / in a repeat, "
                  "group inside the template, translated or not): copies are distinct, 'none' is skipped")
    if rep.tier == "quick":
        cases = corpus.pick(cases, 900, rep.seed)
    outs = conv.map_cases(loopgen.run_case, cases, chunksize=32)
    for o in outs:
        if o.get("status") == "harness_error":
            raise tlc.MachineryError(o["message"] + "\n" + o.get("tb", ""))
    nok = sum(1 for o in outs if o["status"] == "ok")
    rep.bounds["loops"] = {"cases": len(outs), "converted": nok}
    if nok * 4 < len(outs) and not rep.violations:
        raise tlc.MachineryError(f"vacuity: only {nok} of {len(outs)} loop forms convert")
    acc, info = tlc.validate_traces(_rp.TRACE_MOD, _rp.TRACE_CFG, [o["free"] for o in outs], shards=8, env={"PROP": PROP, "VERIF_SRC": "gen"}, tag="loopfree")
    rep.traces_validated += len(acc)
    acc2, info2 = tlc.validate_traces("Trace_Loop", corpus._cfg("Trace_Loop.cfg", LOOP_TCFG), [o["loop"] for o in outs], shards=8, tag="trloop")
    rep.extra.setdefault("trace_runs", []).append({"source": "loop forms: closure of the emitted document (free event) and the expansion against Loop.tla", "traces": len(outs),
                                                   "accepted": len(acc), "drift_from_transcription": len(info2.get("drift", [])), "wall_s": round(info["wall"] + info2["wall"], 1)})
    if info2.get("drift"):
        rep.drift.append(f"{len(info2['drift'])} loop forms expand differently from Loop.tla, e.g. {outs[info2['drift'][0]]['job']}")
    for i, o in enumerate(outs):
        rep.case({"loop": {k: o["job"][k] for k in ("choices", "where", "grp", "translated")}, "rows": o["job"]["rows"]}, nontrivial=o["status"] == "ok")
        bad = None
        if i not in acc:
            bad = info["progress"].get(i, (0, "unexplained_event"))[1]
        elif i not in acc2:
            bad = info2["progress"].get(i, (0, "unexplained_event"))[1]
        if bad:
            rep.violation(f"{PROP}:loop:{bad}", f"clause {bad}; loop case {o['job']} status={o['status']} {o['loop'][0]['real'].get('message')}"[:600], {"loop": True, "job": o["job"], "clause": bad})
    base = next(o for i, o in enumerate(outs) if i in acc and o["status"] == "ok" and len(o["free"][1]["obs"]["binds"]) >= 3)
    t = copy.deepcopy(base["free"]); t[1]["obs"]["binds"].append(copy.deepcopy(t[1]["obs"]["binds"][0]))
    t2 = copy.deepcopy(base["free"]); t2[1]["obs"]["body"][-1]["ref"] = t2[1]["obs"]["body"][-1]["ref"][:-1] + ["nowhere"]
    a, _ = tlc.validate_traces(_rp.TRACE_MOD, _rp.TRACE_CFG, [t, t2, base["free"]], shards=1, env={"PROP": PROP, "VERIF_SRC": "gen"}, tag="canloop")
    if 0 in a or 1 in a or 2 not in a:
        raise tlc.MachineryError("loop canary failure")
    rep.extra.setdefault("canaries_rejected", []).extend(["loop_copy_bound_twice", "loop_copy_control_names_no_node"])


def replay_loop(rep, c):
    from harness import loopgen

    o = loopgen.run_case(c["job"])
    acc, info = tlc.validate_traces(_rp.TRACE_MOD, _rp.TRACE_CFG, [o["free"]], shards=1, env={"PROP": PROP, "VERIF_SRC": "gen"}, tag="replay")
    acc2, info2 = tlc.validate_traces("Trace_Loop", corpus._cfg("Trace_Loop.cfg", LOOP_TCFG), [o["loop"]], shards=1, tag="replay2")
    rep.traces_validated += len(acc)
    rep.case({"loop": c["job"]})
    if 0 not in acc or 0 not in acc2:
        cl = (info if 0 not in acc else info2)["progress"].get(0, (0, "?"))[1]
        rep.violation(f"{PROP}:loop:{cl}", "replay", c)


def replay(rep, case):
    c = case["case"]
    if "history" in c:
        return replay_history(rep, PROP, c)
    if c.get("loop"):
        return replay_loop(rep, c)
    if c.get("flat"):
        return replay_flat(rep, c)
    outs = corpus.run_forms([{"shapes": c["shapes"], "seed": c["seed"], "feat": c["feat"], "fmt": c["fmt"]}])
    sub, acc, rejected = _rp.validate(rep, PROP, outs, "replay")
    for o, l, clause in rejected:
        rep.violation(f"{PROP}:{clause}", f"trace rejected at event {l} clause {clause}", c)
    rep.sample({"rows": c["shapes"]})


def replay_history(rep, prop, c):
    o = _run_history({"hist": c["history"], "inspect": c.get("inspect", False), "translated": prop == "C07", "both_modes": prop == "C15"})
    n = 6
    so_cfg = SO_CFG.replace("WithRefs = FALSE", "WithRefs = TRUE") if prop == "C03" else SO_CFG
    if prop in ("C02", "C03"):
        so_cfg = so_cfg.replace("WithMove = FALSE", "WithMove = TRUE")
    tcfg = corpus._cfg("Trace_SurveyObject.cfg", "SPECIFICATION TSpec\n" + so_cfg % n + "CONSTRAINT Accepted\nCHECK_DEADLOCK FALSE\n")
    a, info = tlc.validate_traces("Trace_SurveyObject", tcfg, [o["trace"]], shards=1, env={"PROP": prop}, tag="replay")
    rep.case({"history": c["history"]})
    if 0 not in a:
        rep.violation(f"{prop}:history:{info['progress'].get(0, (0, '?'))[1]}", "replay", c)


# ---------------------------------------------------------------- survey-object histories (SurveyObject.tla)
SO_CFG = 'CONSTANT Names = {"q0", "a", "g0"}\nCONSTANT MaxOps = %d\nCONSTANT WithRefs = FALSE\nCONSTANT WithMove = FALSE\n'


def _run_history(job):
    """replay one TLC history on a real Survey object through the public builder API"""
    from pyxform.builder import create_survey_element_from_dict
    from pyxform.errors import PyXFormError

    from harness import project

    tr = bool(job.get("translated"))

    def lab(t):
        return {"English (en)": t, "French (fr)": t + " fr"} if tr else t

    s = create_survey_element_from_dict({"type": "survey", "name": "data", "title": "t", "id_string": "h", "children": [
        {"type": "text", "name": "q0", "label": lab("Q0")},
        {"type": "group", "name": "grp", "label": lab("G"), "children": [{"type": "integer", "name": "g0", "label": lab("G0")}]}]})
    grp = next(c for c in s.children if c.name == "grp")
    trace = []
    for op, arg in job["hist"]:
        if op in ("add_root", "add_group"):
            d = {"type": "text", "name": arg, "label": lab(arg.upper())}
            if tr:
                d.update(hint=lab("hint " + arg), bind={"constraint": ". != 'x'", "jr:constraintMsg": lab("msg " + arg)})
            q = create_survey_element_from_dict(d)
            if job.get("inspect"):
                q.get_xpath()          # looking at a detached element must not stick to it
            (s if op == "add_root" else grp).add_child(q)
            trace.append({"op": op, "name": arg})
            continue
        if op == "add_ref":
            nref = sum(1 for e in trace if e["op"] == "add_ref") + 1
            s.add_child(create_survey_element_from_dict({"type": "calculate", "name": f"r{nref}", "bind": {"calculate": "${" + arg + "} + 1"}}))
            trace.append({"op": op, "name": arg})
            continue
        if op == "add_repeat":
            k = sum(1 for e in trace if e["op"] == "add_repeat") + 1
            rp = create_survey_element_from_dict({"type": "repeat", "name": f"rp{k}", "label": lab(f"RP{k}"), "children": [
                {"type": "text", "name": f"b{k}", "label": lab(f"B{k}")}, {"type": "calculate", "name": f"c{k}", "bind": {"calculate": "${b%d} + 1" % k}}]})
            if job.get("inspect"):
                rp.children[0].get_xpath()      # looking at a question of a detached section (not at the section itself) must not stick either
            s.add_child(rp)
            trace.append({"op": op, "name": arg})
            continue
        if op == "move":
            # re-parenting through the public API: the group leaves the root and is attached below a new group
            del s.children[next(i for i, c in enumerate(s.children) if c is grp)]      # (list.remove compares by content, which validates)
            h = create_survey_element_from_dict({"type": "group", "name": "h", "label": lab("H"), "children": []})
            if job.get("inspect"):
                # the new parent is filled while still detached, a question below it is looked at, and only then it is attached
                h.add_child(grp)
                grp.children[0].get_xpath()
                s.add_child(h)
            else:
                s.add_child(h)
                h.add_child(grp)
            trace.append({"op": op, "name": arg})
            continue
        if op == "mark":
            q0 = next(c for c in s.children if c.name == "q0")
            q0.bind["required"] = "yes"            # the caller edits the logic of one question through the object API
            trace.append({"op": "mark", "name": arg})
            continue
        ev = {"op": "render", "outcome": "ok", "required_on": [], "modes_agree": False, "unique_siblings": False, "binds_once": False, "controls_once": False, "closure": False,
              "refs_resolve": False, "same_ids": False, "has_refs": False, "ref_paths": [], "inst_paths": [], "rep_relative": 0}
        try:
            x = s.to_xml(validate=False, pretty_print=False)
            root = project.parse(x)
            if job.get("both_modes"):
                # the pretty rendering of the same object at the same moment is the same document

                def st(e):
                    return (e.tag, tuple(sorted(e.attrib.items())), (e.text or "").strip(), tuple(st(k) for k in e))

                ev["modes_agree"] = st(project.parse(s.to_xml(validate=False, pretty_print=True))) == st(root)
            inst = [tuple(n["p"]) for n in project.instance_preorder(root) if not n["tmpl"]]
            binds = [b["nodeset"] for b in project.binds(root)]
            refs = [c["ref"] for c in project.body_preorder(root)]
            paths = {"/" + "/".join(p) for p in inst}
            ev["inst_paths"] = [list(p[1:]) for p in inst if len(p) > 1]
            import re as _re
            for b in project.binds(root):
                nm = project.split_path(b["nodeset"])[-1]
                if _re.fullmatch(r"c\d+", nm) and _re.match(r"\s*\.\./b\d+\s*\+ 1", b["attrs"].get("calculate", "")):
                    ev["rep_relative"] += 1
                if _re.fullmatch(r"r\d+", nm) and "calculate" in b["attrs"]:
                    m = _re.match(r"\s*(/[\w/.\-]+)\s*\+ 1", b["attrs"]["calculate"])
                    ev["ref_paths"].append(project.split_path(m.group(1))[1:] if m else ["?" + b["attrs"]["calculate"]])
            ev["required_on"] = [project.split_path(b["nodeset"])[1:] for b in project.binds(root) if "required" in b["attrs"]]
            ev.update(unique_siblings=len(inst) == len(set(inst)), binds_once=len(binds) == len(set(binds)), controls_once=len(refs) == len(set(refs)),
                      closure=all(b in paths for b in binds) and all(r in paths for r in refs))
            if tr:
                from harness import itextgen

                f = itextgen.observe_free(x)
                ids = {L: set(v) for L, v in f["ids"]}
                ev.update(refs_resolve=all(r in ids[L] for r in f["refs"] for L in ids), same_ids=len({frozenset(v) for v in ids.values()}) <= 1,
                          has_refs=len(f["refs"]) >= 3 and len(ids) == 2)
        except PyXFormError:
            ev["outcome"] = "rejected"
        except Exception as e:  # noqa: BLE001
            ev["outcome"] = "crash:" + type(e).__name__
        trace.append(ev)
    return {"hist": job["hist"], "inspect": bool(job.get("inspect")), "trace": trace}


def part_histories(rep, prop=None):
    """prop None/"C02": structural closure of every render; "C07": the same histories on translated elements, itext closure of every render"""
    from harness import conv

    prop = prop or PROP

    n = 5 if rep.tier == "quick" else 6
    so_cfg = SO_CFG.replace("WithRefs = FALSE", "WithRefs = TRUE") if prop == "C03" else SO_CFG
    if prop in ("C02", "C03"):
        so_cfg = so_cfg.replace("WithMove = FALSE", "WithMove = TRUE")
    cfg = corpus._cfg("Gen_SurveyObject.cfg", "SPECIFICATION SOSpec\n" + so_cfg % n + "INVARIANT AcceptedMeansUnambiguous\nINVARIANT AcceptedMeansReferencesResolve\nCONSTRAINT Emit\nCHECK_DEADLOCK FALSE\n")
    cases, r = tlc.generate("Gen_SurveyObject", cfg, tag="genso", timeout=900)
    rep.add_mc(r, f"SurveyObject: histories of <= {n} builder-API operations (add child to root/group, render) on one Survey object; AcceptedMeansUnambiguous")
    hists = [c for c in cases if sum(1 for h in c["hist"] if h[0] == "render") >= 1]
    if prop == "C03":
        hists = [c for c in hists if any(h[0] == "add_ref" for h in c["hist"])]
    hists = corpus.pick(hists, 1500 if rep.tier == "quick" else 20000, rep.seed)
    rep.bounds["survey_object_histories"] = {"max_ops": n, "replayed": len(hists)}
    outs = conv.map_cases(_run_history, [{"hist": h["hist"], "inspect": h.get("inspect", False), "translated": prop == "C07", "both_modes": prop == "C15"} for h in hists], chunksize=16)
    for o in outs:
        if o.get("status") == "harness_error":
            raise tlc.MachineryError(o["message"] + "\n" + o.get("tb", ""))
    tcfg = corpus._cfg("Trace_SurveyObject.cfg", "SPECIFICATION TSpec\n" + so_cfg % n + "CONSTRAINT Accepted\nCHECK_DEADLOCK FALSE\n")
    acc, info = tlc.validate_traces("Trace_SurveyObject", tcfg, [o["trace"] for o in outs], shards=6, env={"PROP": prop}, tag="trso")
    rep.traces_validated += len(acc)
    rep.extra.setdefault("trace_runs", []).append({"source": "Survey-object histories (render / mutate / render)", "traces": len(outs), "accepted": len(acc), "wall_s": round(info["wall"], 1)})
    for i, o in enumerate(outs):
        rep.case({"history": o["hist"], "inspect": o["inspect"]})
        if i not in acc:
            l, clause = info["progress"].get(i, (0, "unexplained_event"))
            rep.violation(f"{prop}:history:{clause}", f"clause {clause} at step {l}; history={o['hist']} inspect={o['inspect']} events={o['trace']}"[:600],
                          {"history": o["hist"], "inspect": o["inspect"], "clause": clause, "translated": prop == "C07"})
    import copy
    base = next(o for i, o in enumerate(outs) if i in acc and any(e["op"] == "render" and e["outcome"] == "rejected" for e in o["trace"]))
    t = copy.deepcopy(base["trace"])
    e = next(e for e in t if e["op"] == "render" and e["outcome"] == "rejected")
    e.update(outcome="ok", unique_siblings=True, binds_once=True, controls_once=True, closure=True, refs_resolve=True, same_ids=True, has_refs=True)
    cans = [t]
    if prop == "C07":
        b2 = next(o for i, o in enumerate(outs) if i in acc and sum(1 for e in o["trace"] if e["op"] == "render" and e["outcome"] == "ok") >= 2)
        t2 = copy.deepcopy(b2["trace"])
        [e for e in t2 if e["op"] == "render" and e["outcome"] == "ok"][-1]["refs_resolve"] = False
        cans.append(t2)
    if prop == "C03":
        b5 = next(o for i, o in enumerate(outs) if i in acc and o["trace"][-1]["op"] == "render" and o["trace"][-1]["outcome"] == "ok" and o["trace"][-1]["ref_paths"])
        t5 = copy.deepcopy(b5["trace"])
        t5[-1]["ref_paths"][0] = ["grp"] + t5[-1]["ref_paths"][0]
        cans.append(t5)
    if prop == "C15":
        b4 = next(o for i, o in enumerate(outs) if i in acc and sum(1 for e in o["trace"] if e["op"] == "render" and e["outcome"] == "ok") >= 2)
        t4 = copy.deepcopy(b4["trace"])
        [e for e in t4 if e["op"] == "render" and e["outcome"] == "ok"][-1]["modes_agree"] = False
        cans.append(t4)
    if prop == "C05":
        # an attribute given to one question showing up on another question's bind as well
        b3 = next(o for i, o in enumerate(outs) if i in acc and any(e["op"] == "mark" for e in o["trace"]) and o["trace"][-1]["op"] == "render" and o["trace"][-1]["outcome"] == "ok"
                  and o["trace"][-1]["required_on"])
        t3 = copy.deepcopy(b3["trace"])
        t3[-1]["required_on"].append(["grp", "g0"])
        cans.append(t3)
    a, _ = tlc.validate_traces("Trace_SurveyObject", tcfg, cans + [base["trace"]], shards=1, env={"PROP": prop}, tag="canso")
    if any(i in a for i in range(len(cans))) or len(cans) not in a:
        raise tlc.MachineryError("survey-object canary failure")
    rep.extra.setdefault("canaries_rejected", []).append("ambiguous_tree_rendered_after_an_earlier_render")
    if prop == "C07":
        rep.extra["canaries_rejected"].append("dangling_itext_reference_after_a_second_render")
    if prop == "C05":
        rep.extra["canaries_rejected"].append("logic_attribute_leaked_to_another_bind")
    if prop == "C03":
        rep.extra["canaries_rejected"].append("reference_to_the_node_of_an_earlier_tree")
    if prop == "C15":
        rep.extra["canaries_rejected"].append("pretty_rendering_of_an_earlier_state")
