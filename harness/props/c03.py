"""C03 - ${name} references become XPaths that reach the named question's node."""

from __future__ import annotations

import random

from harness import corpus, tlc
from harness.props import _rp

PROP = "C03"
SECT = {"g": "group", "r": "repeat"}


def layout_form(L, variant=0, seed=0):
    """One form per layout: the referrer position holds one row per reference-bearing cell kind."""
    rnd = random.Random(f"{seed}:{L}:{variant}")
    cols = ["type", "name", "label", "hint", "relevant", "constraint", "constraint_message", "required", "required_message",
            "read_only", "calculation", "default", "choice_filter", "repeat_count", "trigger", "parameters", "guidance_hint"]
    rows = []

    def add(**kw):
        rows.append(kw)

    def begin(kind, name):
        add(type=f"begin {SECT[kind]}", name=name, label=f"S {name}")

    def end(kind):
        add(type=f"end {SECT[kind]}")

    t = "${target}"
    tgt_in_repeat = "r" in L["tb"] or "r" in L["c"]
    # how the sections of the two branches are called: unrelated names, or names of which one is a string prefix of the other
    # at every level (s1 / s12) - paths are sequences of names, not strings
    scheme = variant // 4 % 3
    An = (lambda i: f"a{i}") if scheme == 0 else (lambda i: f"s{i}2") if scheme == 1 else (lambda i: f"s{i}")
    Bn = (lambda i: f"b{i}") if scheme == 0 else (lambda i: f"s{i}") if scheme == 1 else (lambda i: f"s{i}2")

    def referrers():
        for i, k in enumerate(L["rb"], 1):
            begin(k, An(i))
        own = An(len(L["rb"])) if L["rb"] else (f"c{len(L['c'])}" if L["c"] else None)
        if own and variant >= 4:
            # a reference to the section the referrer itself stands in (e.g. count(${section}))
            add(type="calculate", name="ref_own_section", calculation=f"count(${{{own}}}) + {t}")
        add(type="text", name="referrer", label=f"R {t}", relevant=f"{t} = 1")
        add(type="integer", name="ref_constraint", label="RC", constraint=f". != {t}", constraint_message=f"not {t} please")
        add(type="calculate", name="ref_calc", calculation=f"{t} + 1")
        add(type="text", name="ref_required", label="RR", required=f"{t} = 2", required_message=f"need {t}")
        add(type="text", name="ref_readonly", label="RO", read_only=f"{t} = 3")
        add(type="text", name="ref_default", label="RD", default=f"{t}")
        add(type="text", name="ref_hint", label="RH", hint=f"hint {t} end", guidance_hint=f"guide {t}")
        add(type="select_one L", name="ref_filter", label="RF", choice_filter=f"grp = {t}")
        add(type="select_one L", name="ref_seed", label="RS", parameters=f"randomize=true seed={t}")
        # a select_one_external's filter is a predicate over a secondary instance too (its list arrives in itemsets.csv)
        add(type="select_one_external X", name="ref_extfilter", label="RX", choice_filter=f"state = {t}")
        add(type="calculate", name="ref_two", calculation=f"{t} + ${{referrer}} + {t}")
        add(type="calculate", name="ref_inst", calculation=f"instance('L')/root/item[name = {t}]/label")
        add(type="text", name="ref_lastsaved", label="RL", default="${last-saved#target}")
        add(type="calculate", name="ref_ls_mixed", calculation=f"${{last-saved#target}} + {t} + ${{last-saved#target}}")
        add(type="text", name="ref_trig", label="RT", trigger=t, calculation=f"concat({t}, 'x')")
        if variant % 2 == 0:
            add(type="begin group", name="ref_group", label=f"RG {t}", relevant=f"{t} = 4")
            add(type="text", name="ref_in_group", label="RIG", relevant=f"{t} = 5")
            add(type="end group")
        else:
            add(type="begin repeat", name="ref_repeat", label="RRp", repeat_count=t if rnd.random() < 0.5 else f"{t} + 1")
            add(type="text", name="ref_in_repeat", label="RIR", relevant=f"{t} = 6")
            add(type="end repeat")
        if tgt_in_repeat:
            # innermost repeat enclosing the target
            chain = [(k, f"c{i}") for i, k in enumerate(L["c"], 1)] + [(k, Bn(i)) for i, k in enumerate(L["tb"], 1)]
            rep = [n for k, n in chain if k == "r"][-1]
            add(type="calculate", name="ref_ir", calculation=f"indexed-repeat({t}, ${{{rep}}}, 1)")
            add(type="calculate", name="ref_ir2", calculation=f"{t} + indexed-repeat({t}, ${{{rep}}}, position(..))")
            # several indexed-repeat() calls in one expression, with plain references before, between and after them
            add(type="calculate", name="ref_ir3", calculation=f"indexed-repeat({t}, ${{{rep}}}, 1) + indexed-repeat({t}, ${{{rep}}}, 2) + {t}")
            add(type="calculate", name="ref_ir4", calculation=f"{t} + indexed-repeat({t}, ${{{rep}}}, 1) + {t} + indexed-repeat({t}, ${{{rep}}}, 2)")
            # a last-saved reference before, after and inside an indexed-repeat() call of the same expression
            add(type="calculate", name="ref_ir_ls", calculation=f"${{last-saved#target}} + indexed-repeat({t}, ${{{rep}}}, 1) + ${{last-saved#target}}")
            add(type="calculate", name="ref_ir_ls2", calculation=f"indexed-repeat(${{last-saved#target}}, ${{{rep}}}, 1) + {t}")
            # two and three (repeat, index) pairs: every repeat argument is absolute
            allreps = [n for k, n in chain if k == "r"]
            if len(allreps) >= 2:
                add(type="calculate", name="ref_ir5", calculation=f"indexed-repeat({t}, ${{{allreps[-2]}}}, 1, ${{{allreps[-1]}}}, 2)")
            if len(allreps) >= 3:
                add(type="calculate", name="ref_ir6", calculation=f"indexed-repeat({t}, ${{{allreps[-3]}}}, 1, ${{{allreps[-2]}}}, 2, ${{{allreps[-1]}}}, 1)")
        for k in reversed(L["rb"]):
            end(k)

    def target():
        for i, k in enumerate(L["tb"], 1):
            begin(k, Bn(i))
        add(type="integer", name="target", label="T")
        for k in reversed(L["tb"]):
            end(k)

    for i, k in enumerate(L["c"], 1):
        begin(k, f"c{i}")
    if variant // 2 % 2 == 0:
        target()
        referrers()
    else:
        referrers()
        target()
    for k in reversed(L["c"]):
        end(k)
    # the same reference-bearing guidance text on a second referrer at the top level (texts that go through itext must be
    # resolved per referrer, not per text) -- only when the target is reachable from the top level by an absolute path
    add(type="text", name="top_same", label="TS", guidance_hint=f"guide {t}")
    # names of repeats that nothing references by name are legal question names elsewhere in the form
    referenced = set()
    if tgt_in_repeat:
        chain = [(k, f"c{i}") for i, k in enumerate(L["c"], 1)] + [(k, Bn(i)) for i, k in enumerate(L["tb"], 1)]
        referenced.add([n for k, n in chain if k == "r"][-1])
    if variant >= 4:
        referenced.add(An(len(L["rb"])) if L["rb"] else (f"c{len(L['c'])}" if L["c"] else ""))
    reps = [f"c{i}" for i, k in enumerate(L["c"], 1) if k == "r"] + [An(i) for i, k in enumerate(L["rb"], 1) if k == "r"] + [Bn(i) for i, k in enumerate(L["tb"], 1) if k == "r"]
    dups = [n for n in reps if n not in referenced]
    if dups and variant % 2 == 0:
        begin("g", "homonyms")
        for n in dups:
            add(type="note", name=n, label=f"same name as repeat {n}")
        end("g")
    survey = {"name": "survey", "header": cols, "rows": [[r.get(c) for c in cols] for r in rows]}
    choices = {"name": "choices", "header": ["list_name", "name", "label", "grp"],
               "rows": [["L", "l1", "One", "1"], ["L", "l2", "Two", "2"]]}
    ext = {"name": "external_choices", "header": ["list_name", "name", "label", "state"], "rows": [["X", "x1", "X1", "1"], ["X", "x2", "X2", "2"]]}
    return {"sheets": [survey, choices, ext]}


def error_forms():
    """Unknown and ambiguous names (2..5 elements sharing the name) must fail the conversion with an error naming them."""
    out = []
    for ndup in (2, 3, 4, 5):
        base = [["text", "q1", "Q1", None]]
        for i in range(1, ndup + 1):
            base += [["begin group", f"g{i}", f"G{i}", None], ["text", "dup", f"D{i}", None], ["end group", None, None, None]]
        for col in ("relevant", "label", "calculation", "default", "constraint", "hint"):
            for nm in ("nope", "dup"):
                if nm == "nope" and ndup > 2:
                    continue
                rows = [list(r) for r in base]
                hdr = ["type", "name", "label", col] if col != "label" else ["type", "name", "label", "relevant"]
                cell = "${%s}" % nm if col in ("default",) else ("x ${%s} y" % nm if col in ("label", "hint") else "${%s} = 1" % nm)
                if col == "label":
                    rows.append(["text", "user", cell, None])
                elif col == "calculation":
                    rows.append(["calculate", "user", None, cell])
                else:
                    rows.append(["text", "user", "U", cell])
                out.append(({"sheets": [{"name": "survey", "header": hdr, "rows": rows}]}, nm, f"{col}/{ndup}"))
    return out


def run(rep):
    rep.rule = ("TLC (MC_Refs) enumerates every layout of common ancestors (<=3) x referrer branch (<=2) x target branch (<=2), "
                "each step group|repeat; each layout is rendered as forms whose referrer position carries ${target} in every "
                "reference-bearing cell kind (relevant, constraint(+message), calculation, required(+message), read only, dynamic "
                "default, label, hint, guidance, choice_filter, seed parameter, instance() predicate, indexed-repeat, last-saved, "
                "trigger, group relevant, repeat_count); every substitution performed by the real code is a `ref` event validated "
                "by TLC against the envelope in Refs.tla on the specification's own tree. Non-trivial = form accepted with >=1 ref event.")
    rep.assumptions = [
        "the emitted replacement is parsed into (abs, up, path, current(), instance) by harness/abstract.parse_ref_output",
        "absolute paths are accepted wherever the must-be-relative rule does not apply; extra '..' steps that still resolve are accepted",
        "indexed-repeat() arguments and last-saved references are exempt from the must-be-relative rule",
    ]
    cases, r = tlc.generate("MC_Refs", corpus._cfg(
        "MC_Refs.cfg",
        "SPECIFICATION Spec\nCONSTANT MaxCommon = %d\nCONSTANT MaxBranch = %d\nINVARIANT CanonicalAlwaysOK\nINVARIANT AbsoluteOKIffFree\n"
        "INVARIANT MustBeRelativeIffCommonRepeat\nINVARIANT NamesUnique\nCONSTRAINT Emit\nCHECK_DEADLOCK FALSE\n"
        % ((3, 2) if rep.tier == "quick" else (4, 3))), tag="mcrefs")
    rep.add_mc(r, "MC_Refs: envelope satisfiable / canonical relative path OK / absolute OK iff not must-be-relative, all layouts")
    rep.bounds["layouts"] = {"count": len(cases), "must_be_relative": sum(1 for c in cases if c["must"])}
    rep.exhaustive = True
    variants = list(range(12)) if rep.tier == "thorough" else None
    jobs = []
    for i, L in enumerate(cases):
        vs = variants if variants is not None else [i % 4, 4 + (i * 7 + i // 4) % 8]
        for v in vs:
            jobs.append({"wb": layout_form(L, v, rep.seed), "fmt": "dict", "refs": True, "tag": {"layout": L, "variant": v}, "shapes": [L, v]})
    for wb, nm, col in error_forms():
        jobs.append({"wb": wb, "fmt": "dict", "refs": True, "tag": {"error_form": nm, "col": col}, "shapes": ["err", nm, col]})
    outs = corpus.run_forms(jobs)
    nref = 0
    for o in outs:
        if o.get("status") == "harness_error":
            raise tlc.MachineryError(o.get("message") + "\n" + o.get("tb", ""))
        nref += sum(1 for e in o["trace"] if e["ev"] == "ref")
        if o["tag"] and "error_form" in o["tag"]:
            res = o["res"]
            if not (res["status"] == "pyxform_error" and o["tag"]["error_form"] in res.get("message", "")):
                rep.violation(f"{PROP}:bad_reference_not_named", f"reference to {o['tag']} gave {res['status']}: {res.get('message')}",
                              {"wb": o["wb"], "tag": o["tag"]})
    rep.extra["ref_events"] = nref
    sub, acc, rejected = _rp.validate(rep, PROP, outs, "layout forms")
    rep.extra["layout_forms_accepted"] = sum(1 for o in sub if o["res"]["status"] == "ok")
    for o, l, clause in rejected:
        ev = o["trace"][l - 1] if 0 < l <= len(o["trace"]) else {}
        rep.violation(f"{PROP}:{clause}", f"trace rejected at event {l} clause {clause}; case={o['tag']} event={str(ev)[:300]}",
                      {"tag": o["tag"], "clause": clause, "event": l, "ev": ev, "wb": o["wb"]})
    for o in sub[100:102]:
        rep.sample({"layout": o["tag"], "ref_events": [e for e in o["trace"] if e["ev"] == "ref"][:4]})
    # canaries: one '..' short / absolute where relative is required / event removed
    import copy
    base = next(o for i, o in enumerate(sub) if i in acc and o["tag"] and "layout" in o["tag"] and o["tag"]["layout"]["must"]
                and any(e["ev"] == "ref" and not e["e"]["abs"] for e in o["trace"]))
    cans = []
    t1 = copy.deepcopy(base["trace"])
    e = next(e for e in t1 if e["ev"] == "ref" and not e["e"]["abs"] and e["e"]["up"] > 0)
    e["e"]["up"] -= 1
    cans.append(("one_step_short", t1))
    t2 = copy.deepcopy(base["trace"])
    e = next(e for e in t2 if e["ev"] == "ref" and not e["e"]["abs"] and e["name"] == "target" and not e["in_ir"])
    e["e"] = {"abs": True, "up": 0, "path": ["c1", "target"] if False else e["ctx"][:0] + [], "cur": False, "inst": ""}
    # absolute path to the right node where the envelope demands a relative one
    from harness import abstract  # noqa: F401
    tgt = [n for n in base["trace"] if n["ev"] == "ref" and n["name"] == "target" and n["e"]["abs"]]
    L = base["tag"]["layout"]
    e["e"]["path"] = [f"c{i}" for i in range(1, len(L["c"]) + 1)] + [f"b{i}" for i in range(1, len(L["tb"]) + 1)] + ["target"]
    cans.append(("absolute_where_relative_required", t2))
    t3 = [x for x in copy.deepcopy(base["trace"]) if not (x["ev"] == "ref" and x["name"] == "target")]
    cans.append(("ref_events_removed", t3))
    t4 = copy.deepcopy(base["trace"])
    o = next(o for o in t4[-1]["outrefs"] if not o["e"]["abs"])
    o["e"]["up"] += 1
    cans.append(("emitted_path_one_step_off", t4))
    t5 = copy.deepcopy(base["trace"])
    o = next(o for o in t5[-1]["outrefs"] if o["e"]["path"] and o["e"]["path"][-1] == "target")
    o["e"]["path"][-1] = "referrer"
    cans.append(("emitted_path_reaches_another_question", t5))
    # the output alone shows an absolute path where the target's innermost repeat also encloses the expression's node
    t6 = copy.deepcopy(base["trace"])
    o = next(o for o in t6[-1]["outrefs"] if not o["e"]["abs"] and o["e"]["path"] and o["e"]["path"][-1] == "target" and not o.get("in_ir"))
    o["e"] = {"abs": True, "up": 0, "path": e["e"]["path"], "cur": False, "inst": ""}
    cans.append(("emitted_absolute_where_relative_required", t6))
    a, info = tlc.validate_traces(_rp.TRACE_MOD, _rp.TRACE_CFG, [c[1] for c in cans] + [base["trace"]], shards=1, env={"PROP": PROP}, tag="canary")
    wrongly = [cans[i][0] for i in a if i < len(cans)]
    if wrongly or len(cans) not in a:
        raise tlc.MachineryError(f"canary failure: accepted {wrongly}; control accepted={len(cans) in a}")
    rep.extra["canaries_rejected"] = [c[0] for c in cans]
    # every substitution the frozen test-suite corpus triggers (hook events; output-side clauses are for the generator's own forms)
    _rp.corpus_part(rep, PROP, refs=True)
    # the lexical side: which texts are references at all (RefSyntax.tla) - well-formed references are accepted and each one substituted
    from harness.props import _refsyntax

    _refsyntax.part(rep, PROP)
    # references on a long-lived Survey object changed through the builder API between renders (SurveyObject.tla: AddRef)
    from harness.props import c02

    c02.part_histories(rep, PROP)
    # instance() expressions inside label text (InstanceExpr.tla), this property's clauses
    from harness.props import _instexpr

    _instexpr.run(rep, PROP)


def replay(rep, case):
    c = case["case"]
    if c.get("instexpr"):
        from harness.props import _instexpr

        return _instexpr.replay(rep, PROP, c)
    if c.get("refsyntax"):
        from harness.props import _refsyntax

        return _refsyntax.replay(rep, PROP, c)
    if c.get("history") is not None:
        from harness.props import c02

        return c02.replay_history(rep, PROP, c)
    outs = corpus.run_forms([{"wb": c["wb"], "fmt": "dict", "refs": True, "tag": c.get("tag"), "shapes": ["replay"]}])
    sub, acc, rejected = _rp.validate(rep, PROP, outs, "replay")
    for o, l, clause in rejected:
        rep.violation(f"{PROP}:{clause}", f"trace rejected at event {l} clause {clause}", c)
    rep.sample({"tag": c.get("tag")})
