"""C20 - advisory warnings fire exactly when their trigger is present."""

from __future__ import annotations

import copy
import random

from harness import conv, corpus, tlc

PROP = "C20"
TRACE_CFG = 'SPECIFICATION TSpec\nCONSTANT MaxHeaders = 0\nCONSTANT MaxTriggers = 0\nCONSTANT Part = "trace"\nCONSTRAINT Accepted\nCHECK_DEADLOCK FALSE\n'


def _conv_both(wb, fmt):
    """convert twice: with and without a caller-supplied warnings list (advisory-only clause)"""
    from harness import render

    inp, kw = render.render(wb, fmt)
    a = conv.convert_case({"input": inp, "kwargs": kw, "events": False, "pass_warnings": True})
    inp, kw = render.render(wb, fmt)
    b = conv.convert_case({"input": inp, "kwargs": kw, "events": False})
    same = a["status"] == b["status"] and a.get("xform") == b.get("xform")
    return a, same


def _run(job):
    from harness import warngen

    kind = job["kind"]
    fmt = job.get("fmt", "dict")
    if kind == "trans":
        wb = warngen.build_trans(job["case"])
        src = {"sh": job["case"]["sh"], "ch": job["case"]["ch"], "other": job["case"]["other"]}
    elif kind == "rows":
        wb = warngen.build_rows(job["case"])
        src = {"trig": job["case"]["trig"], "blanks": job["case"]["blanks"]}
    elif kind == "sheetname":
        wb = warngen.build_sheetname(job["target"], job["name"])
        low = job["name"].lower()
        src = {"lname": [ord(c) for c in low], "target": [ord(c) for c in job["target"]], "supported": job["name"] in warngen.SUPPORTED,
               "underscore": job["name"].startswith("_"), "name": job["name"], "tname": job["target"]}
    else:
        wb = job["wb"]
        src = job["src"]
    if kind == "trans" and not job["case"]["other"]:
        # what an earlier conversion in the same process saw must not matter: the twin workbook (same headers, with or_other) is converted first
        from harness import render

        inp, kw = render.render(warngen.build_trans({**job["case"], "other": True}), fmt)
        conv.convert_case({"input": inp, "kwargs": kw, "events": False})
    res, same = _conv_both(wb, fmt)
    warn, missing, similar, bad = warngen.classify(res.get("warnings") or [])
    obs = {"warn": warn, "missing": missing, "same_xform": same, "similar": False, "names_it": False, "bad": bad}
    if kind == "sheetname":
        similar = [x for x in similar + warngen.similar_notice(res.get("message") or "") if x[0] == job["target"]]
        obs["similar"] = bool(similar)
        obs["names_it"] = [job["target"], job["name"]] in similar
    ev = {"ev": {"trans": "trans", "rows": "rows", "sheetname": "sheetname", "iana": "iana"}[kind], "status": res["status"], "src": src, "obs": obs}
    return {"job": {k: v for k, v in job.items() if k != "wb"}, "fmt": fmt, "wb": wb, "res": {k: v for k, v in res.items() if k not in ("events", "xform")}, "trace": [ev]}


def _iana_jobs(seed):
    import os
    import re

    base = os.path.join(os.environ.get("VERIF_REPO", "/repo"), "pyxform/validators/pyxform/iana_subtags")
    tags = set()
    for f in ("iana_subtags_2_characters.txt", "iana_subtags_3_or_more_characters.txt"):
        tags |= {l.strip() for l in open(os.path.join(base, f), encoding="utf-8")}
    rnd = random.Random(f"iana:{seed}")
    pool = ["English (en)", "French (fr)", "English", "en", "English(en)", "English (xx)", "Zzz (zzzz)", "ab", "(en)", "Español (es)", "Lang (en-GB)",
            "Klingon (tlh)", "X (e n)", "Swahili (sw) ", "E (en) x", "中文 (zh)", "A (EN)", "Deutsch (de)", "xy", "a()"]
    pool += [f"L{i} ({rnd.choice(sorted(tags))})" for i in range(6)] + [f"M{i} ({''.join(rnd.choice('qxzjv') for _ in range(rnd.randint(2, 4)))})" for i in range(6)]
    jobs = []
    for i in range(60):
        langs = rnd.sample(pool, rnd.randint(1, 3))
        langs = [l.strip() for l in langs]
        cols = ["type", "name"] + [f"label::{l}" for l in langs] + (["label"] if i % 3 == 0 else [])
        wb = {"sheets": [{"name": "survey", "header": cols, "rows": [["text", "q1"] + [f"t{j}" for j in range(len(cols) - 2)]]}]}
        # a declared default language is a language like any other (its name still needs a code); the unsuffixed column then belongs to it
        dl = langs[0] if i % 4 == 1 else None
        if dl:
            wb["sheets"].append({"name": "settings", "header": ["default_language"], "rows": [[dl]]})
        names = list(langs) + (["default"] if i % 3 == 0 and not dl else [])
        facts = []
        for n in names:
            m = re.search(r"\((.*)\)$", n)
            facts.append({"name": n, "len": len(n), "has_code": bool(m), "code_valid": bool(m) and m.group(1) in tags})
        jobs.append({"kind": "iana", "wb": wb, "src": {"langs": facts}, "fmt": "dict"})
    return jobs


def run(rep):
    from harness import warngen

    rep.rule = ("(a) TLC (Gen_Warnings, Part=trans) enumerates every set of <= N translatable headers over survey (label, hint, guidance_hint, "
                "constraint_message, image) and choices (label, image, audio) x languages (unsuffixed, A, B), with/without or_other; TLC computes the "
                "expected (sheet, language, column) triples and compares with the parsed warning text. (b) every string within edit radius 3 of settings/entities (hash-sampled to 1,500 each in quick) and radius 1-2 of "
                "choices/survey/external_choices (plus case, underscore-prefixed and supported-name variants) as the name "
                "of an extra sheet while the target sheet is missing; TLC computes the Levenshtein distance (Warnings.tla Lev) and decides whether the "
                "similar-name notice must appear. (c) 60 language-label sets; expected bad-code list from the label shape and the IANA files. (d) TLC "
                "(Part=rows) enumerates every set of <= N of 10 row/header-level triggers x 0-2 leading blank rows; expected (kind,row) set computed by "
                "TLC. (e) every case is converted with and without a caller-supplied warnings list and the XForms must be identical.")
    rep.assumptions = ["warning texts are classified by harness/warngen.classify (regular expressions on the message wording)",
                       "IANA membership is read from the repository's two subtag files (input data, not code)"]
    nh, nt, radius = (3, 3, 3) if rep.tier == "quick" else (4, 4, 3)
    r = tlc.model_check("Gen_Warnings", corpus._cfg("MC_Warnings.cfg", 'SPECIFICATION WSpec\nCONSTANT MaxHeaders = 2\nCONSTANT MaxTriggers = 2\nCONSTANT Part = "rows"\nCHECK_DEADLOCK FALSE\n'),
                        workers=4, required_actions=("AddTrigger", "Finish"), tag="mcwarn")
    rep.add_mc(r, "Warnings: ASSUME Lev symmetric / identity / bounds / triangle on all strings <=3 over 2 letters; generator reachable")
    jobs = []
    cases, g = tlc.generate("Gen_Warnings", corpus._cfg("Gen_Warnings_t.cfg", f'SPECIFICATION WSpec\nCONSTANT MaxHeaders = {nh}\nCONSTANT MaxTriggers = 0\nCONSTANT Part = "trans"\nCONSTRAINT Emit\nCHECK_DEADLOCK FALSE\n'), tag="genwt", timeout=900)
    rep.add_mc(g, f"Gen_Warnings trans: header sets <= {nh}")
    for c in cases:
        c["sh"], c["ch"] = sorted(c["sh"]), sorted(c["ch"])
    lim = 6000 if rep.tier == "quick" else 60000
    sel = corpus.pick(cases, lim, rep.seed)
    rep.bounds["translations"] = {"max_headers": nh, "cases": len(cases), "replayed": len(sel)}
    jobs += [{"kind": "trans", "case": c, "fmt": "md" if i % 7 == 0 else "dict"} for i, c in enumerate(sel)]
    cases, g = tlc.generate("Gen_Warnings", corpus._cfg("Gen_Warnings_r.cfg", f'SPECIFICATION WSpec\nCONSTANT MaxHeaders = 0\nCONSTANT MaxTriggers = {nt}\nCONSTANT Part = "rows"\nCONSTRAINT Emit\nCHECK_DEADLOCK FALSE\n'), tag="genwr", timeout=900)
    rep.add_mc(g, f"Gen_Warnings rows: trigger sets <= {nt} x blanks 0..2")
    for c in cases:
        c["trig"] = sorted(c["trig"])
    rep.bounds["row_triggers"] = {"max_triggers": nt, "cases": len(cases)}
    jobs += [{"kind": "rows", "case": c, "fmt": ("xlsx" if i % 41 == 0 else "dict") if c["blanks"] else ("md" if i % 5 == 0 else "dict")} for i, c in enumerate(cases)]
    nname = 0
    for target in ("settings", "entities", "choices", "survey", "external_choices"):
        rad = 3 if target in ("settings", "entities") else (1 if rep.tier == "quick" else 2)
        names = sorted(warngen.edit_neighbourhood(target, rad))
        if len(names) > (1500 if rep.tier == "quick" else 40000):
            names = corpus.pick(names, 1500 if rep.tier == "quick" else 40000, rep.seed)
        names += [target.upper(), target.capitalize(), "_" + target[:-1], "_" + target, target[:-1].upper()] + [s for s in warngen.SUPPORTED if s != target]
        for nm in names:
            if nm == target or not nm.strip() or nm != nm.strip() or nm.lower() == target:
                continue
            jobs.append({"kind": "sheetname", "target": target, "name": nm, "fmt": "dict"})
            nname += 1
    rep.bounds["sheet_names"] = {"radius": radius, "cases": nname}
    ij = _iana_jobs(rep.seed)
    jobs += ij
    outs = conv.map_cases(_run, jobs, chunksize=16)
    for o in outs:
        if o.get("status") == "harness_error":
            raise tlc.MachineryError(o["message"] + "\n" + o.get("tb", ""))
    cfg = corpus._cfg("Trace_Warnings.cfg", TRACE_CFG)
    acc, info = tlc.validate_traces("Trace_Warnings", cfg, [o["trace"] for o in outs], shards=12, tag="trc20")
    rep.traces_validated += len(acc)
    rep.extra.setdefault("trace_runs", []).append({"source": "all four parts", "traces": len(outs), "accepted": len(acc), "tlc_states": info["distinct"], "wall_s": round(info["wall"], 1)})
    nsim = sum(1 for o in outs if o["job"]["kind"] == "sheetname" and o["trace"][0]["obs"]["similar"])
    rep.extra["sheetname_notices_observed"] = nsim
    for i, o in enumerate(outs):
        rep.case(o["job"], nontrivial=True)
        if i in acc:
            continue
        l, clause = info["progress"].get(i, (0, "unexplained_event"))
        res = o["res"]
        sig = f"{PROP}:crash:{res.get('errclass')}@{res.get('frame')}" if res["status"] == "crash" else f"{PROP}:{o['job']['kind']}:{clause}"
        rep.violation(sig, f"clause {clause}; job={o['job']} status={res['status']} {res.get('message') or ''} warnings={res.get('warnings')} obs={o['trace'][0]['obs']}"[:900],
                      {"job": o["job"], "clause": clause, "wb": o["wb"], "obs": o["trace"][0]["obs"], "src": o["trace"][0]["src"], "warnings": res.get("warnings")})
    for k in ("trans", "rows", "sheetname", "iana"):
        o = next((x for x in outs if x["job"]["kind"] == k and (x["res"].get("warnings"))), None)
        if o:
            rep.sample({"part": k, "src": o["trace"][0]["src"] if k != "sheetname" else {"name": o["job"]["name"], "target": o["job"]["target"]}, "warnings": o["res"].get("warnings"), "obs": o["trace"][0]["obs"]}, limit=6)
    ok = [o for i, o in enumerate(outs) if i in acc]
    cans = []
    b = next(o for o in ok if o["job"]["kind"] == "trans" and len(o["trace"][0]["obs"]["missing"]) >= 2)
    t = copy.deepcopy(b["trace"]); t[0]["obs"]["missing"] = t[0]["obs"]["missing"][1:]; cans.append(("missing_translation_not_reported", t))
    t = copy.deepcopy(b["trace"]); t[0]["obs"]["missing"].append(["survey", "A", "video"]); cans.append(("missing_translation_invented", t))
    b2 = next(o for o in ok if o["job"]["kind"] == "rows" and len(o["trace"][0]["obs"]["warn"]) >= 2)
    t = copy.deepcopy(b2["trace"]); t[0]["obs"]["warn"][0][1] += 1; cans.append(("warning_row_off_by_one", t))
    t = copy.deepcopy(b2["trace"]); t[0]["obs"]["warn"] = t[0]["obs"]["warn"][1:]; cans.append(("warning_suppressed", t))
    t = copy.deepcopy(b2["trace"]); t[0]["obs"]["same_xform"] = False; cans.append(("warning_list_changes_output", t))
    b3 = next(o for o in ok if o["job"]["kind"] == "sheetname" and o["trace"][0]["obs"]["similar"])
    t = copy.deepcopy(b3["trace"]); t[0]["obs"]["similar"] = False; cans.append(("similar_sheet_not_reported", t))
    b4 = next(o for o in ok if o["job"]["kind"] == "sheetname" and not o["trace"][0]["obs"]["similar"] and not o["trace"][0]["src"]["supported"] and not o["trace"][0]["src"]["underscore"])
    t = copy.deepcopy(b4["trace"]); t[0]["obs"]["similar"] = True; t[0]["obs"]["names_it"] = True; cans.append(("distant_sheet_reported", t))
    b5 = next(o for o in ok if o["job"]["kind"] == "iana" and o["trace"][0]["obs"]["bad"])
    t = copy.deepcopy(b5["trace"]); t[0]["obs"]["bad"] = []; cans.append(("bad_language_code_not_reported", t))
    a, _ = tlc.validate_traces("Trace_Warnings", cfg, [c[1] for c in cans] + [b["trace"]], shards=1, tag="canary")
    wrongly = [cans[i][0] for i in a if i < len(cans)]
    if wrongly or len(cans) not in a:
        raise tlc.MachineryError(f"canary failure: accepted {wrongly}; control accepted={len(cans) in a}")
    rep.extra["canaries_rejected"] = [c[0] for c in cans]
    if nsim == 0 and not rep.violations:      # (with violations recorded, they are the verdict)
        raise tlc.MachineryError("vacuity: no similar-sheet notice observed")
    # the per-type decision table of the parameters cell (TypeParams.tla), this property's clauses
    from harness.props import _typeparams

    _typeparams.run(rep, PROP)


def replay(rep, case):
    c = case["case"]
    if c.get("typeparams"):
        from harness.props import _typeparams

        return _typeparams.replay(rep, PROP, c)
    job = dict(c["job"])
    if job["kind"] == "iana":
        job["wb"] = c["wb"]
        job["src"] = c["src"]
    o = _run(job)
    cfg = corpus._cfg("Trace_Warnings.cfg", TRACE_CFG)
    acc, info = tlc.validate_traces("Trace_Warnings", cfg, [o["trace"]], shards=1, tag="replay")
    rep.traces_validated += len(acc)
    rep.case(c["job"])
    if 0 not in acc:
        l, clause = info["progress"].get(0, (0, "unexplained_event"))
        rep.violation(f"{PROP}:{job['kind']}:{clause}", f"clause {clause}", c)
    rep.sample({"job": c["job"]})
