"""The workbooks the repository's own test-suite converts, frozen as an input corpus (corpus/suite_forms.json.gz, written by
tools/freeze_suite_corpus.py at the pinned commit).  Inputs only: every check that uses them converts them with the tree under
test and judges the result by clauses that need no source-side bookkeeping."""

from __future__ import annotations

import gzip
import json
from pathlib import Path

_PATH = Path(__file__).resolve().parent.parent / "corpus" / "suite_forms.json.gz"
_CACHE = None


def load():
    global _CACHE
    if _CACHE is None:
        with gzip.open(_PATH, "rt", encoding="utf-8") as f:
            _CACHE = json.load(f)
    return _CACHE


def doc_jobs(parts, only_accepted=True):
    """jobs for harness.props._xml.run_doc"""
    out = []
    for i, it in enumerate(load()):
        if only_accepted and it["status_at_freeze"] != "ok":
            continue
        kw = {"form_name": it["form_name"]} if it.get("form_name") else None
        out.append({"wb": it["wb"], "fmt": "dict", "parts": parts, "tag": {"suite_form": i, "test": it.get("test")}, "kwargs": kw})
    return out
