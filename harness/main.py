"""./check dispatcher."""

from __future__ import annotations

import argparse
import importlib
import json
import os
import sys
import traceback

from harness import tlc
from harness.report import Report

PROPS = [f"C{i:02d}" for i in range(1, 21)]


def setup() -> int:
    mods = sorted(p.stem for p in tlc.SPEC.glob("*.tla"))
    bad = 0
    for m in mods:
        try:
            tlc.sany(m)
        except tlc.MachineryError as e:
            print(e)
            bad += 1
    import harness.conv as conv

    conv._import()
    for p in PROPS:
        try:
            importlib.import_module(f"harness.props.{p.lower()}")
        except ModuleNotFoundError:
            pass
    print(f"setup: {len(mods)} TLA+ modules parsed, {bad} failed")
    return 2 if bad else 0


def main(argv=None) -> int:
    ap = argparse.ArgumentParser()
    ap.add_argument("pid", nargs="?")
    ap.add_argument("--tier", default=os.environ.get("VERIF_TIER", "quick"), choices=["quick", "thorough"])
    ap.add_argument("--replay")
    ap.add_argument("--setup", action="store_true")
    a = ap.parse_args(argv)
    if a.setup:
        return setup()
    if a.pid not in PROPS:
        print("usage: ./check <C01..C20> [--tier quick|thorough] [--replay FILE]")
        return 2
    seed = int(os.environ.get("VERIF_SEED", "0") or 0)
    try:
        mod = importlib.import_module(f"harness.props.{a.pid.lower()}")
        rep = Report(a.pid, a.tier, seed)
        if a.replay:
            case = json.load(open(a.replay))
            rep.is_replay = True
            mod.replay(rep, case)
        else:
            try:
                mod.run(rep)
            except tlc.MachineryError:
                raise
            except Exception as e:  # noqa: BLE001
                # the self-tests (canaries) need an accepted execution to corrupt; when the code under test is so broken that
                # none is left, the violations already recorded are the verdict -- report them instead of a machinery failure
                if not rep.violations:
                    raise
                rep.extra["self_test_skipped"] = f"{type(e).__name__}: {e} (after {len(rep.violations)} violations)"
        rc = rep.finish()
    except tlc.MachineryError as e:
        print(f"MACHINERY FAILURE [{a.pid}]: {e}", file=sys.stderr)
        return 2
    except SystemExit:
        raise
    except Exception:
        traceback.print_exc()
        print(f"MACHINERY FAILURE [{a.pid}]: harness exception", file=sys.stderr)
        return 2
    finally:
        from harness import conv

        conv.close_pool()
    return rc


if __name__ == "__main__":
    sys.exit(main())
