"""Shared case sources: TLC-generated row-shape sequences, decorated and run through the real code."""

from __future__ import annotations

import hashlib
import json

from harness import conv, formgen, render, rowtrace, tlc

ALL_FEAT = frozenset({"externals", "logic", "lang", "media", "defaults", "hints", "unlabeled", "appearance", "settings",
                      "choices_extra", "trigger", "refs_in_labels", "params", "instance_attrs", "dotted_names", "disabled"})


def _cfg(name, text):
    d = tlc.OUT / "cfg"
    d.mkdir(parents=True, exist_ok=True)
    p = d / name
    p.write_text(text)
    return str(p)


def gen_shapes(mode="ok", maxrows=3, simulate=None, depth=None, seed=None, timeout=600):
    """Bounded-exhaustive (or simulated) generation of row-shape sequences from Gen_RowParser."""
    cons = {"ok": "GenOk", "all": "GenAll"}.get(mode, "GenClash")
    cfg = _cfg(
        f"Gen_RowParser_{mode}_{maxrows}.cfg",
        f'SPECIFICATION GSpec\nCONSTANT MaxRows = {maxrows}\nCONSTANT Mode = "{mode}"\nCONSTRAINT {cons}\nCHECK_DEADLOCK FALSE\n',
    )
    cases, r = tlc.generate("Gen_RowParser", cfg, simulate=simulate, depth=depth, seed=seed, timeout=timeout, tag=f"gen{mode}{maxrows}")
    return cases, r


def pick(cases, limit, seed):
    """Deterministic hash-sample of at most `limit` cases (seed-dependent)."""
    if len(cases) <= limit:
        return cases
    keyed = sorted(cases, key=lambda c: hashlib.sha1((str(seed) + json.dumps(c, sort_keys=True)).encode()).hexdigest())
    return keyed[:limit]


def _sectioned(r, cut):
    """build the converted form again in two parts through the builder's include mechanism and compare actions / instance values"""
    import copy

    from harness import project
    from pyxform.builder import create_survey

    ev = {"ev": "sectioned", "status": "ok", "same_actions": False, "same_values": False, "cut": 0}
    try:
        pyx = copy.deepcopy(r._pyxform)
        kids = pyx["children"]
        k = 1 + cut % max(1, len(kids) - 1) if len(kids) > 1 else 0
        ev["cut"] = k
        main = dict(pyx, children=kids[:k] + [{"type": "include", "name": "part2"}])
        sec = {"type": "survey", "name": "part2", "children": kids[k:]}
        s = create_survey(name_of_main_section=pyx["name"], sections={pyx["name"]: main, "part2": sec}, id_string=pyx.get("id_string"), title=pyx.get("title"))
        x2 = s.to_xml(validate=False, pretty_print=False)

        def facts(x):
            root = project.parse(x)
            acts = sorted(json.dumps(a, sort_keys=True) for a in project.all_setvalues(root))
            vals = sorted((tuple(n["p"]), n["tmpl"], n.get("text") or "") for n in project.instance_preorder(root))
            return acts, vals

        a1, v1 = facts(r.xform)
        a2, v2 = facts(x2)
        ev.update(same_actions=a1 == a2, same_values=v1 == v2)
    except Exception as e:  # noqa: BLE001
        ev["status"] = f"{type(e).__name__}: {e}"[:200]
    return ev


def _run_form(job):
    shapes, seed, feat, fmt, kwargs = job.get("shapes"), job.get("seed", 0), job.get("feat", []), job.get("fmt", "dict"), job.get("kwargs") or {}
    if "wb" in job:
        wb = job["wb"]
        info = job.get("info")
    else:
        form = formgen.decorate(shapes, seed=seed, feat=frozenset(feat))
        wb = form.wb()
        info = form.info
    inp, kw = render.render(wb, fmt)
    kw.update(kwargs)
    res = conv.convert_case({"input": inp, "kwargs": kw, "events": True, "post": _sectioned if job.get("sectioned") is not None else None, "post_arg": job.get("sectioned")})
    cfg = rowtrace.wb_cfg(wb, form_name=kwargs.get("form_name"))
    trace, frag = rowtrace.build(res, cfg, with_refs=bool(job.get("refs")), src=job.get("src"))
    if res.get("post") is not None and res["status"] == "ok":
        trace.insert(len(trace) - 1, res.pop("post"))     # (the end event stays last)
    return {"shapes": shapes, "seed": seed, "feat": sorted(feat), "fmt": fmt, "wb": wb, "res": {k: v for k, v in res.items() if k != "events"},
            "trace": trace, "frag": frag, "info": info, "tag": job.get("tag")}


def run_forms(jobs):
    return conv.map_cases(_run_form, jobs, chunksize=16)
