"""C01 / C06 / C15: (1) unit-level binding of XmlWriter.tla to pyxform's real writer; (2) form-level channels.

Characters are turned into tokens: space -> "sp", other XML whitespace -> "nl", every other character -> "u<hex codepoint>".
TLA+ (XmlWriter.Norm / SameData / SameTree) decides equality modulo the documented whitespace cleaning."""

from __future__ import annotations

import re

from harness import project

CONCRETE = {"p": "a", "lt": "<", "gt": ">", "amp": "&", "quot": '"', "apos": "'", "sp": " ", "nl": "\n"}
BACK = {v: k for k, v in CONCRETE.items()}
ENT = {"&lt;": "E_lt", "&gt;": "E_gt", "&amp;": "E_amp", "&quot;": "E_quot"}


# ------------------------------------------------------------------ unit level
def real_node(dom):
    from pyxform.utils import PatchedText, node

    def txt(s):
        return "".join(CONCRETE[c] for c in s)

    e = node(dom["tag"], **{a[0]: txt(a[1]) for a in dom["attrs"]})
    for k in dom["kids"]:
        if k["k"] == "t":
            t = PatchedText()
            t.data = txt(k["s"])
            e.appendChild(t)
        else:
            e.appendChild(real_node(k))
    return e


RE_TAG = re.compile(r"<(/?)(label|output|group)((?:\s+[\w:]+=\"[^\"]*\")*)\s*(/?)>")
RE_ATTR = re.compile(r"([\w:]+)=\"([^\"]*)\"")


def _chars(text, entities=True):
    out = []
    i = 0
    while i < len(text):
        m = re.match(r"&(lt|gt|amp|quot);", text[i:]) if entities else None
        if m:
            out.append(ENT[m.group(0)])
            i += len(m.group(0))
        else:
            out.append(BACK.get(text[i], "other"))
            i += 1
    return out


def tokens(xml: str):
    """Tokenise the writer's output over the model's token alphabet (known tags only; anything else is character data)."""
    toks = []
    i = 0
    while i < len(xml):
        m = RE_TAG.match(xml, i)
        if m:
            if m.group(1):
                toks.append({"t": "end", "tag": m.group(2)})
            else:
                attrs = [[a, _chars(v)] for a, v in RE_ATTR.findall(m.group(3))]
                toks.append({"t": "start", "tag": m.group(2), "attrs": attrs, "empty": bool(m.group(4))})
            i = m.end()
        else:
            j = i + 1
            m2 = re.match(r"&(lt|gt|amp|quot);", xml[i:])
            if m2:
                toks.append({"t": "c", "c": ENT[m2.group(0)]})
                j = i + len(m2.group(0))
            else:
                toks.append({"t": "c", "c": BACK.get(xml[i], "other")})
            i = j
    return toks


def writer_event(dom):
    n = real_node(dom)
    c = n.toxml()
    p = n.toprettyxml(indent="  ")
    return {"ev": "writer", "dom": dom, "real_c": tokens(c), "real_p": tokens(p),
            "expat_c": project.wellformed(c)["parse_ok"], "expat_p": project.wellformed(p)["parse_ok"]}


# ------------------------------------------------------------------ form level
HOSTILE = {
    "p": "a", "lt": "<", "gt": ">", "amp": "&", "quot": '"', "apos": "'", "sp": " ", "cdend": "]]>", "entity": "&amp;", "comment": "<!-- x -->",
    "lbrace": "{", "rbrace": "}", "dollar": "$", "astral": "\U0001F600", "rtl": "של", "numref": "&#10;", "tag": "<b>x</b>", "pi": "<?x y?>",
    "zwnj": "\u200c", "rlm": "\u200f", "zwsp": "\u200b", "pct": "%",
    # function-like text (Gen_Xml.FunctionLike): acted upon in expression cells, plain text in text places
    "fn_pulldata": "pulldata('fruits', 'name', 'k', 'v')", "fn_search": "search('fruits')", "fn_itext": "jr:itext('/data/q_label:label')", "fn_now": "once(now())",
}
# channels whose cell is an expression or a directive rather than text: function-like text means something there
EXPRESSION_PLACES = {"default", "appearance"}


def tok(text):
    out = []
    for ch in text:
        if ch == " ":
            out.append("sp")
        elif ch in "\n\t\r":
            out.append("nl")
        else:
            out.append("u%x" % ord(ch))
    return out


CHANNELS = ["label", "hint", "guidance", "cmsg", "rmsg", "choice_label", "choice_extra", "default", "title", "version", "appearance",
            "bind_attr", "instance_attr", "body_attr", "settings_attr", "group_label", "label_ref", "hint_ref", "itext_label", "itext_hint", "choice_itext",
            "note_label_ref2", "label_instance", "itext_label_ref", "choice_itext_ref", "label_ref_twin", "loop_label", "loop_hint",
            "hint_beside_guidance_ref", "guidance_beside_hint_ref", "label_ref_with_image", "choice_label_ref_with_image"]


INSTANCE_OK = {"p", "lt", "gt", "sp", "apos"}


def build(classes, seed=0, only=None, with_instance=None):
    """One form carrying the same hostile string (prefixed per channel) in every channel. -> wb, src channels"""
    s = "".join(HOSTILE[c] for c in classes)
    fnlike = any(c.startswith("fn_") for c in classes)
    chans = {}

    def excluded(ch):
        return bool((only and ch not in only) or (fnlike and ch in EXPRESSION_PLACES))

    def put(ch, prefix="K"):
        if excluded(ch):
            return f"{prefix}{ch}xay"          # kept benign and not recorded as a channel (excluded by `only`, or the cell is not a text place)
        t = f"{prefix}{len(chans)}x{s}y"
        chans[ch] = t
        return t

    q = []
    q.append({"type": "text", "name": "q0", "label": "Q0"})
    q.append({"type": "text", "name": "q_label", "label": put("label")})
    q.append({"type": "text", "name": "q_hint", "label": "QH", "hint": put("hint")})
    q.append({"type": "text", "name": "q_guid", "label": "QG", "guidance_hint": put("guidance")})
    q.append({"type": "integer", "name": "q_msg", "label": "QM", "constraint": ". > 0", "constraint_message": put("cmsg"), "required": "yes", "required_message": put("rmsg")})
    q.append({"type": "select_one L", "name": "q_sel", "label": "QS"})
    q.append({"type": "text", "name": "q_default", "label": "QD", "default": put("default")})
    q.append({"type": "text", "name": "q_app", "label": "QA", "appearance": put("appearance")})
    q.append({"type": "text", "name": "q_attrs", "label": "QT", "bind::foo": put("bind_attr"), "instance::bar": put("instance_attr"), "body::baz": put("body_attr")})
    q.append({"type": "begin group", "name": "grp", "label": put("group_label")})
    def put_full(ch, fmt):
        if excluded(ch):
            return fmt % put(ch)
        t = put(ch)
        chans[ch] = fmt % t
        return chans[ch]

    q.append({"type": "text", "name": "q_lref", "label": put_full("label_ref", "%s ${q0} tail") or "L"})
    q.append({"type": "text", "name": "q_href", "label": "QHR", "hint": put_full("hint_ref", "${q0} %s")})
    # the very same reference-bearing text a second time under the same tag (nothing may be shared between the two elements)
    if "label_ref" in chans and (not only or "label_ref_twin" in only):
        chans["label_ref_twin"] = chans["label_ref"]
        q.append({"type": "text", "name": "q_lref2", "label": chans["label_ref_twin"]})
    q.append({"type": "end group"})
    # a translated label that mixes text with a reference, immediately before plain translated text (itext values are
    # produced one after the other: the treatment of one must not leak into the next)
    q.append({"type": "text", "name": "q_itref", "label::English (en)": put_full("itext_label_ref", "%s ${q0}") or "IR"})
    q.append({"type": "text", "name": "q_it", "label::English (en)": put("itext_label"), "hint::English (en)": put("itext_hint")})
    q.append({"type": "select_one M", "name": "q_selm", "label::English (en)": "QSM"})
    # one itext entry with several forms of which only some carry a reference (hint + guidance, label + image): each value is
    # written on its own terms, the treatment of one form must not decide the treatment of another
    q.append({"type": "text", "name": "q_hg1", "label": "HG1", "hint": put("hint_beside_guidance_ref"), "guidance_hint": "G ${q0} g"})
    q.append({"type": "text", "name": "q_hg2", "label": "HG2", "hint": "${q0} h", "guidance_hint": put("guidance_beside_hint_ref")})
    q.append({"type": "text", "name": "q_li", "label": put_full("label_ref_with_image", "%s ${q0}") or "LI", "image": "a.png"})
    q.append({"type": "select_one N", "name": "q_seln", "label": "QSN"})
    q.append({"type": "note", "name": "q_two", "label": put_full("note_label_ref2", "${q0}%s${q_label}") or "N"})
    # rows of a (legacy) loop are copied once per choice with %(name)s / %(label)s substituted (and %% for a percent sign): any other
    # text, "%" included, is the author's.  (A doubled percent sign is the documented escape, so it is not written here.)
    dbl = "%%" in s or "%(" in s
    q.append({"type": "begin loop over P", "name": "lp", "label": "LP"})
    q.append({"type": "text", "name": "ql", "label": ("Kloop_labelxay" if dbl else put("loop_label")), "hint": ("Kloop_hintxay" if dbl else put("loop_hint"))})
    q.append({"type": "end loop"})
    # a secondary-instance expression inside a label becomes an <output value="..."/>; the expression text is data too
    if with_instance is None:
        with_instance = set(classes) <= INSTANCE_OK
    if with_instance and (not only or "label_instance" in only):
        expr = f"instance('L')/root/item[xcol {s} 3]/label"
        chans["label_instance"] = f"K{len(chans)}x {expr} y"
        q.append({"type": "note", "name": "q_inst", "label": chans["label_instance"]})
    cols = []
    for r in q:
        for k in r:
            if k not in cols:
                cols.append(k)
    q = [{k: v for k, v in r.items() if v is not None} for r in q]
    sheets = [{"name": "survey", "header": cols, "rows": [[r.get(c) for c in cols] for r in q]}]
    sheets.append({"name": "choices", "header": ["list_name", "name", "label", "xcol", "label::English (en)", "image"],
                   "rows": [["N", "n1", put_full("choice_label_ref_with_image", "%s ${q0}") or "N1", None, None, "b.png"], ["N", "n2", "N two", None, None, None], ["L", "l1", put("choice_label"), put("choice_extra"), None], ["L", "l2", "plain", None, None], ["P", "p1", "P one", None, None], ["P", "p2", "P two", None, None], ["M", "m0", None, None, put_full("choice_itext_ref", "%s ${q0}") or "M0"], ["M", "m1", None, None, put("choice_itext")]]})
    st = {"form_title": put("title"), "version": put("version"), "attribute::sattr": put("settings_attr")}
    st = {k: v for k, v in st.items() if v is not None}
    if st:
        sheets.append({"name": "settings", "header": list(st), "rows": [list(st.values())]})
    return {"sheets": sheets}, chans


def _elem_json(pieces):
    kids = []
    for p in pieces:
        if p[0] == "t":
            kids.append({"k": "t", "s": tok(p[1])})
        elif p[1].strip().startswith("instance("):
            # the value of an instance-expression output is user text; a substituted ${ref} path is C03's subject
            kids.append({"k": "e", "tag": "output", "attrs": [["value", tok(p[1].strip())]], "kids": []})
        else:
            kids.append({"k": "e", "tag": "output", "attrs": [], "kids": []})
    return {"k": "e", "tag": "x", "attrs": [], "kids": kids}


def src_elem(ch, text):
    """what the channel must show: text pieces and output elements where references were"""
    pieces = []
    pos = 0
    for m in re.finditer(r"\$\{[^}]*\}|instance\('L'\)/root/item\[[^\]]*\]/label", text):
        if m.start() > pos:
            pieces.append(["t", text[pos:m.start()]])
        pieces.append(["o", m.group(0) if m.group(0).startswith("instance(") else ""])
        pos = m.end()
    if pos < len(text):
        pieces.append(["t", text[pos:]])
    return _elem_json(pieces)


def recover(xform, chans):
    """-> {channel: element json (pieces)} read from 'the corresponding place' of the parsed XForm (ElementTree)"""
    root = project.parse(xform)
    body = {c["ref"]: c for c in project.body_preorder(root)}
    binds = {b["nodeset"]: b["attrs"] for b in project.binds(root)}
    inst = {tuple(n["p"]): n for n in project.instance_preorder(root) if not n["tmpl"]}
    it = project.itext(root)
    sec = {s["id"]: s for s in project.secondary_instances(root)}
    prim = project.primary_root(root)

    def T(s):
        return _elem_json([["t", s]] if s is not None and s != "" else [])

    def lab(ref, key, lang="default"):
        c = body.get(ref)
        if not c or not c[key]:
            return None
        r = c[key]["ref"]
        if r:
            m = re.match(r"jr:itext\('([^']*)'\)", r)
            return itform(m.group(1), None, lang) if m else None
        return _elem_json(c[key]["pieces"])

    def itform(tid, form, lang="default"):
        for L in [lang] + [x for x in it["langs"] if x != lang]:
            vals = [v for v in it["texts"].get(L, {}).get(tid, []) if v["form"] == form]
            if vals:
                return _elem_json(vals[0]["pieces"])
        return None

    out = {}
    for ch in chans:
        r = None
        if ch == "label":
            r = lab("/data/q_label", "label")
        elif ch == "hint":
            r = lab("/data/q_hint", "hint")
        elif ch == "guidance":
            r = itform("/data/q_guid:hint", "guidance")
        elif ch in ("cmsg", "rmsg"):
            v = binds.get("/data/q_msg", {}).get("jr:constraintMsg" if ch == "cmsg" else "jr:requiredMsg")
            m = re.match(r"jr:itext\('([^']*)'\)", v or "")
            r = itform(m.group(1), None) if m else (T(v) if v is not None else None)
        elif ch == "choice_label":
            item = dict(sec["L"]["items"][0]) if "L" in sec and sec["L"]["items"] else {}
            r = T(item.get("label")) if "label" in item else (itform(item["itextId"], None) if "itextId" in item else None)
        elif ch == "choice_extra":
            item = dict(sec["L"]["items"][0]) if "L" in sec and sec["L"]["items"] else {}
            r = T(item.get("xcol")) if "xcol" in item else None
        elif ch == "choice_itext":
            item = dict(sec["M"]["items"][1]) if "M" in sec and len(sec["M"]["items"] or []) > 1 else {}
            r = itform(item["itextId"], None, "English (en)") if "itextId" in item else (T(item.get("label")) if "label" in item else None)
        elif ch == "choice_itext_ref":
            item = dict(sec["M"]["items"][0]) if "M" in sec and sec["M"]["items"] else {}
            r = itform(item["itextId"], None, "English (en)") if "itextId" in item else None
        elif ch == "default":
            n = inst.get(("data", "q_default"))
            if n is not None and n["text"]:
                r = T(n["text"])
            else:
                sv = [a for a in project.all_setvalues(root) if a.get("ref") == "/data/q_default"]
                r = T(sv[0].get("value")) if sv else None
        elif ch == "title":
            t = root.find(project.H + "head").find(project.H + "title")
            r = T(t.text or "")
        elif ch == "version":
            r = T(prim.attrib.get("version")) if "version" in prim.attrib else None
        elif ch == "settings_attr":
            r = T(prim.attrib.get("sattr")) if "sattr" in prim.attrib else None
        elif ch == "appearance":
            c = body.get("/data/q_app")
            r = T(c["attrs"].get("appearance")) if c and "appearance" in c["attrs"] else None
        elif ch == "bind_attr":
            v = binds.get("/data/q_attrs", {}).get("foo")
            r = T(v) if v is not None else None
        elif ch == "instance_attr":
            n = inst.get(("data", "q_attrs"))
            r = T(n["attrs"].get("bar")) if n and "bar" in n["attrs"] else None
        elif ch == "body_attr":
            c = body.get("/data/q_attrs")
            r = T(c["attrs"].get("baz")) if c and "baz" in c["attrs"] else None
        elif ch == "group_label":
            r = lab("/data/grp", "label")
        elif ch == "loop_label":
            r = lab("/data/lp/p1/ql", "label")
        elif ch == "loop_hint":
            r = lab("/data/lp/p2/ql", "hint")
        elif ch == "label_ref":
            r = lab("/data/grp/q_lref", "label")
        elif ch == "hint_ref":
            r = lab("/data/grp/q_href", "hint")
        elif ch == "itext_label":
            r = lab("/data/q_it", "label", "English (en)")
        elif ch == "label_ref_twin":
            r = lab("/data/grp/q_lref2", "label")
        elif ch == "itext_label_ref":
            r = lab("/data/q_itref", "label", "English (en)")
        elif ch == "itext_hint":
            r = lab("/data/q_it", "hint", "English (en)")
        elif ch == "note_label_ref2":
            r = lab("/data/q_two", "label")
        elif ch == "label_instance":
            r = lab("/data/q_inst", "label")
        elif ch == "hint_beside_guidance_ref":
            r = lab("/data/q_hg1", "hint")
        elif ch == "guidance_beside_hint_ref":
            r = itform("/data/q_hg2:hint", "guidance")
        elif ch == "label_ref_with_image":
            r = lab("/data/q_li", "label")
        elif ch == "choice_label_ref_with_image":
            item = dict(sec["N"]["items"][0]) if "N" in sec and sec["N"]["items"] else {}
            r = itform(item["itextId"], None) if "itextId" in item else (T(item.get("label")) if "label" in item else None)
        out[ch] = r
    return out


def default_place(xform):
    """where q_default's default went: 'instance' (literal node content), 'setvalue' (an action), 'both', 'none'"""
    root = project.parse(xform)
    prim = project.primary_root(root)
    n = next((k for k in prim if project.local(k.tag) == "q_default"), None)
    in_inst = n is not None and bool(n.text)
    sv = any(a.get("ref") == "/data/q_default" for a in project.all_setvalues(root))
    return "both" if in_inst and sv else "instance" if in_inst else "setvalue" if sv else "none"


def skeleton_sig(xform):
    """element/attribute-name structure of the whole document (no text, no attribute values)"""
    root = project.parse(xform)

    def keep(k):
        # a default the converter classifies as an expression is applied by a setvalue instead of instance text:
        # both are "the corresponding place" (C10 judges which); not a structural effect of the text itself
        return not (project.local(k.tag) == "setvalue" and k.attrib.get("ref") == "/data/q_default")

    def walk(e):
        return (project.qname(e.tag), tuple(sorted(project.qname(a) for a in e.attrib)), tuple(walk(k) for k in e if keep(k)))

    return hash(walk(root))


def text_elements(xform):
    """every element that has text of its own or is a label/hint/value/title: as XmlWriter DOM json (for C15), keyed by path"""
    root = project.parse(xform)
    out = []

    def node_json(e, deep):
        kids = []
        if e.text:
            kids.append({"k": "t", "s": tok(e.text)})
        for k in e:
            kids.append(node_json(k, deep) if deep else {"k": "e", "tag": project.qname(k.tag), "attrs": [[project.qname(a), tok(v)] for a, v in sorted(k.attrib.items())], "kids": []})
            if k.tail:
                kids.append({"k": "t", "s": tok(k.tail)})
        return {"k": "e", "tag": project.qname(e.tag), "attrs": [[project.qname(a), tok(v)] for a, v in sorted(e.attrib.items())], "kids": kids}

    def walk(e, path):
        p = path + "/" + project.qname(e.tag)
        own = (e.text or "") + "".join(k.tail or "" for k in e)
        if own.strip() or project.local(e.tag) in ("label", "hint", "value", "title"):
            out.append([p, node_json(e, False)])
        idx = {}
        for k in e:
            t = project.qname(k.tag)
            idx[t] = idx.get(t, 0) + 1
            walk(k, f"{p}[{idx[t]}]")

    walk(root, "")
    return out
