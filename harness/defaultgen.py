"""C10 (lexical level): concretise Defaults.tla piece sequences and ask the real default_is_dynamic()."""

from __future__ import annotations

TEXT = {
    "num": "7", "neg": "-3", "dec": "3.5", "word": "hello", "words": "Yes and no", "date": "2020-01-31", "time": "12:30:00", "geo": "32.7 -117.1 14 5.01",
    "uri": "jr://images/x.png", "ref": "${q0}", "func": "now()", "call": "concat('a', 'b')",
    "plus_sp": " + ", "minus_sp": " - ", "star_sp": " * ", "div_sp": " div ", "mod_sp": " mod ",
    "minus": "-", "plus": "+", "star": "*", "pipe": "|", "paren": "(x)", "bracket": "[1]", "brace": "{x}",
    "lit": "'a b'", "lit_op": "'q - r'", "comp": " = ", "punct": ",", "remark": " (note 2)",
}
ALT = {"comp": [" = ", " < ", " > ", " != "], "punct": [",", ":", ";", "!", "?", "@", "#", "%", "/"], "word": ["hello", "abc", "N_A"], "func": ["now()", "today()", "uuid()"],
       "call": ["concat('a', 'b')", "string-length('abc')", "if(1 = 1, 'a', 'b')"], "uri": ["jr://images/x.png", "https://mysite.com/p"], "num": ["7", "12"], "dec": ["3.5", ".5"]}
GLUED = {"minus", "plus", "star", "pipe", "paren", "bracket", "brace", "punct"}          # written without blanks around them
OWN_BLANKS = {"plus_sp", "minus_sp", "star_sp", "div_sp", "mod_sp", "comp", "remark"}            # carry their own blanks
HYPHEN_TYPES = ["date", "dateTime", "geopoint", "geotrace", "geoshape"]
OTHER_TYPES = ["text", "integer", "decimal", "select_one", "calculate", None]


def text_of(seq, k=0):
    out = ""
    prev = None
    for i, p in enumerate(seq):
        t = ALT[p][(k + i) % len(ALT[p])] if p in ALT else TEXT[p]
        if prev is not None and not (p in GLUED or prev in GLUED or p in OWN_BLANKS or prev in OWN_BLANKS):
            out += " "
        out += t
        prev = p
    return out


def run(job):
    """job: {seq, hyphen, k} -> trace"""
    from harness.abstract import classify_default
    from pyxform.utils import default_is_dynamic

    seq = job["seq"]
    text = text_of(seq, job.get("k", 0)).strip()
    types = HYPHEN_TYPES if job["hyphen"] else OTHER_TYPES
    qtype = types[job.get("k", 0) % len(types)]
    ev = {"ev": "default", "seq": seq, "hyphen": bool(job["hyphen"]), "text": text, "qtype": qtype or "", "real_dynamic": False, "status": "ok",
          "harness_class": classify_default(text, qtype) if text else "static"}
    try:
        ev["real_dynamic"] = bool(default_is_dynamic(text, qtype))
    except Exception as e:  # noqa: BLE001
        ev["status"] = "crash:" + type(e).__name__
    return {"job": job, "text": text, "trace": [ev]}
