"""Verdicts, replay files, evidence files, known findings."""

from __future__ import annotations

import hashlib
import json
import os
import subprocess
import sys
import time
from pathlib import Path

VERIF = Path(__file__).resolve().parent.parent
EVID = VERIF / "evidence"
REPLAY = VERIF / "out" / "replay"
KNOWN = VERIF / "known_findings.json"


def digest(obj) -> str:
    return hashlib.sha1(json.dumps(obj, sort_keys=True, default=str).encode()).hexdigest()[:16]


def _jsonable(o, depth=0):
    if depth > 12:
        return "<deep>"
    if isinstance(o, dict):
        return {str(k): _jsonable(v, depth + 1) for k, v in o.items()}
    if isinstance(o, list | tuple | set):
        return [_jsonable(v, depth + 1) for v in o]
    if isinstance(o, bytes):
        return {"__bytes_hex__": o.hex()}
    if isinstance(o, str | int | float | bool) or o is None:
        return o
    return str(o)


class Report:
    def __init__(self, pid: str, tier: str, seed: int):
        self.pid = pid
        self.tier = tier
        self.seed = seed
        self.t0 = time.time()
        self.states = 0
        self.transitions = 0
        self.traces_validated = 0
        self.evaluations = 0
        self.distinct = set()
        self.samples = []
        self.rule = ""
        self.bounds = {}
        self.assumptions = []
        self.actions = {}
        self.extra = {}
        self.violations = []  # (sig, what, replay_obj)
        self.drift = []
        self.exhaustive = False
        known = json.loads(KNOWN.read_text()) if KNOWN.exists() else {"findings": []}
        self.known = {f["sig"]: f for f in known.get("findings", []) if f["property"] == pid}
        self.known_seen = {}

    # ---- accumulation
    def add_mc(self, r, label=None):
        self.states += r["distinct"]
        self.transitions += r["states"]
        if label:
            self.extra.setdefault("tlc_runs", []).append(
                {"run": label, "generated": r["states"], "distinct": r["distinct"], "wall_s": round(r["wall"], 1)}
            )
        for a, n in r.get("cov", {}).items():
            self.actions[a] = self.actions.get(a, 0) + n

    def case(self, abstract_case, nontrivial=True):
        self.evaluations += 1
        if nontrivial:
            self.distinct.add(digest(abstract_case))

    def sample(self, obj, limit=4):
        if len(self.samples) < limit:
            self.samples.append(_jsonable(obj))

    def violation(self, sig: str, what: str, replay: dict):
        """Record a property violation observed on the real code. Known findings are matched by sig."""
        if sig in self.known:
            if sig not in self.known_seen:
                self.known_seen[sig] = what
            return False
        self.violations.append((sig, what, replay))
        return True

    # ---- finish
    def finish(self) -> int:
        wall = time.time() - self.t0
        for sig, what in self.known_seen.items():
            print(f"KNOWN-FINDING: property={self.pid} {sig}: {what}"[:400])
        allsigs = {}
        for sig, _, _ in self.violations:
            allsigs[sig] = allsigs.get(sig, 0) + 1
        (VERIF / "out").mkdir(exist_ok=True)
        (VERIF / "out" / f"last_sigs_{self.pid}.json").write_text(json.dumps(allsigs, indent=1, sort_keys=True))
        paths = []
        seen_sigs = set()
        for sig, what, replay in self.violations:
            # one replay file per distinct signature (up to 300), and up to 25 in total for repeats
            if sig in seen_sigs and len(paths) >= 25:
                continue
            if len(paths) >= 300:
                break
            seen_sigs.add(sig)
            d = REPLAY / self.pid
            d.mkdir(parents=True, exist_ok=True)
            f = d / f"{digest([sig, replay])}.json"
            f.write_text(json.dumps(_jsonable({"property": self.pid, "sig": sig, "what": what, "case": replay}), indent=1))
            paths.append(f)
            print(f"VIOLATION property={self.pid} replay={f}")
            print(f"  sig={sig} :: {what}"[:600])
        cov = {
            "states": self.states,
            "transitions": self.transitions,
            "traces_validated_against_impl": self.traces_validated,
            "samples": self.samples or [{"note": "no sample recorded"}],
            "evaluations": self.evaluations,
            "distinct_nontrivial": len(self.distinct),
            "rule": self.rule,
            "exhaustive": self.exhaustive,
            "bounds": self.bounds,
            "spec_action_coverage": self.actions,
            "known_findings_seen": sorted(self.known_seen),
            "drift": self.drift[:20],
        }
        cov.update(self.extra)
        ev = {
            "property_id": self.pid,
            "tier": self.tier,
            "seed": self.seed,
            "level": "model_checking",
            "coverage": _jsonable(cov),
            "assumptions": self.assumptions,
            "wall_s": round(wall, 2),
            "violations": len(self.violations),
        }
        if getattr(self, "is_replay", False):
            # a replay of one recorded case is not a check run: it never replaces the property's evidence file
            evdir = VERIF / "out" / "evidence_scratch"
            evdir.mkdir(parents=True, exist_ok=True)
            (evdir / f"{self.pid}.replay.json").write_text(json.dumps(ev, indent=1))
        else:
            evdir = (VERIF / "out" / "evidence_scratch") if os.environ.get("VERIF_NOEVIDENCE") else EVID
            evdir.mkdir(parents=True, exist_ok=True)
            (evdir / f"{self.pid}.json").write_text(json.dumps(ev, indent=1))
            validate_evidence(evdir / f"{self.pid}.json")
        print(
            f"[{self.pid}] tier={self.tier} states={self.states} traces={self.traces_validated} "
            f"cases={self.evaluations} distinct={len(self.distinct)} violations={len(self.violations)} "
            f"known={len(self.known_seen)} wall={wall:.1f}s"
        )
        return 1 if self.violations else 0


def validate_evidence(path: Path):
    """Schema-validate with jsonschema from the tooling venv when it is there (machinery failure if invalid)."""
    schema = "/root/.vp/EVIDENCE.schema.json"
    if not os.path.exists(schema) or not _which("python3-vt"):
        return
    code = (
        "import json,sys,jsonschema;"
        "jsonschema.validate(json.load(open(sys.argv[1])),json.load(open(sys.argv[2])))"
    )
    p = subprocess.run(["python3-vt", "-c", code, str(path), schema], capture_output=True, text=True)
    if p.returncode != 0:
        print("evidence does not validate:\n" + p.stderr[-1500:], file=sys.stderr)
        raise SystemExit(2)


def _which(x):
    import shutil

    return shutil.which(x)
