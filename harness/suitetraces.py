"""The repository's own test-suite as a source of executions (DESIGN 3.3 source 3).

Runs the suite with the hooks on and the recording plugin, turns every convert() it performs into a RowParser trace and
lets TLC judge it.  Forms outside the modelled fragment are abstained on (counted)."""

from __future__ import annotations

import glob
import json
import os
import shutil
import subprocess
import sys
import tempfile

from harness import rowtrace, tlc


def record(repo, jobs=8, timeout=1500):
    out = tempfile.mkdtemp(prefix="suite-", dir="/var/tmp")
    env = dict(os.environ, PYXFORM_VERIF="1", VERIF_TRACE_OUT=out, PYTHONPATH=f"{repo}:{tlc.VERIF}", PYTHONHASHSEED="0")
    subprocess.run([sys.executable, "-m", "pytest", "-q", "-p", "no:cacheprovider", "-p", "harness.pytest_sink", "--timeout=900", "-n", str(jobs)],
                   cwd=repo, env=env, capture_output=True, text=True, timeout=timeout)
    recs = []
    for f in sorted(glob.glob(os.path.join(out, "*.jsonl"))):
        for line in open(f):
            try:
                recs.append(json.loads(line))
            except Exception:  # noqa: BLE001
                pass
    shutil.rmtree(out, ignore_errors=True)
    return recs


def wb_of(rec):
    """abstract workbook from the DefinitionData the row loop received"""
    dd = rec.get("wb") or {}
    sheets = []
    for name in ("survey", "choices", "settings", "external_choices", "entities", "osm"):
        rows = dd.get(name) or []
        hdr = []
        for h in (dd.get(f"{name}_header") or []):
            hdr += [k for k in h if k not in hdr]
        for r in rows:
            hdr += [k for k in r if k not in hdr]
        if rows or hdr:
            sheets.append({"name": name, "header": hdr, "rows": [[r.get(h) for h in hdr] for r in rows]})
    return {"sheets": sheets}


def traces(recs):
    out = []
    for rec in recs:
        if "wb" not in rec or not any(e.get("ev") == "rows_done" or e.get("ev") == "row" for e in rec["events"]):
            continue
        wb = wb_of(rec)
        if rec["status"] in ("other:ODKValidateError", "other:OSError"):
            out.append({"test": rec.get("test"), "trace": None, "frag": False, "why": "validated conversion (no validator in this sandbox)"})
            continue
        if rec["status"] not in ("ok", "pyxform_error"):
            out.append({"test": rec.get("test"), "trace": None, "frag": False, "why": "internal exception expected by the test (C17's subject, listed there)"})
            continue
        st = next((s for s in wb["sheets"] if s["name"] == "settings"), None)
        if st and "flat" in [str(h).lower() for h in st["header"]]:
            out.append({"test": rec.get("test"), "trace": None, "frag": False, "why": "flat instance setting (outside the modelled fragment)"})
            continue
        res = {"status": rec["status"] if rec["status"] in ("ok", "pyxform_error") else "crash", "events": rec["events"], "xform": rec.get("xform"), "message": rec.get("message"), "warnings": rec.get("warnings")}
        try:
            cfg = rowtrace.wb_cfg(wb, form_name=rec.get("form_name"))
            tr, frag = rowtrace.build(res, cfg)
        except Exception as e:  # noqa: BLE001  - a projection the harness cannot do is an abstention, never a verdict
            out.append({"test": rec.get("test"), "trace": None, "frag": False, "why": f"projection: {type(e).__name__}: {e}"})
            continue
        out.append({"test": rec.get("test"), "trace": tr, "frag": frag, "status": rec["status"], "wb": wb, "message": rec.get("message")})
    return out
