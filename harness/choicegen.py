"""C09: concretise a Choices.tla configuration and project the choice/selection facts of the output."""

from __future__ import annotations

import csv
import io
import re

from harness import project
from harness.rowtrace import norm_obs_expr, norm_src_expr

FILTER = "name != ${st}"


def _filled(fill, i, j, n):
    return {"all": True, "none": False, "first": i == 0, "last": i == n - 1, "alt": (i + j) % 2 == 0}[fill]


def build(cfg, sels, seed=0):
    xcols = [f"x{j + 1}" for j in range(cfg["xc"])]
    style = cfg.get("style", "plain")
    itext = "itext" in style
    # concrete list names: a dot in a list name is legal (only a recognised file extension makes a select read from a file)
    LN = {"L": "L.v2", "M": "M.x", "U": "U.1"} if "dotted" in style else {"L": "L", "M": "M", "U": "U"}
    ccols = ["list_name", "name", "label"] + (["label::French (fr)"] if itext else []) + xcols
    lists = {}
    for key, n in (("L", cfg["nl"]), ("M", cfg["nm"]), ("U", cfg["nu"])):
        lst = LN[key]
        rows = []
        for i in range(n):
            nm = f"{key.lower()}{i + 1}"
            if cfg["dup"] and lst == LN["L"] and i == 1:
                nm = "l1"
            own = cfg.get("own", "none")
            if lst == LN["M"] and ((own == "mid" and i == 0) or (own == "last" and i == n - 1)):
                nm = "other"
            r = {"list_name": lst, "name": nm, "label": f"{lst} label {i + 1}"}
            if itext:
                r["label::French (fr)"] = f"{lst} etiquette {i + 1}"
            for j, c in enumerate(xcols):
                if _filled(cfg["fill"], i, j, n):
                    r[c] = f"{lst}{i + 1}{c}"
            rows.append(r)
        if rows:
            lists[lst] = rows
    order = []
    if cfg["inter"]:
        pools = [list(v) for v in lists.values()]
        while any(pools):
            for p in pools:
                if p:
                    order.append(p.pop(0))
    else:
        for v in lists.values():
            order += v
    survey = [{"type": "text", "name": "st", "label": "ST"}, {"type": "integer", "name": "sd", "label": "SD"}]
    prefix = []
    if cfg["depth"] >= 1:
        survey.append({"type": "begin group", "name": "gg", "label": "GG"})
        prefix.append("gg")
    if cfg["depth"] >= 2:
        survey.append({"type": "begin repeat", "name": "rr", "label": "RR"})
        prefix.append("rr")
    src_sel, others, externals = [], [], []

    def ext(i, uri):
        if [i, uri] not in externals:
            externals.append([i, uri])

    uses_repeat = "repeat" in sels
    search_lists = set()
    for k, v in enumerate(sels, start=1):
        nm = f"s{k}"
        row = {"name": nm, "label": f"S{k}"}
        s = {"path": prefix + [nm], "kind": "itemset", "inst": LN["L"], "filter": "", "wrap": "none", "seed": "", "vref": "name", "lref": "label", "items": []}
        if v == "one":
            row["type"] = f"select_one {LN['L']}"
        elif v == "multi":
            row["type"] = f"select_multiple {LN['L']}"
        elif v == "rank":
            row["type"] = f"rank {LN['L']}"
        elif v == "oneM":
            row["type"] = f"select_one {LN['M']}"
            s["inst"] = LN["M"]
        elif v == "other":
            row["type"] = f"select_one {LN['M']} or_other"
            s["inst"] = LN["M"]
            others.append({"path": prefix + [nm], "list": LN["M"]})
        elif v == "filter":
            row.update(type=f"select_one {LN['L']}", choice_filter=FILTER)
            s["filter"] = norm_src_expr(FILTER)
        elif v == "rand":
            row.update(type=f"select_multiple {LN['L']}", parameters="randomize=true")
            s["wrap"] = "rand"
        elif v == "randfalse":
            row.update(type=f"select_one {LN['L']}", parameters="randomize=false")
        elif v == "randseed":
            row.update(type=f"select_one {LN['L']}", parameters="randomize=true seed=42")
            s.update(wrap="rand", seed="42")
        elif v == "randseedref":
            row.update(type=f"select_one {LN['L']}", parameters="randomize=true seed=${sd}")
            s.update(wrap="rand", seed="${}")
        elif v == "filter_rand":
            row.update(type=f"rank {LN['L']}", parameters="randomize=true seed=7", choice_filter=FILTER)
            s.update(wrap="rand", seed="7", filter=norm_src_expr(FILTER))
        elif v == "csv":
            row["type"] = "select_one_from_file cf.csv"
            s["inst"] = "cf"
            ext("cf", "jr://file-csv/cf.csv")
        elif v == "csv_vl":
            row.update(type="select_multiple_from_file cv.csv", parameters="value=v label=l")
            s.update(inst="cv", vref="v", lref="l")
            ext("cv", "jr://file-csv/cv.csv")
        elif v == "xml_filter":
            row.update(type="select_one_from_file xf.xml", choice_filter=FILTER)
            s.update(inst="xf", filter=norm_src_expr(FILTER))
            ext("xf", "jr://file/xf.xml")
        elif v == "geojson":
            row["type"] = "select_one_from_file gj.geojson"
            s.update(inst="gj", vref="id", lref="title")
            ext("gj", "jr://file/gj.geojson")
        elif v == "csv_rand":
            row.update(type="select_one_from_file cr.csv", parameters="randomize=true seed=5")
            s.update(inst="cr", wrap="rand", seed="5")
            ext("cr", "jr://file-csv/cr.csv")
        elif v == "geojson_rand":
            row.update(type="select_one_from_file gr.geojson", parameters="randomize=true")
            s.update(inst="gr", wrap="rand", vref="id", lref="title")
            ext("gr", "jr://file/gr.geojson")
        elif v == "geojson_v":
            row.update(type="select_multiple_from_file gv.geojson", parameters="value=vv")
            s.update(inst="gv", vref="vv", lref="title")
            ext("gv", "jr://file/gv.geojson")
        elif v == "geojson_l":
            row.update(type="select_one_from_file gl.geojson", parameters="label=ll")
            s.update(inst="gl", vref="id", lref="ll")
            ext("gl", "jr://file/gl.geojson")
        elif v == "external":
            row.update(type="select_one_external X", choice_filter="state=${st}")
            s.update(kind="query", inst="X", filter=norm_src_expr("state=${st}"))
        elif v == "external_ls":
            row.update(type="select_one_external X", choice_filter="state=${last-saved#st}")
            s.update(kind="query", inst="X", filter=norm_src_expr("state=${last-saved#st}"))
            ext("__last-saved", "jr://instance/last-saved")
        elif v == "repeat":
            row["type"] = "select_one ${rq}"
            s.update(kind="repeat", inst="rp", vref="rq", lref="rq")
        elif v == "search_after_modifier":
            row.update(type=f"select_one {LN['M']}", appearance="minimal search('mfile')")
            s.update(kind="inline", inst=LN["M"], items=[[r["name"], r["label"]] for r in lists[LN["M"]]])
            search_lists.add(LN["M"])
        elif v == "search":
            row.update(type=f"select_one {LN['M']}", appearance="search('mfile')")
            s.update(kind="inline", inst=LN["M"], items=[[r["name"], r["label"]] for r in lists[LN["M"]]])
            search_lists.add(LN["M"])
        else:
            raise ValueError(v)
        if itext and s["kind"] == "itemset" and s["inst"] in (LN["L"], LN["M"]):
            s["lref"] = "jr:itext(itextId)"       # a translated list is read through itext
        survey.append(row)
        src_sel.append(s)
    if cfg["depth"] >= 2:
        survey.append({"type": "end repeat"})
    if cfg["depth"] >= 1:
        survey.append({"type": "end group"})
    if uses_repeat:
        survey += [{"type": "begin repeat", "name": "rp", "label": "RP"}, {"type": "text", "name": "rq", "label": "RQ"}, {"type": "end repeat"}]
    e = cfg["extras"]
    if e in (1, 5):
        survey.append({"type": "xml-external", "name": "xe"})
        ext("xe", "jr://file/xe.xml")
    if e == 2:
        survey.append({"type": "csv-external", "name": "ce"})
        ext("ce", "jr://file-csv/ce.csv")
    if e == 3:
        survey.append({"type": "calculate", "name": "pd1", "calculation": "pulldata('pf', 'a', 'b', ${st})"})
        survey.append({"type": "calculate", "name": "pd2", "calculation": "pulldata('pf', 'c', 'b', ${st})"})
        ext("pf", "jr://file-csv/pf.csv")
    if e in (4, 5):
        survey.append({"type": "text", "name": "ls", "label": "LS", "default": "${last-saved#st}"})
        ext("__last-saved", "jr://instance/last-saved")
    if e == 6:
        survey.append({"type": "integer", "name": "lc", "label": "LC", "required": "yes", "constraint": ". > ${last-saved#sd}"})
        ext("__last-saved", "jr://instance/last-saved")
    if e in (7, 8):
        kind = "repeat" if e == 7 else "group"
        survey += [{"type": f"begin {kind}", "name": "pdsec", "label": "PDS", "relevant": "pulldata('rf', 'a', 'b', ${st}) = 'x'"},
                   {"type": "text", "name": "pdq", "label": "PDQ"}, {"type": f"end {kind}"}]
        ext("rf", "jr://file-csv/rf.csv")
    if e in (9, 10):
        kind = "group" if e == 9 else "repeat"
        survey += [{"type": f"begin {kind}", "name": "lssec", "label": "LSS", "relevant": "${last-saved#st} = 'x'"},
                   {"type": "text", "name": "lsq", "label": "LSQ"}, {"type": f"end {kind}"}]
    if e == 11:
        survey += [{"type": "begin repeat", "name": "lsrep", "label": "LSR", "repeat_count": "${last-saved#sd}"},
                   {"type": "text", "name": "lsq", "label": "LSQ"}, {"type": "end repeat"}]
    if e == 12:
        survey.append({"type": "note", "name": "lsn", "label": "last time: ${last-saved#st}"})
    if e == 13:
        survey.append({"type": "text", "name": "lsh", "label": "LSH", "hint": "was ${last-saved#st}", "required": "yes", "required_message": "needed, was ${last-saved#st}"})
    if e == 14:
        survey.append({"type": f"select_one {LN['L']}", "name": "lsr", "label": "LSRand", "parameters": "randomize=true seed=${last-saved#sd}"})
    if e in (9, 10, 11, 12, 13, 14):
        ext("__last-saved", "jr://instance/last-saved")
    if e == 5:
        survey.append({"type": "calculate", "name": "pd3", "calculation": "pulldata('cf', 'a', 'b', ${st})"})
        ext("cf", "jr://file-csv/cf.csv")
    scols = ["type", "name", "label", "choice_filter", "parameters", "appearance", "calculation", "default", "required", "constraint", "relevant", "repeat_count", "hint", "required_message"]
    scols = [c for c in scols if c in ("type", "name", "label") or any(c in r for r in survey)]
    sheets = [{"name": "survey", "header": scols, "rows": [[r.get(c) for c in scols] for r in survey]},
              {"name": "choices", "header": ccols, "rows": [[r.get(c) for c in ccols] for r in order]}]
    if cfg["dup"]:
        sheets.append({"name": "settings", "header": ["allow_choice_duplicates"], "rows": [["yes"]]})
    src_csv = []
    if cfg["ext"] > 0:
        eh = ["list name" if cfg["ext"] == 5 else "list_name", "name", "label", "state"] + (["county"] if cfg["ext"] == 4 else [])
        n = 1 if cfg["ext"] == 1 else 3
        erows = []
        for i in range(n):
            r = ["X", f"x{i + 1}", f"X label {i + 1}", f"s{i + 1}"] + ([f"c{i + 1}"] if cfg["ext"] == 4 else [])
            if cfg["ext"] == 3 and i == 1:
                r[2] = None
            if cfg["ext"] == 4:
                if i % 2 == 0:
                    r[2] = None
                else:
                    r[3] = None
            erows.append(r)
        sheets.append({"name": "external_choices", "header": eh, "rows": erows})
        src_csv = [eh] + [[c or "" for c in r] for r in erows]
    src_lists = []
    seen = []
    for r in order:
        if r["list_name"] not in seen:
            seen.append(r["list_name"])
    for lst in seen:
        items = [{"name": r["name"], "label": r["label"], "extras": [[c, r[c]] for c in xcols if c in r]} for r in lists[lst]]
        has_own = any(r["name"] == "other" for r in lists[lst])
        src_lists.append({"id": lst, "inline": lst in search_lists, "other": any(o["list"] == lst for o in others) and not has_own, "items": items})
    src = {"lists": src_lists, "selects": src_sel, "others": others, "externals": externals, "csv": src_csv}
    return {"sheets": sheets}, src


RE_NODESET = re.compile(r"^(?P<rand>randomize\()?instance\('(?P<inst>[^']+)'\)/root/item(\[(?P<filter>.*?)\])?(?(rand)(,\s*(?P<seed>.*))?\))$", re.S)


def parse_nodeset(ns, rootname):
    m = RE_NODESET.match(ns.strip())
    if not m:
        return None
    seed = m.group("seed")
    if seed is not None:
        seed = norm_obs_expr(seed, rootname)
    return {"inst": m.group("inst"), "filter": norm_obs_expr(m.group("filter") or "", rootname), "wrap": "rand" if m.group("rand") else "none", "seed": seed or ""}


def observe(xform, itemsets, src):
    root = project.parse(xform)
    rootname = project.local(project.primary_root(root).tag)
    insts = []
    for s in project.secondary_instances(root):
        insts.append({"id": s["id"] or "", "src": s["src"] or "", "has_items": s["items"] is not None, "items": s["items"] or []})
    body = project.body_preorder(root)
    binds = {b["nodeset"]: b["attrs"] for b in project.binds(root)}
    sels = []
    for s in src["selects"]:
        ref = "/" + "/".join([rootname] + s["path"])
        for c in body:
            if c["ref"] != ref:
                continue
            o = {"path": s["path"], "kind": "none", "inst": "", "filter": "", "wrap": "none", "seed": "", "vref": "", "lref": "", "items": []}
            if c["itemset"]:
                ns = c["itemset"]["nodeset"] or ""
                p = parse_nodeset(ns, rootname)
                o.update(vref=c["itemset"]["value"] or "", lref=c["itemset"]["label"] or "")
                if p:
                    o.update(kind="itemset", **p)
                else:
                    m = re.match(r"^/" + re.escape(rootname) + r"/([\w./\-]+)\[", ns)
                    o.update(kind="repeat" if m else "unparsed", inst=m.group(1) if m else ns)
            elif "query" in c["attrs"]:
                q = c["attrs"]["query"]
                m = re.match(r"^instance\('([^']+)'\)/root/item(\[(.*)\])?$", q, re.S)
                o.update(kind="query", inst=m.group(1) if m else q, filter=norm_obs_expr(m.group(3) or "", rootname) if m else "")
            elif c["items"]:
                o.update(kind="inline", items=[[i["value"], "".join(p[1] for p in (i["label"] or {"pieces": []})["pieces"])] for i in c["items"]])
            sels.append(o)
    others = []
    for o in src["others"]:
        p = "/" + "/".join([rootname] + o["path"]) + "_other"
        prim = project.instance_preorder(root)
        has = any(n["p"][1:] == o["path"][:-1] + [o["path"][-1] + "_other"] for n in prim)
        rel = (binds.get(p) or {}).get("relevant", "")
        sel_abs = "/" + "/".join([rootname] + o["path"])
        ok = bool(re.fullmatch(r"selected\(\s*(\.\./" + re.escape(o["path"][-1]) + "|" + re.escape(sel_abs) + r")\s*,\s*'other'\s*\)", rel.strip()))
        others.append({"path": o["path"], "has_node": has, "relevant_ok": ok})
    rows = []
    if itemsets:
        rows = [list(r) for r in csv.reader(io.StringIO(itemsets))]
    return {"instances": insts, "selects": sels, "others": others, "csv": rows}


def observe_free(xform):
    """facts that need no knowledge of the source: instance ids (with the itextIds of their items) and the instances that itemsets / queries read"""
    root = project.parse(xform)
    insts = []
    for s in project.secondary_instances(root):
        ids = [dict(it).get("itextId") for it in (s["items"] or []) if "itextId" in dict(it)]
        insts.append({"id": s["id"] or "", "itext_ids": ids})
    reads = []
    for c in project.body_preorder(root):
        texts = []
        if c["itemset"]:
            texts.append(c["itemset"]["nodeset"] or "")
        # (a select_one_external's query reads a list that is delivered beside the form, in itemsets.csv: not an in-form instance)
        for t in texts:
            m = re.match(r"^(?:randomize\()?instance\('([^']+)'\)/root/item", t.strip())
            if m:
                reads.append(m.group(1))
    return {"instances": insts, "reads": sorted(set(reads))}
