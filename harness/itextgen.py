"""C07/C08: concretise a translation matrix (from Itext.tla's generator) and project the effective texts."""

from __future__ import annotations

import random
import re

from harness import project

LANGNAME = {"A": "English (en)", "B": "French (fr)", "Z": "Zulu (zu)"}
# concrete language names per case: distinct names, or two names that differ only by the bracketed subtag / by case
LANGSETS = [LANGNAME, LANGNAME, {"A": "English (en)", "B": "English", "Z": "Zulu (zu)"}, {"A": "English", "B": "English (en)", "Z": "Zulu (zu)"},
            {"A": "english", "B": "English", "Z": "Zulu (zu)"}]
COL = {"label": "label", "hint": "hint", "guidance": "guidance_hint", "cmsg": "constraint_message", "rmsg": "required_message", "noapp": "noAppErrorString", "image": "image", "audio": "audio"}
# q2's concrete name contains the name of a translatable column (names are free text; they must not be mistaken for column tags)
Q2NAME = "q2_guidance_hint_x"
QPATH = {"q1": ["q1"], "q2": ["g", Q2NAME], "g": ["g"], "s1": ["s1"], "s2": ["s2"], "s3": ["s3"], "c1": ["c1"]}
CHOICES = {"L.1": ("L", 0, "l1"), "L.2": ("L", 1, "l2"), "M.1": ("M", 0, "m1"), "M.2": ("M", 1, "m2"), "U.1": ("U", 0, "u1")}   # U: a spare list no select reads


def cell_text(e, k, L, refs=False):
    t = f"{e} {k} {L or 'U'}"
    if refs and k not in ("image", "audio"):
        return t + " ${q0}"
    if k == "image":
        return t.replace(" ", "_") + ".png"
    if k == "audio":
        return t.replace(" ", "_") + ".mp3"
    return t


def header(k, L, style, names=LANGNAME):
    """style: '::' | ' :: ' | ':' | 'media' -- one delimiter style per sheet (pyxform splits every header of a sheet on '::' as
    soon as one header contains it, so styles cannot be mixed within a sheet)"""
    base = COL[k]
    if style == "media" and k in ("image", "audio"):
        base = "media::" + base
    if not L:
        return base
    d = "::" if style == "media" else style
    return f"{base}{d}{names[L]}"


def build(case, seed=0):
    """case: {dl, cells:[[e,k,L]...]} -> (wb, src, kwargs)"""
    refs = bool(case.get("refs"))
    rnd = random.Random(f"itext:{seed}:{case['dl']}:{refs}:{sorted(map(tuple, case['cells']))}")
    cells = {(e, k, L): cell_text(e, k, L, refs) for e, k, L in case["cells"]}
    names = rnd.choice(LANGSETS)
    hdrs = {}
    styles = ["::", "::", " :: ", ":", "media", ": ", " : "]      # (blanks around either delimiter are not part of the language name)
    style = {"survey": rnd.choice(styles), "choices": rnd.choice(styles)}
    for (e, k, L) in sorted(cells):
        sheet = "choices" if e in CHOICES else "survey"
        if (sheet, k, L) not in hdrs:
            hdrs[(sheet, k, L)] = header(k, L, style[sheet], names)
    srows = [
        {"type": "text", "name": "q0", "label": "Q0"} if refs else None,
        {"type": "text", "name": "q1", "constraint": ". != 'x'", "required": "yes"},
        {"type": "begin group", "name": "g"},
        {"type": "text", "name": Q2NAME, "constraint": ". != 'y'", "required": "yes"},
        {"type": "end group"},
        {"type": "select_one L", "name": "s1"},
        {"type": "select_multiple L", "name": "s2"},
        {"type": "select_one L", "name": "s4", "label": "S4 randomized", "parameters": "randomize=true"},
        {"type": "select_one M", "name": "s3", "appearance": "search('mfile')"},
        {"type": "calculate", "name": "c1", "calculation": "1 + 1", "constraint": ". != 7", "required": "yes"},
    ]
    srows = [r for r in srows if r is not None]
    if refs:
        hdrs[("survey", "label", "")] = hdrs.get(("survey", "label", ""), "label")
    byname = {r.get("name"): r for r in srows}
    byname["q2"] = byname[Q2NAME]
    crows = [{"list_name": "L", "name": "l1"}, {"list_name": "L", "name": "l2"}, {"list_name": "M", "name": "m1"}, {"list_name": "M", "name": "m2"}, {"list_name": "U", "name": "u1"}]
    for (e, k, L), t in cells.items():
        if e in CHOICES:
            crows[["L.1", "L.2", "M.1", "M.2", "U.1"].index(e)][hdrs[("choices", k, L)]] = t
        else:
            byname[e][hdrs[("survey", k, L)]] = t
    sh = sorted({h for (s, _, _), h in hdrs.items() if s == "survey"})
    ch = sorted({h for (s, _, _), h in hdrs.items() if s == "choices"})
    rnd.shuffle(sh)
    rnd.shuffle(ch)
    scols = ["type", "name", "constraint", "required", "appearance", "parameters", "calculation"] + sh
    ccols = ["list_name", "name"] + ch
    sheets = [{"name": "survey", "header": scols, "rows": [[r.get(c) for c in scols] for r in srows]},
              {"name": "choices", "header": ccols, "rows": [[r.get(c) for c in ccols] for r in crows]}]
    kwargs = {}
    if case["dl"]:
        mode = rnd.choice(["settings", "argument", "argument_beside_settings_sheet"])
        if mode == "settings":
            sheets.append({"name": "settings", "header": ["default_language"], "rows": [[names[case["dl"]]]]})
        else:
            kwargs["default_language"] = names[case["dl"]]
            if mode == "argument_beside_settings_sheet":
                sheets.append({"name": "settings", "header": ["form_title"], "rows": [["A title"]]})
    src = {"dl": case["dl"], "cells": [[e, k, L, t] for (e, k, L), t in sorted(cells.items())], "names": names}
    return {"sheets": sheets}, src, kwargs


RE_IT = re.compile(r"^jr:itext\('([^']*)'\)$")


def _norm(t):
    """documented whitespace collapsing; a substituted node path is shown as the ${name} it came from"""
    t = re.sub(r"/data(?:/[\w.\-]+)*/([\w.\-]+)", lambda m: " ${" + m.group(1) + "} ", t)
    return re.sub(r"\s+", " ", t).strip()


def _pieces_text(pieces):
    return _norm("".join(p[1] if p[0] == "t" else " " + p[1] + " " for p in pieces))


def observe(xform: str, src) -> dict:
    root = project.parse(xform)
    it = project.itext(root)
    ABS = {v: k for k, v in (src.get("names") or LANGNAME).items()}
    ABS["default"] = "default"
    langs = [ABS.get(l, "?" + str(l)) for l in it["langs"]]
    texts = {ABS.get(l, "?" + str(l)): v for l, v in it["texts"].items()}
    body = project.body_preorder(root)
    binds = {b["nodeset"]: b["attrs"] for b in project.binds(root)}
    sec = {s["id"]: s for s in project.secondary_instances(root)}
    rootname = project.local(project.primary_root(root).tag)

    def form_vals(tid, form):
        out = []
        for L in langs:
            vals = [v for v in texts.get(L, {}).get(tid, []) if (v["form"] or "long") == form]
            out.append([L, _pieces_text(vals[0]["pieces"]) if vals else ""])
        return out

    def any_form(tid, form):
        return any(any((v["form"] or "long") == form for v in texts.get(L, {}).get(tid, [])) for L in langs)

    refs = [r["id"] for r in project.itext_refs(root) if r["id"] != "itextId" and not r["id"].startswith("itextId")]
    eff = []
    pairs = sorted({(c[0], c[1]) for c in src["cells"]})

    def ctrl(path):
        ref = "/" + "/".join([rootname] + path)
        for c in body:
            if (c["ref"] == ref) or (c["nodeset"] == ref):
                return c
        return None

    def from_labelish(e, k, lab):
        """lab: {'ref':..., 'pieces':...} or None -> eff record for text kind k and associated media/guidance"""
        if lab is None:
            return {"e": e, "k": k, "mode": "none", "vals": []}
        m = RE_IT.match(lab["ref"] or "")
        if m:
            return {"e": e, "k": k, "mode": "itext", "vals": form_vals(m.group(1), "long"), "id": m.group(1)}
        return {"e": e, "k": k, "mode": "inline", "vals": [["", _pieces_text(lab["pieces"])]]}

    def sub_form(e, k, parent_rec, form):
        if parent_rec.get("id") and any_form(parent_rec["id"], form):
            return {"e": e, "k": k, "mode": "itext", "vals": form_vals(parent_rec["id"], form)}
        return {"e": e, "k": k, "mode": "none", "vals": []}

    def attr_msg(e, k, path, attr):
        v = binds.get("/" + "/".join([rootname] + path), {}).get(attr)
        if v is None:
            return {"e": e, "k": k, "mode": "none", "vals": []}
        m = RE_IT.match(v)
        if m:
            return {"e": e, "k": k, "mode": "itext", "vals": form_vals(m.group(1), "long")}
        return {"e": e, "k": k, "mode": "inline", "vals": [["", _norm(v)]]}

    choice_ids = []
    for e, k in pairs:
        if e in CHOICES:
            lst, idx, nm = CHOICES[e]
            lab = None
            if lst in sec and sec[lst]["items"] is not None and idx < len(sec[lst]["items"]):
                item = dict(sec[lst]["items"][idx])
                # what each select that reads this list shows for the item: follow its itemset's label reference
                shown = []
                for c in body:
                    its = c.get("itemset")
                    if its and f"instance('{lst}')" in (its.get("nodeset") or ""):
                        lref = its.get("label") or ""
                        if lref == "jr:itext(itextId)":
                            shown.append({"ref": f"jr:itext('{item['itextId']}')", "pieces": []} if "itextId" in item else None)
                        else:
                            shown.append({"ref": None, "pieces": [["t", item[lref]]]} if lref in item else None)
                if shown:
                    # every select must show it; report the first one that does not, else the common one
                    lab = None if any(x is None for x in shown) else shown[0]
                elif "itextId" in item:
                    lab = {"ref": f"jr:itext('{item['itextId']}')", "pieces": []}
                elif "label" in item:
                    lab = {"ref": None, "pieces": [["t", item["label"]]]}
            else:
                # inline items (search()): take them from the first select that carries items
                for c in body:
                    if c["items"] and len(c["items"]) > idx and c["items"][idx]["value"] == nm:
                        lab = c["items"][idx]["label"]
                        break
            base = from_labelish(e, "label", lab)
            eff.append(base if k == "label" else sub_form(e, k, base, k))
            continue
        c = ctrl(QPATH[e])
        if k in ("label", "image", "audio"):
            base = from_labelish(e, "label", c["label"] if c else None)
            eff.append(base if k == "label" else sub_form(e, k, base, k))
        elif k in ("hint", "guidance"):
            base = from_labelish(e, "hint", c["hint"] if c else None)
            if k == "hint":
                # a hint element that exists only to carry guidance shows no hint text of its own
                if base["mode"] == "itext" and not any_form(base["id"], "long"):
                    base = {"e": e, "k": k, "mode": "none", "vals": []}
                eff.append(base)
            else:
                eff.append(sub_form(e, k, base, "guidance"))
        elif k == "cmsg":
            eff.append(attr_msg(e, k, QPATH[e], "jr:constraintMsg"))
        elif k == "rmsg":
            eff.append(attr_msg(e, k, QPATH[e], "jr:requiredMsg"))
        elif k == "noapp":
            eff.append(attr_msg(e, k, QPATH[e], "jr:noAppErrorString"))
    for x in eff:
        x.pop("id", None)
    # itextIds carried by choice items are references too
    for s in sec.values():
        for item in s["items"] or []:
            d = dict(item)
            if "itextId" in d:
                choice_ids.append(d["itextId"])
    return {"present": it["present"], "langs": langs, "defaults": [ABS.get(l, "?" + str(l)) for l in it["default"]],
            "dup_ids": it["dup_ids"], "ids": [[L, sorted(texts.get(L, {}))] for L in langs],
            "refs": sorted(set(refs) | set(choice_ids)), "eff": eff}


def observe_free(xform: str) -> dict:
    """the itext facts that need no knowledge of the source: languages, ids per language, references (body, binds, choice items)"""
    root = project.parse(xform)
    it = project.itext(root)
    # references the converter itself generates: label/hint @ref and the message attributes of binds.  (An author may type
    # jr:itext('...') inside an expression cell, e.g. a default; such text is the author's, not a generated reference.)
    gen_places = {("label", "ref"), ("hint", "ref"), ("bind", "jr:constraintMsg"), ("bind", "jr:requiredMsg"), ("bind", "jr:noAppErrorString")}
    refs = [r["id"] for r in project.itext_refs(root) if (r["tag"], r["attr"]) in gen_places and r["id"] != "itextId" and not r["id"].startswith("itextId")]
    for s in project.secondary_instances(root):
        for item in s["items"] or []:
            d = dict(item)
            if "itextId" in d:
                refs.append(d["itextId"])
    return {"present": it["present"], "langs": [str(l) for l in it["langs"]], "defaults": [str(l) for l in it["default"]], "dup_ids": it["dup_ids"],
            "ids": [[str(L), sorted(it["texts"].get(L, {}))] for L in it["langs"]], "refs": sorted(set(refs)), "eff": []}
