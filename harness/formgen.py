"""Decoration: a TLC-generated row-shape sequence -> a concrete abstract workbook.

TLC decides the *structure* (which rows, nesting, generated helpers); this module fills cells
deterministically from (shape sequence, seed, feature set).  It also returns `meta`: what was
written where, so envelopes that compare source cells with output (C05, C08, C10 ...) have the
source side without re-parsing the workbook.
"""

from __future__ import annotations

import random
import re

TEXT_TYPES = ["text", "string", "integer", "int", "decimal", "date", "time", "dateTime", "datetime",
              "geopoint", "gps", "geotrace", "geoshape", "barcode", "note"]
UPLOAD_TYPES = ["photo", "image", "audio", "video", "file"]
TRIGGER_TYPES = ["acknowledge", "trigger"]
EXTERNAL_TYPES = ["xml-external", "csv-external"]      # rows that contribute a secondary instance only
HIDDEN_TYPES = ["start", "end", "today", "deviceid", "username", "email", "phonenumber", "hidden"]
SEL1 = ["select_one", "select one", "select1"]
SELM = ["select_multiple", "select all that apply"]
LANGS = ["English (en)", "French (fr)"]


class Form:
    def __init__(self):
        self.cols = ["type", "name", "label"]
        self.rows = []  # list of dict col->cell
        self.qnames = []  # names of questions (targets for references)
        self.intnames = []
        self.info = []  # per row: dict(shape, name, path, kind)
        self.stack = []
        self.choices_cols = ["list_name", "name", "label"]
        self.choices = []
        self.settings = {}

    def col(self, c):
        if c not in self.cols:
            self.cols.append(c)

    def wb(self, extra_sheets=()):
        sheets = [{"name": "survey", "header": list(self.cols),
                   "rows": [[r.get(c) for c in self.cols] for r in self.rows]}]
        if self.choices:
            sheets.append({"name": "choices", "header": list(self.choices_cols),
                           "rows": [[r.get(c) for c in self.choices_cols] for r in self.choices]})
        if self.settings:
            ks = list(self.settings)
            sheets.append({"name": "settings", "header": ks, "rows": [[self.settings[k] for k in ks]]})
        sheets.extend(extra_sheets)
        return {"sheets": sheets}


def _ref(rnd, f: Form, exclude=None):
    cands = [n for n in f.qnames if n != exclude]
    return "${" + rnd.choice(cands) + "}" if cands else None


def decorate(shapes, seed=0, feat=frozenset()):
    """feat: subset of {"logic","lang","media","defaults","hints","unlabeled","appearance","settings",
    "choices_extra","trigger","refs_in_labels","params"}"""
    shapes = [(s, "") if isinstance(s, str) else (s[0], s[1]) for s in shapes]
    rnd = random.Random(f"{seed}:{shapes}")
    f = Form()
    langs = LANGS if "lang" in feat and rnd.random() < 0.7 else []
    # names may contain dots and hyphens (legal XML names; `${n3.a-b}` must still be found as a reference)
    dotted = "dotted_names" in feat and rnd.random() < 0.3
    # names that are string prefixes of one another (nxx, nxxx, ...): the path of one element then begins with the path of another
    prefixy = not dotted and random.Random(f"prefixy:{seed}:{shapes}").random() < 0.2
    # the deprecated 'disabled' column: a yes cell removes the row, a no cell changes nothing (several such cells per form)
    use_disabled = "disabled" in feat and rnd.random() < 0.3
    n = 1
    lists_used = set()
    for shape, given in shapes:
        n += 1
        name = given or f"n{n}"
        if prefixy and re.fullmatch(r"n\d+", name):
            name = "n" + "x" * int(name[1:])
        if dotted and re.fullmatch(r"n\d+", name) and rnd.random() < 0.6:
            name = f"{name}.a-b"
        row = {}
        info = {"shape": shape, "name": None, "row": n, "path": None}
        if shape == "blank":
            f.rows.append(row)
            f.info.append(info)
            continue
        if shape in ("end_group", "end_repeat"):
            row["type"] = rnd.choice(["end group", "end_group"]) if shape == "end_group" else rnd.choice(["end repeat", "end_repeat"])
            f.rows.append(row)
            f.info.append(info)
            if f.stack:
                f.stack.pop()
            continue
        if shape.startswith("e_"):
            # rows carrying one structural error (Gen_RowParser ErrShapes, C17)
            row.update(type="text", name=name, label=f"Label {name}")
            if shape == "e_notype":
                del row["type"]
            elif shape == "e_noname":
                del row["name"]
            elif shape == "e_badname":
                row["name"] = rnd.choice(["1", "-", "x y ", "$"]) .strip() + name if rnd.random() < 0.7 else name + " z"
            elif shape == "e_badname_group":
                row.update(type="begin group", name="9" + name)
                f.stack.append(row["name"])
            elif shape == "e_noname_repeat":
                row["type"] = "begin repeat"
                del row["name"]
                f.stack.append("?")
            elif shape == "e_calc_nocalc":
                row["type"] = "calculate"
                del row["label"]
            elif shape == "e_sel_nolist":
                row["type"] = rnd.choice(SEL1 + SELM) + " Z"
            elif shape == "e_sel_other_filter":
                row["type"] = "select_one L or_other"
                f.col("choice_filter")
                row["choice_filter"] = "grp = 'g1'"
                lists_used.add("L")
            elif shape == "e_audit_named":
                row.update(type="audit", name="aud")
                del row["label"]
            elif shape == "e_unknown_type":
                row["type"] = "no such type"
            elif shape == "e_nolabel":
                del row["label"]
            elif shape == "e_badref":
                c = rnd.choice(["relevant", "constraint", "calculation", "required"])
                f.col(c)
                row[c] = "${nowhere} = 1"
            elif shape == "e_selfdup_ref":
                f.col("relevant")
                row["relevant"] = "${dq} = 1"
            else:
                raise ValueError(shape)
            f.rows.append(row)
            f.info.append(info)
            continue
        if shape == "audit":
            row["type"] = "audit"
            row["name"] = rnd.choice([None, "audit"])
            f.rows.append(row)
            f.info.append(info)
            continue
        path = [s for s in f.stack] + [name]
        info.update(name=name, path=path)
        row["name"] = name
        labelled = True
        if shape == "text":
            row["type"] = rnd.choice(TEXT_TYPES[:2])
            if "params" in feat and row["type"] == "text" and rnd.random() < 0.3:
                f.col("parameters")
                row["parameters"] = rnd.choice(["rows=3", "rows=5"])
        elif shape == "typed":
            row["type"] = rnd.choice(TEXT_TYPES[2:])
            if "params" in feat and row["type"] == "geopoint" and rnd.random() < 0.6:
                # accuracy thresholds become attributes of the control; the separators are interchangeable
                f.col("parameters")
                row["parameters"] = rnd.choice(["capture-accuracy=10 warning-accuracy=20", "warning-accuracy=12.5", "capture-accuracy=7;warning-accuracy=9", "capture-accuracy=3, warning-accuracy=4"])
        elif shape == "calc":
            row["type"] = "calculate"
            f.col("calculation")
            r0 = _ref(rnd, f)
            row["calculation"] = rnd.choice(["1 + 1", "concat('a', 'b')", "now()"] + ([f"{r0} + 1"] if r0 else []))
            labelled = False
        elif shape == "hidden":
            row["type"] = rnd.choice(HIDDEN_TYPES + (EXTERNAL_TYPES if "externals" in feat else []))
            labelled = False
            if row["type"] == "hidden":
                pass
        elif shape == "note_noname":
            row["type"] = "note"
            row["name"] = None
            info["name"] = f"generated_note_name_{n}"
            info["path"] = [s for s in f.stack] + [info["name"]]
        elif shape in ("sel1", "sel1_other"):
            row["type"] = rnd.choice(SEL1) + " L" + (rnd.choice([" or_other", " or other", " or specify other"]) if shape == "sel1_other" else "")
            lists_used.add("L")
        elif shape == "selm":
            row["type"] = rnd.choice(SELM) + " M"
            lists_used.add("M")
        elif shape == "upload":
            row["type"] = rnd.choice(UPLOAD_TYPES)
            if "params" in feat and row["type"] in ("photo", "image") and rnd.random() < 0.5:
                f.col("parameters")
                row["parameters"] = "max-pixels=640"
        elif shape == "trigger":
            row["type"] = rnd.choice(TRIGGER_TYPES)
        elif shape == "range":
            row["type"] = "range"
            if "params" in feat and rnd.random() < 0.5:
                f.col("parameters")
                row["parameters"] = rnd.choice(["start=0 end=5 step=1", "start=0.5 end=5.5 step=0.5"])
        elif shape.startswith("begin_group"):
            row["type"] = rnd.choice(["begin group", "begin_group"])
            if shape == "begin_group_tl":
                f.col("appearance")
                row["appearance"] = "table-list"
            elif "appearance" in feat and rnd.random() < 0.3:
                f.col("appearance")
                row["appearance"] = "field-list"
            f.stack.append(name)
            if "unlabeled" in feat and rnd.random() < 0.3:
                labelled = False
                if "hints" in feat and rnd.random() < 0.5:
                    # a group with a hint but no label (a table-list group still gets its generated helper note)
                    f.col("hint")
                    row["hint"] = f"Hint only {name}"
        elif shape.startswith("begin_repeat"):
            row["type"] = rnd.choice(["begin repeat", "begin_repeat"])
            if shape == "begin_repeat_count":
                f.col("repeat_count")
                r0 = "${" + rnd.choice(f.intnames) + "}" if f.intnames else None
                row["repeat_count"] = rnd.choice(["3", "2 + 1"] + ([f"{r0} + 1", r0] if r0 else []))
            if "appearance" in feat and rnd.random() < 0.3:
                f.col("appearance")
                row["appearance"] = "field-list"
            f.stack.append(name)
            if "unlabeled" in feat and rnd.random() < 0.4:
                labelled = False
        else:
            raise ValueError(shape)
        is_q = not shape.startswith("begin")
        if "appearance" in feat and is_q and shape in ("text", "typed", "sel1", "selm", "upload") and rnd.random() < 0.25:
            # an appearance on a question row (together with whatever its parameters put on the control) and a custom body attribute
            f.col("appearance")
            row["appearance"] = {"text": "multiline", "typed": "minimal", "sel1": "minimal", "selm": "compact", "upload": "annotate"}.get(shape, "minimal") if row["type"] not in ("image", "photo") or shape != "upload" else "annotate"
            if rnd.random() < 0.4:
                f.col("body::kind")
                row["body::kind"] = f"bk{n}"
        if "instance_attrs" in feat and rnd.random() < (0.5 if not is_q else 0.15):
            # custom attributes on the instance node (instance::x); on a repeat they must appear on the template copy as well
            f.col("instance::kind")
            row["instance::kind"] = f"k{n}"
        # label / hint / translations / media
        if labelled:
            text = f"Label {name}"
            if "refs_in_labels" in feat and rnd.random() < 0.3:
                r0 = _ref(rnd, f, exclude=name)
                if r0:
                    text = f"Label {name} {r0} end"
            if langs and rnd.random() < 0.6:
                for lg in langs:
                    if rnd.random() < 0.85:
                        f.col(f"label::{lg}")
                        row[f"label::{lg}"] = f"{text} [{lg[:2]}]"
                if not any(k.startswith("label::") for k in row):
                    row["label"] = text
            else:
                row["label"] = text
            if "hints" in feat and rnd.random() < 0.4:
                if langs and rnd.random() < 0.5:
                    lg = rnd.choice(langs)
                    f.col(f"hint::{lg}")
                    row[f"hint::{lg}"] = f"Hint {name} [{lg[:2]}]"
                else:
                    f.col("hint")
                    row["hint"] = f"Hint {name}"
            if ("hints" in feat and is_q and shape in ("text", "typed") and not langs and "label" in row and "hint" not in row
                    and random.Random(f"hintonly:{seed}:{n}:{shapes}").random() < 0.15):
                # a question that shows only a hint (no label): still a user-visible row, whatever else its cells say (trigger, default)
                del row["label"]
                f.col("hint")
                row["hint"] = f"Hint only {name}"
            if "hints" in feat and is_q and rnd.random() < 0.15:
                f.col("guidance_hint")
                row["guidance_hint"] = f"Guide {name}"
            if "media" in feat and is_q and rnd.random() < 0.2:
                c = rnd.choice(["image", "audio", "video"] + ([f"image::{langs[0]}"] if langs else []))
                f.col(c)
                row[c] = f"{name}.{'png' if 'image' in c else 'mp3'}"
        # logic
        if "logic" in feat and shape not in ("hidden", "note_noname"):
            r0 = _ref(rnd, f, exclude=name)
            if rnd.random() < 0.35:
                f.col("relevant")
                row["relevant"] = rnd.choice(["true()", "1 = 1"] + ([f"{r0} != ''", f"{r0} = 'x' or {r0} > 3"] if r0 else []))
            if is_q and rnd.random() < 0.25:
                f.col("required")
                row["required"] = rnd.choice(["yes", "true()", "TRUE", "no"] + ([f"{r0} = 1"] if r0 else []))
            if is_q and shape in ("text", "typed") and rnd.random() < 0.25:
                f.col("constraint")
                row["constraint"] = rnd.choice([". != ''", ". > 0 and . < 10"] + ([f". != {r0}"] if r0 else []))
                if rnd.random() < 0.5:
                    f.col("constraint_message")
                    row["constraint_message"] = f"Bad {name}"
            if is_q and rnd.random() < 0.1:
                f.col("read_only")
                row["read_only"] = rnd.choice(["yes", "true()"])
        if "defaults" in feat and shape in ("text", "typed") and rnd.random() < 0.35:
            f.col("default")
            r0 = _ref(rnd, f, exclude=name)
            t = row["type"]
            if t in ("integer", "int", "decimal"):
                row["default"] = rnd.choice(["7", "-3", "1 + 2"] + ([f"{r0} + 1"] if r0 else []))
            elif t in ("date",):
                row["default"] = rnd.choice(["2020-01-31", "today()"])
            elif t in ("text", "string", "note", "barcode"):
                row["default"] = rnd.choice(["hello world", "abc", "concat('a', 'b')", "now()"] + ([r0] if r0 else []))
            else:
                row.pop("default", None)
        hintonly = is_q and str(row.get("hint") or "").startswith("Hint only")
        if "trigger" in feat and shape in ("text", "typed", "calc") and f.qnames and (
                rnd.random() < 0.15 or (hintonly and random.Random(f"hotrig:{seed}:{n}:{shapes}").random() < 0.6)):
            # trigger must be a visible question: pick a labelled text question
            vis = [i["name"] for i in f.info if i["shape"] in ("text", "typed", "sel1", "selm") and i["name"]]
            if vis:
                f.col("trigger")
                f.col("calculation")
                row["trigger"] = "${" + rnd.choice(vis) + "}"
                if "calculation" not in row and rnd.random() < 0.7 and not hintonly:
                    row["calculation"] = rnd.choice(["now()", "1 + 1"])
        off = False
        if use_disabled and is_q and rnd.random() < 0.5:
            f.col("disabled")
            row["disabled"] = rnd.choice(["yes", "no", "true", "yes", "false"])
            off = row["disabled"] in ("yes", "true")
            if off:
                info["shape"] = "disabled"       # (not a candidate for references or triggers)
        f.rows.append(row)
        f.info.append(info)
        if is_q and not off and row.get("type") not in EXTERNAL_TYPES:      # (an external-instance row has no node: not a referable name)
            f.qnames.append(info["name"])
            if row["type"] in ("integer", "int"):
                f.intnames.append(info["name"])
    # choices
    extra = "choices_extra" in feat and rnd.random() < 0.5
    clangs = langs if (langs and rnd.random() < 0.6) else []
    for lst, k in (("L", 3), ("M", 2)):
        if lst not in lists_used and rnd.random() < 0.7:
            continue
        for i in range(1, k + 1):
            c = {"list_name": lst, "name": f"{lst.lower()}{i}"}
            if clangs:
                for lg in clangs:
                    col = f"label::{lg}"
                    if col not in f.choices_cols:
                        f.choices_cols.append(col)
                    c[col] = f"Choice {lst}{i} [{lg[:2]}]"
            else:
                c["label"] = f"Choice {lst}{i}"
            if extra:
                if "grp" not in f.choices_cols:
                    f.choices_cols.append("grp")
                if rnd.random() < 0.7:
                    c["grp"] = f"g{i}"
            f.choices.append(c)
    if "settings" in feat and rnd.random() < 0.6:
        f.settings["form_title"] = "My Title"
        f.settings["form_id"] = "my_form"
        if rnd.random() < 0.5:
            f.settings["version"] = "2024010101"
        if langs and rnd.random() < 0.5:
            f.settings["default_language"] = rnd.choice(langs)
        if rnd.random() < 0.2:
            f.settings["instance_name"] = "concat('x', 'y')"
    return f
