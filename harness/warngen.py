"""C20: build workbooks for the warning triggers and parse the warning list into facts."""

from __future__ import annotations

import re

LANG = {"A": "English (en)", "B": "French (fr)"}
ABS = {"English (en)": "A", "French (fr)": "B", "default": ""}


def classify(warnings):
    """-> (warn: [[kind, row]], missing: [[sheet, lang, col]], similar: [names], bad_langs: [names])"""
    warn, missing, similar, bad = [], [], [], []
    for w in warnings:
        rowm = re.match(r"\[row : (\d+)\]", w)
        row = int(rowm.group(1)) if rowm else 0
        if "is missing the" in w and w.startswith("Language"):
            for line in w.split("\n"):
                m = re.match(r"Language '(.*)' is missing the (survey|choices) (?:columns (.*)\.|(\S+) column\.)$", line)
                if not m:
                    warn.append(["unparsed_missing", 0])
                    continue
                cols = m.group(3).split(", ") if m.group(3) else [m.group(4)]
                for c in cols:
                    missing.append([m.group(2), ABS.get(m.group(1), "?" + m.group(1)), c])
        elif "The 'disabled' column header" in w:
            warn.append(["disabled", row])
        elif "Group has no label" in w:
            warn.append(["group_nolabel", row])
        elif "Repeat has no label" in w:
            warn.append(["repeat_nolabel", row])
        elif "is no longer supported on most devices" in w:
            warn.append(["deprecated", row])
        elif "Use the max-pixels parameter" in w:
            warn.append(["no_maxpix", row])
        elif "select one external is only meant for filtered selects" in w:
            warn.append(["ext_nofilter", row])
        elif "Choices should have a label" in w:
            warn.append(["choice_nolabel", row])
        elif "form_id and id_string column headers are both" in w:
            warn.append(["dup_id", 0])
        elif "This form uses or_other and translations" in w:
            warn.append(["or_other", 0])
        elif "Row without name, text, or label is being skipped" in w:
            warn.append(["skip_row", row])
        elif "the following sheets with similar names were found" in w:
            similar += similar_notice(w)
        elif "do not contain valid machine-readable codes" in w:
            bad += [x.strip() for x in w.split("codes: ")[1].split(". Learn more")[0].split(", ")]
        else:
            warn.append(["unknown:" + w[:60], row])
    return warn, missing, similar, bad


def similar_notice(text):
    """-> [[target, name], ...] for every "When looking for a sheet named 'T', ... were found: 'a', 'b'." in text"""
    out = []
    for m in re.finditer(r"When looking for a sheet named '([^']*)', the following sheets with similar names were found: ((?:'[^']*'(?:, )?)+)\.", text):
        out += [[m.group(1), n] for n in re.findall(r"'([^']*)'", m.group(2))]
    return out


def _hdr(col, L):
    return col if not L else f"{col}::{LANG[L]}"


def build_trans(case):
    sh = sorted(map(tuple, case["sh"]))
    ch = sorted(map(tuple, case["ch"]))
    scols = ["type", "name", "constraint"] + [_hdr(c, L) for c, L in sh]
    rows = [["text", "q1", ". != 'x'"] + [f"{c} {L or 'U'} q1" + (".png" if c == "image" else "") for c, L in sh],
            [("select_one L or_other" if case["other"] else "select_one L"), "s1", None] + [f"{c} {L or 'U'} s1" + (".png" if c == "image" else "") for c, L in sh]]
    ccols = ["list_name", "name"] + [_hdr(c, L) for c, L in ch]
    crows = [["L", f"l{i}"] + [f"{c} {L or 'U'} l{i}" + (".png" if c == "image" else ".mp3" if c == "audio" else "") for c, L in ch] for i in (1, 2)]
    return {"sheets": [{"name": "survey", "header": scols, "rows": rows}, {"name": "choices", "header": ccols, "rows": crows}]}


def build_rows(case):
    T = set(case["trig"])
    lab = "label::English (en)" if "or_other_trans" in T else "label"
    cols = ["type", "name", lab, "parameters", "choice_filter", "appearance"] + (["disabled"] if "disabled" in T else [])
    R = [
        {"type": "text", "name": "q1", lab: "Q1"},
        {"type": "begin group", "name": "g1", lab: "G1"},
        {"type": "text", "name": "q2", lab: "Q2"},
        {"type": "end group"},
        {"type": "begin repeat", "name": "r1", lab: "R1"},
        {"type": "integer", "name": "q3", lab: "Q3"},
        {"type": "end repeat"},
        {"type": "image", "name": "p1", lab: "P1", "parameters": "max-pixels=100"},
        {"type": "select_one L" + (" or_other" if "or_other_trans" in T else ""), "name": "s1", lab: "S1"},
    ]
    if "disabled" in T:
        R[0]["disabled"] = "no"
        R[5]["disabled"] = "no"
    if "nolabel_group" in T:
        del R[1][lab]
    if "nolabel_repeat" in T:
        del R[4][lab]
    if "fl_multi" in T:
        R[1]["appearance"] = "w2 field-list" if len(T) % 2 else "field-list no-collapse"
    if "no_maxpix" in T:
        # no max-pixels: either no parameters at all, or another parameter only
        if len(T) % 2:
            del R[7]["parameters"]
        else:
            R[7]["parameters"] = "app=com.example.camera"
    if "deprecated" in T:
        R.append({"type": "subscriberid" if len(T) % 2 else "simserial", "name": "dep"})
    if "ext_nofilter" in T:
        R.append({"type": "select_one_external X", "name": "e1", lab: "E1"})
    if "comment_row" in T:
        R.append({"appearance": "just a remark"})
    R = [dict() for _ in range(case["blanks"])] + R
    cols = [c for c in cols if c in ("type", "name") or any(c in r for r in R)]
    sheets = [{"name": "survey", "header": cols, "rows": [[r.get(c) for c in cols] for r in R]}]
    crow = [["L", "l1", "L1"], ["L", "l2", None if "choice_nolabel" in T else "L2"]]
    if "ext_nofilter" in T:
        crow.append(["X", "x0", "X0"])
    sheets.append({"name": "choices", "header": ["list_name", "name", "label"], "rows": crow})
    if "ext_nofilter" in T:
        sheets.append({"name": "external_choices", "header": ["list_name", "name", "label"], "rows": [["X", "x1", "X1"]]})
    st = {}
    if "dup_id" in T:
        # both headers present; the notice depends on the headers, not on which of the two cells is filled
        st.update(form_id="fid", id_string="ids")
        if len(T) % 3 == 1:
            st["form_id"] = None
        elif len(T) % 3 == 2:
            st["id_string"] = None
    if "noclean" in T:
        st["clean_text_values"] = "no"
    if "allowdup" in T:
        st["allow_choice_duplicates"] = "yes"
    if st:
        sheets.append({"name": "settings", "header": list(st), "rows": [list(st.values())]})
    return {"sheets": sheets}


SUPPORTED = {"survey", "choices", "settings", "external_choices", "osm", "entities"}


def edit_neighbourhood(target, radius, extra="x"):
    """all strings within `radius` single-character edits of target over target's letters + extra"""
    alpha = sorted(set(target) | set(extra))
    seen = {target}
    frontier = {target}
    for _ in range(radius):
        nxt = set()
        for s in frontier:
            for i in range(len(s) + 1):
                for c in alpha:
                    nxt.add(s[:i] + c + s[i:])
            for i in range(len(s)):
                nxt.add(s[:i] + s[i + 1:])
                for c in alpha:
                    nxt.add(s[:i] + c + s[i + 1:])
        frontier = nxt - seen
        seen |= nxt
    return seen


def build_sheetname(target, name):
    """A workbook in which sheet `target` is missing and a sheet called `name` exists."""
    sheets = [{"name": "survey", "header": ["type", "name", "label"], "rows": [["text", "q1", "Q1"]]}]
    if target == "survey":
        sheets = []
    if target == "choices":
        sheets[0]["rows"].append(["select_one L", "s1", "S1"])
    if target == "external_choices":
        sheets[0]["header"].append("choice_filter")
        sheets[0]["rows"].append(["select_one_external X", "e1", "E1", "a=1"])
    content = {"survey": (["type", "name", "label"], [["text", "q1", "Q1"]]), "choices": (["list_name", "name", "label"], [["L", "l1", "L1"]]),
               "settings": (["form_title"], [["T"]]), "entities": (["dataset", "label"], [["people", "'x'"]]),
               "external_choices": (["list_name", "name", "label"], [["X", "x1", "X1"]])}[target]
    sheets.append({"name": name, "header": content[0], "rows": content[1]})
    return {"sheets": sheets}
